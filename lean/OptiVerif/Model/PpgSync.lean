/-
Exact integer model of `opticomlib.lab.SYNC` (lab.py:45-108) as it is NOW in /repo (lags 0 … l-1).  Core Lean only.

    signal_tx = np.kron(slots_tx, np.ones(sps));  l = signal_tx.size
    if len(signal_rx) < l: raise BufferError
    corr = fftconvolve(signal_rx[:2*l-1], signal_tx[l::-1], 'valid')      -- corr[i] = Σ_j rx[i+j]·tx[j],  i = 0 … l-1
    if max(corr) < 3*std(corr): raise ValueError
    i = argmax(corr);  return electrical_signal(signal_rx[i:-(l-i)]), i

`fftconvolve` is modelled as the exact correlation sum (on integer waveforms the floating error of the FFT is far
below the gap 1 between distinct correlation values).  The population standard deviation test is decided exactly:
`max < 3·std  ⇔  max < 0 ∨ max²·n² < 9·(n·Σc² − (Σc)²)`.
-/
import OptiVerif.Model.Wire

namespace OptiVerif.Sync
open OptiVerif

/-- `np.kron(slots, np.ones(sps))` -/
def kron (tx : List Int) (sps : Nat) : List Int := tx.flatMap (fun b => List.replicate sps b)

/-- Σ uᵢ·vᵢ over the common prefix -/
def dot : List Int → List Int → Int
  | u :: us, v :: vs => u * v + dot us vs
  | _, _ => 0

/-- `corr[i] = Σ_j rx[:2l-1][i+j]·w[j]` for the `valid` lags -/
def corr (rx w : List Int) : List Int :=
  let r := rx.take (2 * w.length - 1)
  (List.range (r.length - w.length + 1)).map (fun i => dot (r.drop i) w)

/-- first maximum of `x :: xs` scanned left to right: `(index, value)`; `i` = index of the next element -/
def argmaxFrom : List Int → Int → Nat → Nat → Nat × Int
  | [], best, bi, _ => (bi, best)
  | x :: xs, best, bi, i => if best < x then argmaxFrom xs x i (i + 1) else argmaxFrom xs best bi (i + 1)

/-- `np.argmax` / `np.max` (first maximum); `none` for an empty array -/
def argmax : List Int → Option (Nat × Int)
  | [] => none
  | x :: xs => some (argmaxFrom xs x 0 1)

/-- `np.max(corr) < 3*np.std(corr)` decided exactly -/
def rejects (c : List Int) (mx : Int) : Bool :=
  let n : Int := c.length
  let s1 := c.sum
  let s2 := (c.map (fun x => x * x)).sum
  decide (mx < 0) || decide (mx * mx * n * n < 9 * (n * s2 - s1 * s1))

/-- the alignment step alone on the waveform `w = signal_tx`: BufferError for short records, otherwise the
    argmax over the lags -/
def lagW (rx w : List Int) : Except Wire.Err Nat :=
  if rx.length < w.length then .error .Buffer
  else if w.length = 0 then .error .ValueError
  else
    match argmax (corr rx w) with
    | none => .error .ValueError
    | some (i, _) => .ok i

def syncLag (rx tx : List Int) (sps : Nat) : Except Wire.Err Nat := lagW rx (kron tx sps)

structure Out where
  index : Nat
  signal : List Int

def syncW (rx w : List Int) : Except Wire.Err Out :=
  let l := w.length
  if rx.length < l then .error .Buffer
  else if l = 0 then .error .ValueError
  else
    let c := corr rx w
    match argmax c with
    | none => .error .ValueError
    | some (i, mx) =>
      if rejects c mx then .error .ValueError
      else
        let s := (rx.drop i).take (rx.length - l)     -- signal_rx[i:-(l-i)]
        if s.isEmpty then .error .ValueError          -- electrical_signal refuses an empty array
        else .ok ⟨i, s⟩

/-- `SYNC(signal_rx, slots_tx, sps)` on integer waveforms -/
def sync (rx tx : List Int) (sps : Nat) : Except Wire.Err Out := syncW rx (kron tx sps)

-- @handler OptiVerif.Sync.handle
/-- `ppg.sync <sps> <tx list> <rx list>` → `ok i unique outlen max lhs rhs` (lhs < rhs ⇔ rejected when max ≥ 0);
    the harness checks `signal = rx[i : i+outlen]` itself -/
def handle : List String → Option String
  | "ppg.sync" :: args =>
    some <| match Wire.run (do let s ← Wire.int; let tx ← Wire.list Wire.int; let rx ← Wire.list Wire.int; pure (s, tx, rx)) args with
    | .error e => "bad-op " ++ e
    | .ok (s, tx, rx) =>
      if s ≤ 0 then Wire.err .ValueError else
      let w := kron tx s.toNat
      let c := corr rx w
      let info : String :=
        match argmax c with
        | none => "-"
        | some (_, mx) =>
          let n : Int := c.length
          let uniq := (c.filter (· == mx)).length == 1
          s!"{Wire.fBool uniq} {mx} {mx * mx * n * n} {9 * (n * (c.map (fun x => x * x)).sum - c.sum * c.sum)}"
      match sync rx tx s.toNat with
      | .error e => if rx.length < w.length || w.length = 0 then Wire.err e else s!"err {e} {info}"
      | .ok o => Wire.ok s!"{o.index} {o.signal.length} {info}"
  | _ => none

end OptiVerif.Sync
