/-
Small list utilities over the generic numerics with Boolean comparisons (`Cmp`, from Model/FiberNL.lean), shared by the
FBG model (C16) and the eye-estimator model (C17): `np.abs`, `np.argmin` (first minimum), `np.linspace`, mean / std.
Core Lean only.  No handler (library file).
-/
import OptiVerif.Model.FiberNL

set_option linter.unusedSectionVars false

namespace OptiVerif.NumList
open OptiVerif

section
variable {R : Type} [Add R] [Sub R] [Mul R] [Div R] [Neg R] [NatCast R] [Transc R] [Cmp R]

def zero : R := ((0 : Nat) : R)
def one : R := ((1 : Nat) : R)
def two : R := ((2 : Nat) : R)

/-- `np.abs` on a real -/
def absR (x : R) : R := if Cmp.lt x zero then -x else x

/-- `a <= b` as the negation of `b < a` (no NaNs in the model's domain) -/
def le (a b : R) : Bool := !(Cmp.lt b a)

/-- `np.argmin` with the minimum itself: index of the FIRST minimum.  For `x :: xs`: if the minimum of `xs` is strictly
    smaller than `x` it stays the minimum (one place further), otherwise `x` (the earlier element) wins. -/
def argminPair : List R → Option (Nat × R)
  | [] => none
  | x :: xs =>
    match argminPair xs with
    | none => some (0, x)
    | some (j, v) => if Cmp.lt v x then some (j + 1, v) else some (0, x)

def argmin (xs : List R) : Nat :=
  match argminPair xs with
  | none => 0
  | some (j, _) => j

/-- `np.linspace(start, stop, num)` (endpoint=True): `arange(num)*step + start`, last element forced to `stop` -/
def linspace (start stop : R) (num : Nat) : List R :=
  match num with
  | 0 => []
  | 1 => [start]
  | m + 2 =>
    let step := (stop - start) / (((m + 1 : Nat)) : R)
    (List.range (m + 1)).map (fun i => ((i : Nat) : R) * step + start) ++ [stop]

def sum : List R → R
  | [] => zero
  | x :: xs => x + sum xs

/-- `np.mean` (caller guarantees a non-empty list) -/
def mean (xs : List R) : R := sum xs / ((xs.length : Nat) : R)

/-- population variance as `np.std` computes it: mean of squared deviations from the mean -/
def var (xs : List R) : R :=
  let m := mean xs
  mean (xs.map (fun x => (x - m) * (x - m)))

def std (xs : List R) : R := Transc.sqrt (var xs)

/-- `np.kron(np.ones(m), g)`: m copies of g one after the other -/
def tile {α} : Nat → List α → List α
  | 0, _ => []
  | m + 1, g => g ++ tile m g
end

end OptiVerif.NumList
