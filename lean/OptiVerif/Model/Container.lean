/-
Model of the signal containers `electrical_signal` / `optical_signal` of `/repo/opticomlib/typing.py` (C01).
Core Lean only.  Exact: sample values live in any carrier `α` with `+ - neg *` and a "drop imaginary part"
operation (`DropIm`); the driver executes the model at the Gaussian integers `Cx Int`.

Anchors (typing.py as it is now, including the two `fix:` commits ade8dcb and 0d8731a):
  electrical_signal.__init__        615-676      `mkE`     (np.array / result_type / astype / shape check / validation)
  optical_signal.__init__           1390-1480    `mkO`     (same prefix `prep`, then the n_pol normalisation table `normO`)
  __add__ __radd__ __sub__ __rsub__ __mul__ __rmul__   734-842   `binop` with `addSpec subSpec rsubSpec mulSpec`
  __getitem__                       844-859, 1494-1519     `getSlice`, `getIdx` (through `sliceIdx` = CPython slice.indices + range)
  copy                              1108-1123    `copy`
  __call__ (domain transform)       861-906      `transform` (per-row map = `Xform.row`; on `Cx R` it is `Fourier.callRow` of Model/Fourier.lean)
  len                               965-975      `Rows.len`

The operator tables (signal / noise expressions of the four noise branches, the rejection test and its exception)
and the default `n_pol` of each input shape are NOT written here: they come from `Gen/Container.lean`, which
`tools/extractors/container.py` regenerates from typing.py on every run.

A numpy array of ndim 0/1/2 is `Data α`; what a constructor receives is `Raw α` = data + dtype tag + a flag saying
whether it is a Python object (scalar / list / tuple: `np.array(obj, dtype=float)` raises TypeError on complex
values) or already an ndarray / numpy scalar / parsed string (`astype` semantics: imaginary part dropped).
dtype tags: the lattice int < float < complex (`np.result_type` on {int64, float64, complex128} is the maximum).
-/
import OptiVerif.Gen.Container
import OptiVerif.Model.Wire
import OptiVerif.Model.Num
import OptiVerif.Model.Fourier

namespace OptiVerif.Container
open OptiVerif
open OptiVerif.Wire (Err)

/-! ### dtype tags -/

inductive DType | int | float | complex
  deriving DecidableEq, Repr

def DType.rank : DType → Nat
  | .int => 0 | .float => 1 | .complex => 2

/-- `np.result_type` on {int64, float64, complex128} -/
def DType.max (a b : DType) : DType := if a.rank ≤ b.rank then b else a

/-- `astype(complex → real kind)` drops the imaginary part; everything else the harness uses is value preserving -/
class DropIm (α : Type) where
  dropIm : α → α

instance {R : Type} [NatCast R] : DropIm (Cx R) := ⟨fun z => ⟨z.re, ((0 : Nat) : R)⟩⟩

/-- the per-row time/frequency transform of `x(domain, shift)` on the carrier (fft / ifft over the last axis,
    optionally fftshift / ifftshift).  For complex carriers `Cx R` it IS `Fourier.callRow` of `Model/Fourier.lean`
    (the model C02's theorems are about); nothing else is assumed of it in this file. -/
class Xform (α : Type) where
  row : Fourier.Dom → Bool → List α → List α

instance {R : Type} [Add R] [Sub R] [Mul R] [Div R] [Neg R] [NatCast R] [Transc R] : Xform (Cx R) :=
  ⟨Fourier.callRow⟩

/-- Gaussian integers are not closed under the DFT: the exact handler `container.eval` refuses programs that
    contain a transform node (they are run at `Cx Float` by `container.evalf`), so this instance is never executed -/
instance : Xform (Cx Int) := ⟨fun _ _ xs => xs⟩

/-- value conversion of `ndarray.astype(tgt)` / `np.array(ndarray, dtype=tgt)` from dtype `src` -/
def castV {α} [DropIm α] (src tgt : DType) (x : α) : α :=
  if src = .complex ∧ tgt ≠ .complex then DropIm.dropIm x else x

/-! ### arrays -/

/-- ndarray contents of ndim 0, 1, 2 (row lists of a 2-D array may be ragged only before `npArray`) -/
inductive Data (α : Type)
  | s (x : α)
  | v (xs : List α)
  | m (rows : List (List α))
  deriving Repr

def Data.map {α β} (f : α → β) : Data α → Data β
  | .s x => .s (f x)
  | .v xs => .v (xs.map f)
  | .m rows => .m (rows.map (List.map f))

/-- `.shape` of a rectangular array -/
def Data.shape {α} : Data α → List Nat
  | .s _ => []
  | .v xs => [xs.length]
  | .m rows => [rows.length, match rows with | [] => 0 | r :: _ => r.length]

/-- all rows have the length of the first one (otherwise `np.array` raises ValueError: inhomogeneous shape) -/
def rect {α} : List (List α) → Bool
  | [] => true
  | r :: rs => rs.all (fun q => q.length == r.length)

def Data.Rect {α} : Data α → Prop
  | .m rows => rect rows = true
  | _ => True

/-- last axis length (`len()` of the object a constructor builds from it) -/
def Data.lastDim {α} : Data α → Nat
  | .s _ => 1
  | .v xs => xs.length
  | .m rows => match rows with | [] => 0 | r :: _ => r.length

/-- argument of a constructor -/
structure Raw (α : Type) where
  py : Bool
  dt : DType
  data : Data α
  deriving Repr

/-- a nested Python list whose rows differ in length (`np.array` raises ValueError: inhomogeneous shape) -/
def Data.ragged {α} : Data α → Bool
  | .m rows => !rect rows
  | _ => false

/-- `np.array(x, dtype=dtype)`: result dtype tag and contents -/
def npArray {α} [DropIm α] (r : Raw α) (dtype : Option DType) : Except Err (DType × Data α) :=
  if r.data.ragged then .error .ValueError else
  match dtype with
  | none => .ok (r.dt, r.data)
  | some d =>
    if r.py ∧ r.dt = .complex ∧ d ≠ .complex then .error .TypeError
    else .ok (d, r.data.map (castV r.dt d))

/-- `arrays_type`: `np.result_type(signal, noise)` unless `dtype` is given -/
def unifyDt (dtype : Option DType) (ds dn : DType) : DType :=
  match dtype with
  | none => DType.max ds dn
  | some d => d

/-- common prefix of both constructors (typing.py 637-660 = 1406-1429): conversion, dtype unification,
    shape comparison.  Returns the common dtype, the signal array and the noise array. -/
def prep {α} [DropIm α] (sig : Raw α) (noise : Option (Raw α)) (dtype : Option DType) :
    Except Err (DType × Data α × Option (Data α)) :=
  match npArray sig dtype with
  | .error e => .error e
  | .ok (ds, s) =>
    match noise with
    | none => .ok (ds, s, none)
    | some nr =>
      match npArray nr dtype with
      | .error e => .error e
      | .ok (dn, n) =>
        if s.shape ≠ n.shape then .error .ValueError
        else .ok (unifyDt dtype ds dn, s.map (castV ds (unifyDt dtype ds dn)), some (n.map (castV dn (unifyDt dtype ds dn))))

/-! ### signal objects -/

inductive Cls | E | O
  deriving DecidableEq, Repr

inductive Pol | p1 | p2
  deriving DecidableEq, Repr

def Pol.toNat : Pol → Nat
  | .p1 => 1 | .p2 => 2

/-- stored arrays: shape (N,) or (2,N) -/
inductive Rows (α : Type)
  | one (xs : List α)
  | two (xs ys : List α)
  deriving Repr

namespace Rows
variable {α : Type}

/-- `len()`: `signal.shape[1]` if ndim > 1 else `signal.size` -/
def len : Rows α → Nat
  | one xs => xs.length
  | two xs _ => xs.length

def count : Rows α → Nat
  | one _ => 1
  | two _ _ => 2

def mapL (f : List α → List α) : Rows α → Rows α
  | one xs => one (f xs)
  | two xs ys => two (f xs) (f ys)

def map (f : α → α) : Rows α → Rows α := mapL (List.map f)

def toData : Rows α → Data α
  | one xs => .v xs
  | two xs ys => .m [xs, ys]

/-- non-empty rows of equal length -/
def Valid : Rows α → Prop
  | one xs => 1 ≤ xs.length
  | two xs ys => 1 ≤ xs.length ∧ ys.length = xs.length

/-- numpy broadcasting of two rows along the sample axis: a length-1 operand (right or left) is repeated, otherwise
    element by element (the operators' length check lets through equal lengths and a length-1 right operand only) -/
def zipB (f : α → α → α) (xs ys : List α) : List α :=
  match ys with
  | [y] => xs.map (fun x => f x y)
  | _ =>
    match xs with
    | [x] => ys.map (fun y => f x y)
    | _ => List.zipWith f xs ys

/-- numpy broadcasting of shapes (N,) / (2,N) against (M,) / (2,M), M ∈ {N, 1} -/
def bin (f : α → α → α) : Rows α → Rows α → Rows α
  | one a, one b => one (zipB f a b)
  | one a, two b1 b2 => two (zipB f a b1) (zipB f a b2)
  | two a1 a2, one b => two (zipB f a1 b) (zipB f a2 b)
  | two a1 a2, two b1 b2 => two (zipB f a1 b1) (zipB f a2 b2)

end Rows

structure Sig (α : Type) where
  cls : Cls
  /-- the attribute `n_pol` of an optical signal (1 for an electrical signal, which has no such attribute) -/
  npol : Nat
  dt : DType
  sig : Rows α
  noise : Option (Rows α)
  deriving Repr

/-- the container contract: non-empty rows of equal length; a noise component, when present, has exactly the
    shape of the signal (valid rows, same number of rows, same length); `n_pol` is the number of rows; an
    electrical signal has one row -/
structure WF {α} (s : Sig α) : Prop where
  valid : s.sig.Valid
  noise_shape : ∀ n, s.noise = some n → n.Valid ∧ n.count = s.sig.count ∧ n.len = s.sig.len
  npol_rows : s.npol = s.sig.count
  elec_one : s.cls = .E → s.sig.count = 1

def Sig.len {α} (s : Sig α) : Nat := s.sig.len

/-- total field `signal + noise` -/
def Sig.total {α} [Add α] (s : Sig α) : Rows α :=
  match s.noise with
  | none => s.sig
  | some n =>
    match s.sig, n with
    | .one xs, .one ns => .one (List.zipWith (· + ·) xs ns)
    | .two x1 x2, .two n1 n2 => .two (List.zipWith (· + ·) x1 n1) (List.zipWith (· + ·) x2 n2)
    | sg, _ => sg

/-! ### constructors -/

/-- electrical_signal validation (662-669): scalar → 1 sample, 1-D non-empty, nothing else -/
def normE {α} : Data α → Except Err (Rows α)
  | .s x => .ok (.one [x])
  | .v xs => if xs.length < 1 then .error .ValueError else .ok (.one xs)
  | .m _ => .error .ValueError

/-- `electrical_signal(signal, noise, dtype)` -/
def mkE {α} [DropIm α] (sig : Raw α) (noise : Option (Raw α)) (dtype : Option DType) : Except Err (Sig α) :=
  match prep sig noise dtype with
  | .error e => .error e
  | .ok (t, s, n) =>
    match normE s with
    | .error e => .error e
    | .ok rs =>
      match n with
      | none => .ok ⟨.E, 1, t, rs, none⟩
      | some nd =>
        match normE nd with
        | .error e => .error e
        | .ok rn => .ok ⟨.E, 1, t, rs, some rn⟩

/-- `n_pol` literal of the source as a polarisation count (the code tests `n_pol == 1` / `else`) -/
def polOfNat : Nat → Pol
  | 1 => .p1
  | _ => .p2

/-- optical_signal validation and `n_pol` normalisation table (1431-1479).  The same function is applied to
    the noise array: the code takes the branch from the signal's shape, and the noise has that very shape. -/
def normO {α} (npol : Option Pol) : Data α → Except Err (Nat × Rows α)
  | .s x =>
    match npol.getD (polOfNat Gen.Container.npolDefault_scalar) with
    | .p1 => .ok (1, .one [x])
    | .p2 => .ok (2, .two [x] [x])
  | .v xs =>
    if xs.length < 1 then .error .ValueError else
    match npol.getD (polOfNat Gen.Container.npolDefault_vec) with
    | .p1 => .ok (1, .one xs)
    | .p2 => .ok (2, .two xs xs)
  | .m [r] =>
    if r.length < 1 then .error .ValueError else
    match npol.getD (polOfNat Gen.Container.npolDefault_row1) with
    | .p1 => .ok (1, .one r)
    | .p2 => .ok (2, .two r r)
  | .m [r1, r2] =>
    if r1.length < 1 then .error .ValueError else
    match npol.getD (polOfNat Gen.Container.npolDefault_row2) with
    | .p1 => .ok (1, .one r1)
    | .p2 => .ok (2, .two r1 r2)
  | .m _ => .error .ValueError

/-- `optical_signal(signal, noise, n_pol, dtype)`, `n_pol ∈ {None, 1, 2}` -/
def mkO {α} [DropIm α] (sig : Raw α) (noise : Option (Raw α)) (npol : Option Pol) (dtype : Option DType) :
    Except Err (Sig α) :=
  match prep sig noise dtype with
  | .error e => .error e
  | .ok (t, s, n) =>
    match normO npol s with
    | .error e => .error e
    | .ok (p, rs) =>
      match n with
      | none => .ok ⟨.O, p, t, rs, none⟩
      | some nd =>
        match normO npol nd with
        | .error e => .error e
        | .ok (_, rn) => .ok ⟨.O, p, t, rs, some rn⟩

/-- `self.__class__(signal, noise, dtype=dtype)` -/
def construct {α} [DropIm α] (c : Cls) (sig : Raw α) (noise : Option (Raw α)) (dtype : Option DType) :
    Except Err (Sig α) :=
  match c with
  | .E => mkE sig noise dtype
  | .O => mkO sig noise none dtype

/-- an ndarray held by an object, handed to a constructor -/
def arr {α} (dt : DType) (r : Rows α) : Raw α := ⟨false, dt, r.toData⟩

/-! ### operators -/

/-- exception class named in the source -/
def excOf : String → Err
  | "ValueError" => .ValueError
  | "TypeError" => .TypeError
  | "NotImplementedError" => .NotImplemented
  | _ => .Other

/-- one operator as the source spells it: signal expression; noise when only `other` has noise (and whether it is
    wrapped in `np.broadcast_to` to the result shape); noise when only `self` has noise; noise when both have;
    the test on `(self.len(), other.len())` that raises, and what it raises -/
structure OpSpec (α : Type) where
  fs : α → α → α
  onlyOther : α → α
  bcastOther : Bool
  onlySelf : α → α
  fn : α → α → α
  rej : Nat → Nat → Bool
  exc : Err

section
variable {α : Type} [Add α] [Sub α] [Neg α] [Mul α]
open Gen.Container
def addSpec : OpSpec α := ⟨add_sig, add_onlyOther, add_otherBroadcast, add_onlySelf, add_both, add_reject, excOf add_exc⟩
def subSpec : OpSpec α := ⟨sub_sig, sub_onlyOther, sub_otherBroadcast, sub_onlySelf, sub_both, sub_reject, excOf sub_exc⟩
/-- `other - self`, written `-self + other` in the code -/
def rsubSpec : OpSpec α := ⟨rsub_sig, rsub_onlyOther, rsub_otherBroadcast, rsub_onlySelf, rsub_both, rsub_reject, excOf rsub_exc⟩
/-- `*` multiplies the signals; noise is kept / propagated unscaled, multiplied only when both carry noise -/
def mulSpec : OpSpec α := ⟨mul_sig, mul_onlyOther, mul_otherBroadcast, mul_onlySelf, mul_both, mul_reject, excOf mul_exc⟩
end

/-- the noise argument handed to the constructor, with the dtype tag of that array -/
def opNoise {α} (op : OpSpec α) (a b : Sig α) : Option (DType × Rows α) :=
  match a.noise, b.noise with
  | none, none => none
  | none, some nb =>
    some (b.dt, if op.bcastOther then Rows.bin (fun _ y => op.onlyOther y) a.sig nb else nb.map op.onlyOther)
  | some na, none => some (a.dt, na.map op.onlySelf)
  | some na, some nb => some (DType.max a.dt b.dt, Rows.bin op.fn na nb)

/-- `self ⊕ other` for two objects (`other` already converted) -/
def binop {α} [DropIm α] (op : OpSpec α) (a b : Sig α) : Except Err (Sig α) :=
  if op.rej a.len b.len then .error op.exc else
  let dt := DType.max a.dt b.dt
  construct a.cls (arr dt (Rows.bin op.fs a.sig b.sig))
    ((opNoise op a b).map (fun p => arr p.1 p.2)) (some dt)

section
variable {α : Type} [Add α] [Sub α] [Neg α] [Mul α] [DropIm α]
def add (a b : Sig α) := binop addSpec a b
def sub (a b : Sig α) := binop subSpec a b
/-- `a.__rsub__(b)` = `b - a` -/
def rsub (a b : Sig α) := binop rsubSpec a b
def mul (a b : Sig α) := binop mulSpec a b
end

/-- `if not isinstance(other, self.__class__): other = self.__class__(other)` for a non-object operand -/
def convert {α} [DropIm α] (c : Cls) (r : Raw α) : Except Err (Sig α) := construct c r none none

/-- object ⊕ object.  An optical_signal is an instance of electrical_signal, so `E ⊕ O` uses the operand as it is;
    `O ⊕ E` hands the E object to `np.array`, which fails (ValueError) inside numpy's sequence protocol. -/
def objop {α} [DropIm α] (op : OpSpec α) (a b : Sig α) : Except Err (Sig α) :=
  if a.cls = .O ∧ b.cls = .E then .error .ValueError else binop op a b

/-- object ⊕ non-object (also the reflected forms, which call the same method on the object) -/
def rawop {α} [DropIm α] (op : OpSpec α) (a : Sig α) (r : Raw α) : Except Err (Sig α) :=
  match convert a.cls r with
  | .error e => .error e
  | .ok o => binop op a o

/-! ### slicing -/

/-- CPython `slice(start, stop, step).indices(n)` (PySlice_Unpack + PySlice_AdjustIndices):
    normalised `(start, stop, step)`; `step = 0` is a ValueError -/
def sliceNorm (start stop step : Option Int) (n : Nat) : Except Err (Int × Int × Int) :=
  let st := step.getD 1
  if st = 0 then .error .ValueError else
  let lower : Int := if st < 0 then -1 else 0
  let upper : Int := if st < 0 then (n : Int) - 1 else n
  let clip (v : Int) : Int :=
    if v < 0 then (if v + n < lower then lower else v + n) else (if upper < v then upper else v)
  let s := match start with
    | none => if st < 0 then upper else lower
    | some v => clip v
  let e := match stop with
    | none => if st < 0 then lower else upper
    | some v => clip v
  .ok (s, e, st)

/-- number of elements of `range(start, stop, step)` (CPython's `PySlice_AdjustIndices` return value) -/
def rangeLen (s e st : Int) : Nat :=
  if st < 0 then (if e < s then ((s - e - 1) / (-st) + 1).toNat else 0)
  else (if s < e then ((e - s - 1) / st + 1).toNat else 0)

/-- the indices selected by `x[start:stop:step]` on an axis of length `n` -/
def sliceIdx (start stop step : Option Int) (n : Nat) : Except Err (List Nat) :=
  match sliceNorm start stop step n with
  | .error e => .error e
  | .ok (s, e, st) => .ok ((List.range (rangeLen s e st)).map (fun (k : Nat) => (s + (k : Int) * st).toNat))

/-- the samples at the given indices -/
def pick {α} (idx : List Nat) (xs : List α) : List α := idx.filterMap (fun i => xs[i]?)

/-- `x[start:stop:step]` -/
def getSlice {α} [DropIm α] (a : Sig α) (start stop step : Option Int) : Except Err (Sig α) :=
  match sliceIdx start stop step a.len with
  | .error e => .error e
  | .ok idx =>
    construct a.cls (arr a.dt (a.sig.mapL (pick idx))) (a.noise.map (fun n => arr a.dt (n.mapL (pick idx)))) none

/-- numpy integer index on an axis of length `n` (IndexError outside `[-n, n)`) -/
def normIdx (i : Int) (n : Nat) : Option Nat :=
  if 0 ≤ i then (if i < n then some i.toNat else none)
  else (if 0 ≤ i + n then some (i + n).toNat else none)

/-- one sample as the array the code passes on: a 0-d scalar (`signal[i]`) or shape (2,1) (`signal[:, i, newaxis]`) -/
def sampleAt {α} (k : Nat) : Rows α → Option (Data α)
  | .one xs => (xs[k]?).map Data.s
  | .two xs ys =>
    match xs[k]?, ys[k]? with
    | some x, some y => some (.m [[x], [y]])
    | _, _ => none

/-- `x[i]` with a Python int -/
def getIdx {α} [DropIm α] (a : Sig α) (i : Int) : Except Err (Sig α) :=
  match normIdx i a.len with
  | none => .error .Other
  | some k =>
    match sampleAt k a.sig with
    | none => .error .Other
    | some d =>
      match a.noise with
      | none => construct a.cls ⟨false, a.dt, d⟩ none none
      | some n =>
        match sampleAt k n with
        | none => .error .Other
        | some dn => construct a.cls ⟨false, a.dt, d⟩ (some ⟨false, a.dt, dn⟩) none

/-- `x.copy(n)` = `x[:n]`, `n = len` when omitted -/
def copy {α} [DropIm α] (a : Sig α) (n : Option Int) : Except Err (Sig α) :=
  getSlice a none (some (n.getD a.len)) none

/-! ### domain transform -/

/-- `x(domain, shift)` (typing.py 861-906): `domain` 'w' / 'f' → fft, 't' → ifft (`none` = any other string:
    ValueError); every row of signal and noise is transformed; the result is rebuilt by `self.__class__(signal)` /
    `self.__class__(signal, noise)` from complex128 arrays, without `dtype` (so an optical result gets its `n_pol`
    back from the array shape: (N,) → 1, (2,N) → 2) -/
def transform {α} [DropIm α] [Xform α] (a : Sig α) (d : Option Fourier.Dom) (shift : Bool) : Except Err (Sig α) :=
  match d with
  | none => .error .ValueError
  | some d =>
    construct a.cls (arr .complex (a.sig.mapL (Xform.row d shift)))
      (a.noise.map (fun n => arr .complex (n.mapL (Xform.row d shift)))) none

/-- rows as the list of rows `Fourier.Payload` uses -/
def Rows.toLists {α} : Rows α → List (List α)
  | .one xs => [xs]
  | .two xs ys => [xs, ys]

/-- bridge to `Model/Fourier.lean`: the numeric payload of a complex-valued object -/
def Sig.payload {R} (s : Sig (Cx R)) : Fourier.Payload R := ⟨s.sig.toLists, s.noise.map Rows.toLists⟩

/-- structural change of carrier (e.g. the embedding of the Gaussian integers into `Cx ℝ`) -/
def Rows.mapV {α β} (f : α → β) : Rows α → Rows β
  | .one xs => .one (xs.map f)
  | .two xs ys => .two (xs.map f) (ys.map f)

def Sig.mapV {α β} (f : α → β) (s : Sig α) : Sig β := ⟨s.cls, s.npol, s.dt, s.sig.mapV f, s.noise.map (Rows.mapV f)⟩

/-! ### programs -/

inductive Expr (α : Type)
  | var (i : Nat)
  | mkE (s : Raw α) (n : Option (Raw α)) (dt : Option DType)
  | mkO (s : Raw α) (n : Option (Raw α)) (p : Option Pol) (dt : Option DType)
  | add (a b : Expr α)
  | sub (a b : Expr α)
  | mul (a b : Expr α)
  | addR (a : Expr α) (r : Raw α)    -- a + r
  | raddR (a : Expr α) (r : Raw α)   -- r + a
  | subR (a : Expr α) (r : Raw α)    -- a - r
  | rsubR (a : Expr α) (r : Raw α)   -- r - a
  | mulR (a : Expr α) (r : Raw α)    -- a * r
  | rmulR (a : Expr α) (r : Raw α)   -- r * a
  | idx (a : Expr α) (i : Int)
  | slice (a : Expr α) (start stop step : Option Int)
  | copy (a : Expr α) (n : Option Int)
  | transform (a : Expr α) (d : Option Fourier.Dom) (shift : Bool)   -- a(domain, shift)

abbrev Env (α : Type) := List (Sig α)

section
variable {α : Type} [Add α] [Sub α] [Neg α] [Mul α] [DropIm α] [Xform α]

/-- sequencing of two evaluations and an operation (left operand first, as Python does) -/
def bind2 (x y : Except Err (Sig α)) (f : Sig α → Sig α → Except Err (Sig α)) : Except Err (Sig α) :=
  match x with
  | .error e => .error e
  | .ok a =>
    match y with
    | .error e => .error e
    | .ok b => f a b

def bind1 (x : Except Err (Sig α)) (f : Sig α → Except Err (Sig α)) : Except Err (Sig α) :=
  match x with
  | .error e => .error e
  | .ok a => f a

def eval (ρ : Env α) : Expr α → Except Err (Sig α)
  | .var i => match ρ[i]? with | some s => .ok s | none => .error .Other
  | .mkE s n d => mkE s n d
  | .mkO s n p d => mkO s n p d
  | .add a b => bind2 (eval ρ a) (eval ρ b) (objop addSpec)
  | .sub a b => bind2 (eval ρ a) (eval ρ b) (objop subSpec)
  | .mul a b => bind2 (eval ρ a) (eval ρ b) (objop mulSpec)
  | .addR a r => bind1 (eval ρ a) (fun x => rawop addSpec x r)
  | .raddR a r => bind1 (eval ρ a) (fun x => rawop addSpec x r)
  | .subR a r => bind1 (eval ρ a) (fun x => rawop subSpec x r)
  | .rsubR a r => bind1 (eval ρ a) (fun x => rawop rsubSpec x r)
  | .mulR a r => bind1 (eval ρ a) (fun x => rawop mulSpec x r)
  | .rmulR a r => bind1 (eval ρ a) (fun x => rawop mulSpec x r)
  | .idx a i => bind1 (eval ρ a) (fun x => getIdx x i)
  | .slice a s e st => bind1 (eval ρ a) (fun x => getSlice x s e st)
  | .copy a n => bind1 (eval ρ a) (fun x => copy x n)
  | .transform a d sh => bind1 (eval ρ a) (fun x => transform x d sh)

/-- the leaves of a program are evaluated first, in order; the first failure is the program's result -/
def evalLeaves (ρ : Env α) : List (Expr α) → Except Err (Env α)
  | [] => .ok ρ
  | e :: es =>
    match eval ρ e with
    | .error err => .error err
    | .ok s => evalLeaves (ρ ++ [s]) es

def run (leaves : List (Expr α)) (e : Expr α) : Except Err (Sig α) :=
  match evalLeaves [] leaves with
  | .error err => .error err
  | .ok ρ => eval ρ e

end

/-! ### line protocol -/

namespace IO
open Wire

abbrev GI := Cx Int
abbrev CF := Cx Float

def pGI : P GI := do let a ← Wire.int; let b ← Wire.int; pure ⟨a, b⟩
/-- the same integer tokens read as floats (exact: |values| < 2^53) -/
def pCF : P CF := do let a ← Wire.int; let b ← Wire.int; pure ⟨Float.ofInt a, Float.ofInt b⟩

def pDType : P DType := do
  let t ← tok
  match t with
  | "i" => pure .int | "f" => pure .float | "c" => pure .complex
  | _ => throw s!"dtype:{t}"

def pOpt {β} (p : P β) : P (Option β) := do
  let t ← tok
  match t with
  | "none" => pure none
  | "some" => do let x ← p; pure (some x)
  | _ => throw s!"opt:{t}"

section
variable {α : Type} (pv : P α)

def pData : P (Data α) := do
  let t ← tok
  match t with
  | "s" => do let x ← pv; pure (.s x)
  | "v" => do let xs ← list pv; pure (.v xs)
  | "m" => do let rows ← list (list pv); pure (.m rows)
  | _ => throw s!"data:{t}"

def pRaw : P (Raw α) := do
  let py ← Wire.bool
  let dt ← pDType
  let d ← pData pv
  pure ⟨py, dt, d⟩

def pPol : P Pol := do
  let t ← tok
  match t with
  | "1" => pure .p1 | "2" => pure .p2
  | _ => throw s!"pol:{t}"

/-- `w`, `f` (same branch of the code), `t`, anything else = a string the code rejects -/
def pDom : P (Option Fourier.Dom) := do
  let t ← tok
  match t with
  | "w" => pure (some .w) | "f" => pure (some .w) | "t" => pure (some .t)
  | _ => pure none

/-- prefix notation; `fuel` bounds the nesting depth -/
def pExpr : Nat → P (Expr α)
  | 0 => throw "fuel"
  | fuel + 1 => do
    let t ← tok
    match t with
    | "var" => do let i ← nat; pure (.var i)
    | "mkE" => do let s ← pRaw pv; let n ← pOpt (pRaw pv); let d ← pOpt pDType; pure (.mkE s n d)
    | "mkO" => do
      let s ← pRaw pv; let n ← pOpt (pRaw pv); let p ← pOpt pPol; let d ← pOpt pDType; pure (.mkO s n p d)
    | "add" => do let a ← pExpr fuel; let b ← pExpr fuel; pure (.add a b)
    | "sub" => do let a ← pExpr fuel; let b ← pExpr fuel; pure (.sub a b)
    | "mul" => do let a ← pExpr fuel; let b ← pExpr fuel; pure (.mul a b)
    | "addR" => do let a ← pExpr fuel; let r ← pRaw pv; pure (.addR a r)
    | "raddR" => do let a ← pExpr fuel; let r ← pRaw pv; pure (.raddR a r)
    | "subR" => do let a ← pExpr fuel; let r ← pRaw pv; pure (.subR a r)
    | "rsubR" => do let a ← pExpr fuel; let r ← pRaw pv; pure (.rsubR a r)
    | "mulR" => do let a ← pExpr fuel; let r ← pRaw pv; pure (.mulR a r)
    | "rmulR" => do let a ← pExpr fuel; let r ← pRaw pv; pure (.rmulR a r)
    | "idx" => do let a ← pExpr fuel; let i ← Wire.int; pure (.idx a i)
    | "slice" => do
      let a ← pExpr fuel; let s ← optInt; let e ← optInt; let st ← optInt; pure (.slice a s e st)
    | "copy" => do let a ← pExpr fuel; let n ← optInt; pure (.copy a n)
    | "transform" => do let a ← pExpr fuel; let d ← pDom; let sh ← Wire.bool; pure (.transform a d sh)
    | _ => throw s!"expr:{t}"

def pProgram : P (List (Expr α) × Expr α) := do
  let k ← Wire.nat
  let leaves ← (List.range k).mapM (fun _ => pExpr pv 64)
  let e ← pExpr pv 64
  pure (leaves, e)
end

def hasTransform {α} : Expr α → Bool
  | .transform _ _ _ => true
  | .var _ | .mkE _ _ _ | .mkO _ _ _ _ => false
  | .add a b | .sub a b | .mul a b => hasTransform a || hasTransform b
  | .addR a _ | .raddR a _ | .subR a _ | .rsubR a _ | .mulR a _ | .rmulR a _ => hasTransform a
  | .idx a _ | .slice a _ _ _ | .copy a _ => hasTransform a

def fGI (z : GI) : String := s!"{z.re} {z.im}"
def fCF (z : CF) : String := s!"{Wire.fF z.re} {Wire.fF z.im}"
def fDType : DType → String
  | .int => "i" | .float => "f" | .complex => "c"
def fRows {α} (fv : α → String) : Rows α → String
  | .one xs => "1 " ++ fList fv xs
  | .two xs ys => "2 " ++ fList fv xs ++ " " ++ fList fv ys
def fCls : Cls → String
  | .E => "E" | .O => "O"

/-- canonical rendering: class, n_pol, dtype tag, signal rows, noise rows -/
def fSig {α} (fv : α → String) (s : Sig α) : String :=
  s!"{fCls s.cls} {s.npol} {fDType s.dt} {fRows fv s.sig} " ++
    (match s.noise with | none => "nonoise" | some n => "noise " ++ fRows fv n)

end IO

-- @handler OptiVerif.Container.handle
/-- line protocol:
    `container.eval <k> <leaf expr>*k <expr>`   → `ok <sig>` | `err <enum>`   exact, Gaussian integers; no transform nodes
    `container.evalf <k> <leaf expr>*k <expr>`  → the same at `Cx Float` (values as IEEE bit patterns); any program
    `container.slice <n> <start|none> <stop|none> <step|none>` → `ok <k> i1 … ik` | `err ValueError` -/
def handle : List String → Option String
  | "container.eval" :: args =>
    some <| match Wire.run (IO.pProgram IO.pGI) args with
    | .error e => "bad-op " ++ e
    | .ok (leaves, e) =>
      if leaves.any IO.hasTransform || IO.hasTransform e then "bad-op transform-needs-evalf" else
      match run leaves e with
      | .error err => Wire.err err
      | .ok s => Wire.ok (IO.fSig IO.fGI s)
  | "container.evalf" :: args =>
    some <| match Wire.run (IO.pProgram IO.pCF) args with
    | .error e => "bad-op " ++ e
    | .ok (leaves, e) =>
      match run leaves e with
      | .error err => Wire.err err
      | .ok s => Wire.ok (IO.fSig IO.fCF s)
  | "container.slice" :: args =>
    some <| match Wire.run (do
        let n ← Wire.nat; let s ← Wire.optInt; let e ← Wire.optInt; let st ← Wire.optInt
        pure (n, s, e, st)) args with
    | .error e => "bad-op " ++ e
    | .ok (n, s, e, st) =>
      match sliceIdx s e st n with
      | .error err => Wire.err err
      | .ok idx => Wire.ok (Wire.fList toString idx)
  | _ => none

end OptiVerif.Container
