/-
C01 — signal containers keep their shape/noise contract.
Property theorems only (helper lemmas live in Lemmas/Container.lean, Lemmas/ContainerAlg.lean).
The model (`Model/Container.lean`) mirrors `electrical_signal` / `optical_signal` of /repo/opticomlib/typing.py:
constructors with the `n_pol` table, dtype lattice, the four noise branches of `+ - rsub *`, numpy broadcasting,
CPython `slice.indices`, integer indexing, `copy`.  Sample values live in an arbitrary carrier `α`
(`AddCommGroup α` where sums are compared); the driver runs the same definitions at the Gaussian integers.

The domain transform `x(domain, shift)` is composed with C02's model: on complex carriers its per-row map is
`Fourier.callRow`, its payload is `Fourier.call` of the payload (`transform_is_fourier_call`), and the row-length law
used by `eval_shape` over ℝ is C02's `shift_length`.

Not theorems (runtime monitors / oracle of harness/props/c01.py): operands bit-for-bit unchanged, no shared
memory; float rounding of the FFT.
-/
import OptiVerif.Lemmas.ContainerFourier

namespace OptiVerif.Props.C01
open OptiVerif OptiVerif.Container
open OptiVerif.Wire (Err)

variable {α : Type}

/-! ### every constructor form returns a well-formed object -/

/-- `electrical_signal(signal, noise, dtype)` — whatever the arguments (scalar, 1-D, 2-D, ragged, Python or
    ndarray data, any dtype), a call that does not raise returns a well-formed one-row object whose length is the
    last axis of `signal` and which carries noise iff `noise` was given -/
theorem ctor_electrical [DropIm α] {sig : Raw α} {noise : Option (Raw α)} {dtype : Option DType} {s : Sig α}
    (h : mkE sig noise dtype = .ok s) :
    WF s ∧ s.cls = .E ∧ s.sig.count = 1 ∧ s.len = sig.data.lastDim ∧ (s.noise.isSome ↔ noise.isSome) := by
  obtain ⟨w, c, p, l, n⟩ := mkE_spec h
  exact ⟨w, c, by rw [← w.npol_rows, p], l, by rw [n]⟩

/-- `optical_signal(signal, noise, n_pol, dtype)` — a call that does not raise returns a well-formed object with
    the polarisation count of the `n_pol` table: the given `n_pol`, else 1 for scalars and 1-D input, 2 for 2-D -/
theorem ctor_optical [DropIm α] {sig : Raw α} {noise : Option (Raw α)} {npol : Option Pol} {dtype : Option DType}
    {s : Sig α} (h : mkO sig noise npol dtype = .ok s) :
    WF s ∧ s.cls = .O ∧ s.sig.count = rawPol sig.data npol ∧ s.len = sig.data.lastDim ∧
      (s.noise.isSome ↔ noise.isSome) := by
  obtain ⟨w, c, p, l, n⟩ := mkO_spec h
  exact ⟨w, c, by rw [← w.npol_rows, p], l, by rw [n]⟩

/-- the `n_pol` table, spelled out -/
theorem npol_table (d : Data α) :
    rawPol d (some .p1) = 1 ∧ rawPol d (some .p2) = 2 ∧
      rawPol d none = (match d with | .m _ => 2 | _ => 1) := by
  cases d <;> simp [rawPol, Pol.toNat]

/-! ### the tables translated from typing.py on every run are the documented ones -/

/-- the four operators found in the source reject exactly `self.len() != other.len() and other.len() != 1`, raise
    ValueError, and broadcast the noise of `other` to the result shape (this is what the two `fix:` commits
    established; a change of any of these lines of typing.py makes this theorem fail) -/
theorem operator_tables_documented [Add α] [Sub α] [Neg α] [Mul α] :
    (addSpec : OpSpec α).Std ∧ (subSpec : OpSpec α).Std ∧ (rsubSpec : OpSpec α).Std ∧ (mulSpec : OpSpec α).Std :=
  ⟨addSpec_std, subSpec_std, rsubSpec_std, mulSpec_std⟩

/-- signal and noise expressions of the four noise branches, as found in the source -/
theorem operator_expressions_documented [AddCommGroup α] [Mul α] (x y n m : α) :
    ((addSpec : OpSpec α).fs x y = x + y ∧ (addSpec : OpSpec α).onlyOther n = n ∧
      (addSpec : OpSpec α).onlySelf n = n ∧ (addSpec : OpSpec α).fn n m = n + m) ∧
    ((subSpec : OpSpec α).fs x y = x - y ∧ (subSpec : OpSpec α).onlyOther n = -n ∧
      (subSpec : OpSpec α).onlySelf n = n ∧ (subSpec : OpSpec α).fn n m = n - m) ∧
    ((rsubSpec : OpSpec α).fs x y = -x + y ∧ (rsubSpec : OpSpec α).onlyOther n = n ∧
      (rsubSpec : OpSpec α).onlySelf n = -n ∧ (rsubSpec : OpSpec α).fn n m = -n + m) ∧
    ((mulSpec : OpSpec α).fs x y = x * y ∧ (mulSpec : OpSpec α).onlyOther n = n ∧
      (mulSpec : OpSpec α).onlySelf n = n ∧ (mulSpec : OpSpec α).fn n m = n * m) :=
  ⟨⟨rfl, rfl, rfl, rfl⟩, ⟨rfl, rfl, rfl, rfl⟩, ⟨rfl, rfl, rfl, rfl⟩, ⟨rfl, rfl, rfl, rfl⟩⟩

/-- default `n_pol` in the source: 1 for scalars and 1-D input, 2 for (1,N) and (2,N) -/
theorem npol_defaults_documented :
    Gen.Container.npolDefault_scalar = 1 ∧ Gen.Container.npolDefault_vec = 1 ∧
      Gen.Container.npolDefault_row1 = 2 ∧ Gen.Container.npolDefault_row2 = 2 := ⟨rfl, rfl, rfl, rfl⟩

/-! ### programs: well-formedness and static shape, any depth -/

/-- **every expression of every depth** that evaluates without raising yields a well-formed object
    (non-empty rows of equal length, noise of exactly the signal's shape, `n_pol` = number of rows, electrical = one
    row), for an environment of well-formed objects -/
theorem eval_wf [Add α] [Sub α] [Neg α] [Mul α] [DropIm α] [Xform α] (ρ : Env α) (hρ : ∀ x ∈ ρ, WF x) (e : Expr α)
    {s : Sig α} (h : eval ρ e = .ok s) : WF s := by
  induction e generalizing s with
  | var i =>
    simp only [eval] at h
    cases hi : ρ[i]? with
    | none => simp [hi] at h
    | some x =>
      simp only [hi] at h
      injection h with h; subst h
      exact hρ x (List.mem_of_getElem? hi)
  | mkE sg n d => exact (mkE_spec h).1
  | mkO sg n p d => exact (mkO_spec h).1
  | add a b _ _ | sub a b _ _ | mul a b _ _ =>
    simp only [eval] at h
    obtain ⟨x, y, _, _, hf⟩ := bind2_ok h
    exact (binop_wf (objop_ok hf)).2
  | addR a r _ | raddR a r _ | subR a r _ | rsubR a r _ | mulR a r _ | rmulR a r _ =>
    simp only [eval] at h
    obtain ⟨x, _, hf⟩ := bind1_ok h
    obtain ⟨o, _, _, hb⟩ := rawop_ok hf
    exact (binop_wf hb).2
  | idx a i iha =>
    simp only [eval] at h
    obtain ⟨x, hx, hf⟩ := bind1_ok h
    exact (getIdx_spec (iha hx) hf).choose_spec.2.2.2.2
  | slice a st sp step iha =>
    simp only [eval] at h
    obtain ⟨x, hx, hf⟩ := bind1_ok h
    obtain ⟨_, _, _, _, _, _, w⟩ := getSlice_spec (iha hx) hf
    exact w
  | copy a n iha =>
    simp only [eval] at h
    obtain ⟨x, hx, hf⟩ := bind1_ok h
    obtain ⟨_, _, _, _, _, _, w⟩ := getSlice_spec (iha hx) hf
    exact w
  | transform a d sh _ =>
    simp only [eval] at h
    obtain ⟨x, _, hf⟩ := bind1_ok h
    exact (transform_wf_any hf).1

/-- class, polarisation count and length of the value of an expression are the statically predicted ones
    (`sCls`, `sPol`, `sLen` never look at sample values): same class as the left-most operand, polarisation
    count of the operands, length of the left operand / number of slice indices / 1 for an integer index -/
theorem eval_shape [Add α] [Sub α] [Neg α] [Mul α] [DropIm α] [Xform α] [LawfulXform α] (ρ : Env α) (hρ : ∀ x ∈ ρ, WF x) (e : Expr α)
    {s : Sig α} (h : eval ρ e = .ok s) :
    s.cls = sCls ρ e ∧ s.npol = sPol ρ e ∧ s.sig.count = sPol ρ e ∧ s.len = sLen ρ e := by
  suffices hh : s.cls = sCls ρ e ∧ s.npol = sPol ρ e ∧ s.len = sLen ρ e by
    exact ⟨hh.1, hh.2.1, by rw [← (eval_wf ρ hρ e h).npol_rows, hh.2.1], hh.2.2⟩
  induction e generalizing s with
  | var i =>
    simp only [eval] at h
    cases hi : ρ[i]? with
    | none => simp [hi] at h
    | some x =>
      simp only [hi] at h
      injection h with h; subst h
      simp [sCls, sPol, sLen, hi]
  | mkE sg n d =>
    obtain ⟨_, c, p, l, _⟩ := mkE_spec h
    exact ⟨c, p, l⟩
  | mkO sg n p d =>
    obtain ⟨_, c, p, l, _⟩ := mkO_spec h
    exact ⟨c, p, l⟩
  | add a b iha ihb | sub a b iha ihb | mul a b iha ihb =>
    simp only [eval] at h
    obtain ⟨x, y, hx, hy, hf⟩ := bind2_ok h
    obtain ⟨c, p, l⟩ := objop_shape (by first | exact addSpec_std | exact subSpec_std | exact mulSpec_std)
      (eval_wf ρ hρ a hx) (eval_wf ρ hρ b hy) hf
    obtain ⟨ca, pa, la⟩ := iha hx
    obtain ⟨_, pb, _⟩ := ihb hy
    simp only [sCls, sPol, sLen]
    exact ⟨by rw [c, ca], by rw [p, pa, pb], by rw [l, la]⟩
  | addR a r iha | raddR a r iha | subR a r iha | rsubR a r iha | mulR a r iha | rmulR a r iha =>
    simp only [eval] at h
    obtain ⟨x, hx, hf⟩ := bind1_ok h
    obtain ⟨c, p, l⟩ := rawop_shape
      (by first | exact addSpec_std | exact subSpec_std | exact rsubSpec_std | exact mulSpec_std)
      (eval_wf ρ hρ a hx) hf
    obtain ⟨ca, pa, la⟩ := iha hx
    simp only [sCls, sPol, sLen]
    exact ⟨by rw [c, ca], by rw [p, pa, ca], by rw [l, la]⟩
  | idx a i iha =>
    simp only [eval] at h
    obtain ⟨x, hx, hf⟩ := bind1_ok h
    have wx := eval_wf ρ hρ a hx
    obtain ⟨k, _, _, hs, l, _⟩ := getIdx_spec wx hf
    obtain ⟨ca, pa, _⟩ := iha hx
    simp only [sCls, sPol, sLen]
    exact ⟨by rw [hs, ← ca], by rw [hs, ← pa, wx.npol_rows], l⟩
  | slice a st sp step iha =>
    simp only [eval] at h
    obtain ⟨x, hx, hf⟩ := bind1_ok h
    have wx := eval_wf ρ hρ a hx
    obtain ⟨idx, hi, _, _, hs, l, _⟩ := getSlice_spec wx hf
    obtain ⟨ca, pa, la⟩ := iha hx
    simp only [sCls, sPol, sLen]
    exact ⟨by rw [hs, ← ca], by rw [hs, ← pa, wx.npol_rows], by rw [l, sliceIdx_length hi, la]⟩
  | copy a n iha =>
    simp only [eval] at h
    obtain ⟨x, hx, hf⟩ := bind1_ok h
    have wx := eval_wf ρ hρ a hx
    unfold Container.copy at hf
    obtain ⟨idx, hi, _, _, hs, l, _⟩ := getSlice_spec wx hf
    obtain ⟨ca, pa, la⟩ := iha hx
    simp only [sCls, sPol, sLen]
    exact ⟨by rw [hs, ← ca], by rw [hs, ← pa, wx.npol_rows], by rw [l, sliceIdx_length hi, la]⟩
  | transform a d sh iha =>
    simp only [eval] at h
    obtain ⟨x, hx, hf⟩ := bind1_ok h
    have wx := eval_wf ρ hρ a hx
    obtain ⟨_, d', _, hs⟩ := transform_wf_any hf
    obtain ⟨ca, pa, la⟩ := iha hx
    simp only [sCls, sPol, sLen]
    refine ⟨by rw [hs, ← ca], by rw [hs, ← pa, wx.npol_rows], ?_⟩
    rw [hs, ← la]
    exact Rows.mapL_len_of (LawfulXform.length_row d' sh) _

/-! ### operators: total field, noise, acceptance -/

/-- what broadcasting means in `Rows.bin`: equal lengths combine element by element … -/
theorem broadcast_same_length (f : α → α → α) (xs ys : List α) (h : ys.length = xs.length) :
    Rows.zipB f xs ys = List.zipWith f xs ys := by
  rw [Rows.zipB_eq f (Or.inl h)]
  unfold Rows.bc
  split
  · rename_i y
    match xs, h with
    | [x], _ => rfl
  · rfl

/-- … and a length-1 right operand is repeated along the whole row -/
theorem broadcast_length_one (f : α → α → α) (xs : List α) (y : α) :
    Rows.zipB f xs [y] = xs.map (fun x => f x y) := rfl

/-- `+`: total field of the result = total field of `a` + total field of `b` (broadcast), whatever the noise
    pattern (neither / self only / other only / both) and layout -/
theorem add_total [AddCommGroup α] [Mul α] [DropIm α] {a b s : Sig α} (ha : WF a) (hb : WF b)
    (h : add a b = .ok s) : s.total = Rows.bin (· + ·) a.total b.total :=
  binop_total addSpec_std addSpec_linear ha hb h

/-- `-`: total field of the result = total field of `a` − total field of `b` (broadcast) -/
theorem sub_total [AddCommGroup α] [Mul α] [DropIm α] {a b s : Sig α} (ha : WF a) (hb : WF b)
    (h : sub a b = .ok s) : s.total = Rows.bin (· - ·) a.total b.total :=
  binop_total subSpec_std subSpec_linear ha hb h

/-- reflected `-` (`other - self`, evaluated by `self.__rsub__(other)`): total field = total `b` − total `a` -/
theorem rsub_total [AddCommGroup α] [Mul α] [DropIm α] {a b s : Sig α} (ha : WF a) (hb : WF b)
    (h : rsub a b = .ok s) : s.total = Rows.bin (fun x y => y - x) a.total b.total := by
  have := binop_total rsubSpec_std rsubSpec_linear ha hb h
  rw [this]
  congr 1
  funext x y
  show -x + y = y - x
  abel

/-- the result carries noise iff at least one operand does — `+`, `-`, reflected `-` and `*` alike -/
theorem noise_iff [DropIm α] (op : OpSpec α) {a b s : Sig α} (h : binop op a b = .ok s) :
    s.noise.isSome ↔ (a.noise.isSome ∨ b.noise.isSome) := by
  rw [binop_noise_isSome h]; simp

/-- any of the four operators returns a well-formed object of the left operand's class and length -/
theorem op_contract [DropIm α] {op : OpSpec α} (hstd : op.Std) {a b s : Sig α} (h : binop op a b = .ok s) :
    WF s ∧ s.cls = a.cls ∧ s.len = a.len ∧ s.sig.count = Nat.max a.sig.count b.sig.count := by
  obtain ⟨_, hs, w⟩ := binop_spec hstd h
  exact ⟨w, by rw [hs], binop_len hstd h, binop_count h⟩

/-- acceptance: for well-formed operands (right one with no more rows than the left one: same layout, or a
    converted scalar / list / length-1 object) the operation succeeds iff the lengths agree or the right operand
    has length 1 -/
theorem accept_iff [DropIm α] {op : OpSpec α} (hstd : op.Std) {a b : Sig α} (ha : WF a) (hb : WF b)
    (hc : b.sig.count ≤ a.sig.count) : (∃ s, binop op a b = .ok s) ↔ (b.len = a.len ∨ b.len = 1) :=
  binop_ok_iff hstd ha hb hc

/-- rejection: … and otherwise it raises ValueError, exactly when the lengths differ and the right operand is not
    of length 1 -/
theorem reject_iff [DropIm α] {op : OpSpec α} (hstd : op.Std) {a b : Sig α} (ha : WF a) (hb : WF b)
    (hc : b.sig.count ≤ a.sig.count) : binop op a b = .error .ValueError ↔ (a.len ≠ b.len ∧ b.len ≠ 1) := by
  have hacc := binop_ok_iff hstd ha hb hc
  constructor
  · intro h
    have : ¬ ∃ s, binop op a b = .ok s := by rintro ⟨s, hs⟩; rw [hs] at h; cases h
    rw [hacc] at this
    omega
  · intro h
    cases hr : binop op a b with
    | error e => rw [binop_error hstd hr]
    | ok s =>
      have := hacc.1 ⟨s, hr⟩
      omega

/-- an operator never raises anything but ValueError on two objects -/
theorem op_error_is_ValueError [DropIm α] {op : OpSpec α} (hstd : op.Std) {a b : Sig α} {e : Err}
    (h : binop op a b = .error e) : e = .ValueError := binop_error hstd h

/-- scalars broadcast: `a ⊕ scalar` (Python scalar, numpy scalar or 0-d array, on either side) always succeeds on a
    well-formed object and has the shape of `a` -/
theorem scalar_broadcasts [DropIm α] {op : OpSpec α} (hstd : op.Std) {a : Sig α} (ha : WF a) (py : Bool)
    (t : DType) (v : α) :
    ∃ s, rawop op a ⟨py, t, .s v⟩ = .ok s ∧ s.len = a.len ∧ s.sig.count = a.sig.count ∧ s.cls = a.cls := by
  have hconv : convert a.cls ⟨py, t, .s v⟩ = .ok ⟨a.cls, 1, t, .one [v], none⟩ := by
    have := construct_scalar a.cls t v none py
    simpa [convert] using this
  have wo : WF (⟨a.cls, 1, t, .one [v], none⟩ : Sig α) :=
    ⟨by simp [Rows.Valid], (by intro n hn; cases hn), rfl, fun _ => rfl⟩
  have hle : (⟨a.cls, 1, t, .one [v], none⟩ : Sig α).sig.count ≤ a.sig.count := Rows.count_pos _
  obtain ⟨s, hs⟩ := (binop_ok_iff hstd ha wo hle).2 (Or.inr rfl)
  refine ⟨s, by simp [rawop, hconv, hs], binop_len hstd hs, ?_, (binop_wf hs).1 ▸ rfl⟩
  rw [binop_count hs]
  exact Nat.max_eq_left hle

/-! ### slicing, indexing, copy -/

/-- **slicing returns exactly the selected samples**: `x[start:stop:step]` on a well-formed object either raises
    or returns the well-formed object of the same class, dtype and polarisation count whose every signal row and
    every noise row consists of the samples at CPython's slice indices (all of which lie on the axis) -/
theorem getitem_spec [DropIm α] {a s : Sig α} {st sp step : Option Int} (ha : WF a)
    (h : getSlice a st sp step = .ok s) :
    ∃ idx, sliceIdx st sp step a.len = .ok idx ∧ (∀ i ∈ idx, i < a.len) ∧ 1 ≤ idx.length ∧
      s.sig = a.sig.mapL (pick idx) ∧ s.noise = a.noise.map (Rows.mapL (pick idx)) ∧
      s.cls = a.cls ∧ s.dt = a.dt ∧ s.sig.count = a.sig.count ∧ s.len = idx.length ∧ WF s := by
  obtain ⟨idx, hi, hin, hne, hs, hl, w⟩ := getSlice_spec ha h
  refine ⟨idx, hi, hin, hne, ?_, ?_, ?_, ?_, ?_, hl, w⟩ <;> simp [hs]

/-- `pick` is what its name says: with all indices on the row, the `j`-th picked sample is the sample at the
    `j`-th index, and nothing is dropped -/
theorem pick_spec {idx : List Nat} {xs : List α} (h : ∀ i ∈ idx, i < xs.length) :
    (pick idx xs).length = idx.length ∧
      ∀ j (hj : j < idx.length), (pick idx xs)[j]? = some (xs[idx[j]]'(h _ (List.getElem_mem hj))) := by
  refine ⟨pick_length h, ?_⟩
  intro j hj
  rw [List.getElem?_eq_getElem (by rw [pick_length h]; exact hj), pick_getElem h j hj]

/-- a slice is accepted iff it selects at least one sample; a zero step or an empty selection is a ValueError -/
theorem getitem_accept_iff [DropIm α] {a : Sig α} {st sp step : Option Int} (ha : WF a) :
    (∃ s, getSlice a st sp step = .ok s) ↔ ∃ idx, sliceIdx st sp step a.len = .ok idx ∧ 1 ≤ idx.length := by
  constructor
  · rintro ⟨s, h⟩
    obtain ⟨idx, hi, _, hne, _⟩ := getSlice_spec ha h
    exact ⟨idx, hi, hne⟩
  · rintro ⟨idx, hi, hne⟩
    exact getSlice_ok_of ha hi hne

theorem getitem_error_is_ValueError [DropIm α] {a : Sig α} {st sp step : Option Int} {e : Err}
    (h : getSlice a st sp step = .error e) : e = .ValueError := getSlice_error h

/-- `x[i]` with an integer: the sample at the normalised index in every polarisation of signal and noise,
    as an object of length 1 -/
theorem index_spec [DropIm α] {a s : Sig α} {i : Int} (ha : WF a) (h : getIdx a i = .ok s) :
    ∃ k, normIdx i a.len = some k ∧ k < a.len ∧ ((0 ≤ i ∧ (k : Int) = i) ∨ (i < 0 ∧ (k : Int) = i + a.len)) ∧
      s.sig = a.sig.mapL (pick [k]) ∧ s.noise = a.noise.map (Rows.mapL (pick [k])) ∧
      s.cls = a.cls ∧ s.sig.count = a.sig.count ∧ s.len = 1 ∧ WF s := by
  obtain ⟨k, hk, hlt, hs, l, w⟩ := getIdx_spec ha h
  refine ⟨k, hk, hlt, (normIdx_spec hk).2, ?_, ?_, ?_, ?_, l, w⟩ <;> simp [hs]

/-- `x[i]` succeeds exactly for `-len ≤ i < len`, otherwise IndexError (enum `Other`) -/
theorem index_accept_iff [DropIm α] {a : Sig α} (i : Int) (ha : WF a) :
    (∃ s, getIdx a i = .ok s) ↔ (-(a.len : Int) ≤ i ∧ i < a.len) := getIdx_ok_iff i ha

theorem index_error_is_IndexError [DropIm α] {a : Sig α} {i : Int} {e : Err} (ha : WF a)
    (h : getIdx a i = .error e) : e = .Other := getIdx_error ha h

/-- `copy(n)` is `x[:n]`; `copy()` is `x[:len]` -/
theorem copy_is_slice [DropIm α] (a : Sig α) (n : Option Int) :
    Container.copy a n = getSlice a none (some (n.getD a.len)) none := rfl

/-- `copy()` returns an equal object (same class, dtype, rows, noise) -/
theorem copy_all [DropIm α] {a : Sig α} (ha : WF a) :
    Container.copy a none = .ok ⟨a.cls, a.sig.count, a.dt, a.sig, a.noise⟩ := by
  have hidx : sliceIdx none (some (a.len : Int)) none a.len = .ok (List.range a.len) := by
    have hpos : 1 ≤ a.len := Rows.len_pos ha.valid
    simp only [sliceIdx, sliceNorm, Option.getD_none]
    have h1 : ¬ ((1 : Int) = 0) := by decide
    have h2 : ¬ ((1 : Int) < 0) := by decide
    have h3 : ¬ ((a.len : Int) < 0) := by omega
    have h4 : ¬ ((a.len : Int) < (a.len : Int)) := by omega
    simp only [h1, h2, h3, h4, if_false]
    have h5 : rangeLen 0 (a.len : Int) 1 = a.len := by
      unfold rangeLen
      have : (0 : Int) < a.len := by omega
      simp only [h2, this, if_true, if_false]
      simp
    rw [h5]
    congr 1
    apply List.ext_getElem
    · simp
    · intro j hj1 hj2; simp
  have hpick : ∀ xs : List α, xs.length = a.len → pick (List.range a.len) xs = xs := by
    intro xs hx
    have hin : ∀ i ∈ List.range a.len, i < xs.length := by
      intro i hi; rw [hx]; exact List.mem_range.1 hi
    apply List.ext_getElem
    · rw [pick_length hin]; simp [hx]
    · intro j hj1 hj2
      rw [pick_getElem hin j (by rw [pick_length hin] at hj1; exact hj1)]
      simp
  have hrows : ∀ r : Rows α, r.Valid → r.len = a.len → r.mapL (pick (List.range a.len)) = r := by
    intro r hv hl
    cases r with
    | one xs => simp only [Rows.mapL, Rows.len] at *; rw [hpick xs hl]
    | two xs ys =>
      simp only [Rows.mapL, Rows.len, Rows.Valid] at *
      rw [hpick xs hl, hpick ys (by omega)]
  rw [copy_is_slice, getSlice_eq]
  simp only [Option.getD_none, hidx]
  have e1 : a.sig.mapL (pick (List.range a.len)) = a.sig := hrows a.sig ha.valid rfl
  have e2 : a.noise.map (Rows.mapL (pick (List.range a.len))) = a.noise := by
    cases hn : a.noise with
    | none => rfl
    | some n =>
      obtain ⟨v, _, l⟩ := ha.noise_shape n hn
      simp [hrows n v l]
  rw [e1, e2]
  exact build_of ha.valid ha.elec_one ha.noise_shape

/-! ### domain transforms `x('w')`, `x('f')`, `x('t')`, with and without shift (composition with C02) -/

/-- whatever the per-row transform computes, a call `x(domain, shift)` that returns yields a well-formed object of
    the same class with dtype complex (it goes through `self.__class__(signal[, noise])`); any other domain string is
    a ValueError -/
theorem transform_wf [DropIm α] [Xform α] {a s : Sig α} {d : Option Fourier.Dom} {sh : Bool}
    (h : transform a d sh = .ok s) : WF s ∧ s.cls = a.cls ∧ s.dt = .complex ∧ s.sig.count = a.sig.count := by
  obtain ⟨w, d', _, hs⟩ := transform_wf_any h
  exact ⟨w, by rw [hs], by rw [hs], by rw [hs]; simp⟩

theorem transform_bad_domain [DropIm α] [Xform α] (a : Sig α) (sh : Bool) :
    transform a none sh = .error .ValueError := rfl

/-- on a complex carrier the payload of `x(domain, shift)` IS `Fourier.call domain shift` of the payload of `x`
    (C02's model): signal and noise rows, every polarisation -/
theorem transform_is_fourier_call {R : Type} [Add R] [Sub R] [Mul R] [Div R] [Neg R] [NatCast R] [Transc R]
    {a s : Sig (Cx R)} {d : Fourier.Dom} {sh : Bool} (h : transform a (some d) sh = .ok s) :
    s.payload = Fourier.call d sh a.payload := transform_payload h

/-- **both domains, both shift settings**: over ℝ a well-formed object is always accepted and the result is a
    well-formed object of the same class, `n_pol`, row count, length and noise presence (row lengths by C02's
    `shift_length`, via the `LawfulXform (Cx ℝ)` instance) -/
theorem transform_shape {a : Sig (Cx ℝ)} (ha : WF a) (d : Fourier.Dom) (sh : Bool) :
    ∃ s, transform a (some d) sh = .ok s ∧ WF s ∧ s.cls = a.cls ∧ s.npol = a.npol ∧ s.sig.count = a.sig.count ∧
      s.len = a.len ∧ s.noise.isSome = a.noise.isSome ∧ s.dt = .complex := transform_spec ha d sh

/-- the same shape facts read off the payload with C02's own theorems `call_shape` and `call_noise_iff` -/
theorem transform_payload_shape {a s : Sig (Cx ℝ)} {d : Fourier.Dom} {sh : Bool}
    (h : transform a (some d) sh = .ok s) :
    s.payload.sig.map List.length = a.payload.sig.map List.length ∧
      s.payload.noise.isSome = a.payload.noise.isSome := by
  rw [transform_payload h]
  exact ⟨Props.C02.call_shape d sh a.payload, Props.C02.call_noise_iff d sh a.payload⟩

/-- a round trip `x('w')('t')` gives back the payload of `x` (C02's `call_roundtrip`, lifted to objects) -/
theorem transform_roundtrip_payload {a s t : Sig (Cx ℝ)} (h1 : transform a (some .w) false = .ok s)
    (h2 : transform s (some .t) false = .ok t) : t.payload = a.payload := by
  rw [transform_payload h2, transform_payload h1]
  exact Props.C02.call_roundtrip a.payload

/-- the exact objects of the differential run (Gaussian integers), embedded in `Cx ℝ`, transform with the same
    class / `n_pol` / length / noise presence -/
theorem transform_of_exact {a : Sig (Cx Int)} (ha : WF a) (d : Fourier.Dom) (sh : Bool) :
    ∃ s, transform (a.mapV embR) (some d) sh = .ok s ∧ WF s ∧ s.cls = a.cls ∧ s.npol = a.npol ∧
      s.len = a.len ∧ s.noise.isSome = a.noise.isSome := by
  obtain ⟨s, h, w, c, p, _, l, n, _⟩ := transform_shape (mapV_wf embR ha) d sh
  refine ⟨s, h, w, c, p, ?_, ?_⟩
  · rw [l]; cases hs : a.sig <;> simp [Sig.len, Sig.mapV, Rows.mapV, Rows.len, hs]
  · rw [n]; cases hn : a.noise <;> simp [Sig.mapV, hn]

/-! ### CPython slice arithmetic -/

/-- the normalised `(start, stop, step)` of `slice.indices(n)`: a zero step is the only error (ValueError);
    for a positive step `0 ≤ start, stop ≤ n`, for a negative one `-1 ≤ start, stop ≤ n - 1` -/
theorem slice_norm_bounds {st sp step : Option Int} {n : Nat} {s e k : Int}
    (h : sliceNorm st sp step n = .ok (s, e, k)) :
    k = step.getD 1 ∧ k ≠ 0 ∧ (0 < k → 0 ≤ s ∧ s ≤ n ∧ 0 ≤ e ∧ e ≤ n) ∧
      (k < 0 → -1 ≤ s ∧ s ≤ n - 1 ∧ -1 ≤ e ∧ e ≤ n - 1) := sliceNorm_spec h

theorem slice_step_zero_iff (st sp step : Option Int) (n : Nat) :
    sliceNorm st sp step n = .error .ValueError ↔ step = some 0 := by
  unfold sliceNorm
  cases step with
  | none => simp
  | some k =>
    by_cases hk : k = 0
    · simp [hk]
    · simp [hk]

/-- **length formula** of a slice, for every start / stop / step ≠ 0 / n: the number of selected indices is
    CPython's `(stop - start - 1) / step + 1` (resp. `(start - stop - 1) / (-step) + 1`), 0 when the range is empty -/
theorem slice_indices_len {st sp step : Option Int} {n : Nat} {idx : List Nat} {s e k : Int}
    (h : sliceIdx st sp step n = .ok idx) (hn : sliceNorm st sp step n = .ok (s, e, k)) :
    idx.length = (if k < 0 then (if e < s then ((s - e - 1) / (-k) + 1).toNat else 0)
                  else (if s < e then ((e - s - 1) / k + 1).toNat else 0)) := by
  obtain ⟨s', e', k', hn', hl, _⟩ := sliceIdx_spec h
  rw [hn] at hn'
  injection hn' with hn'
  injection hn' with h1 h2
  injection h2 with h2 h3
  subst h1 h2 h3
  rw [hl]; rfl

/-- the formula is exact: the arithmetic progression `start + j·step` stays strictly before `stop` for exactly
    the first `rangeLen` terms (positive step) … -/
theorem slice_len_exact_pos {s e k : Int} (hk : 0 < k) (j : Nat) :
    j < rangeLen s e k ↔ s + j * k < e := by
  obtain ⟨h1, h2⟩ := rangeLen_pos_spec (s := s) (e := e) hk
  constructor
  · exact h1 j
  · intro h
    by_contra hj
    have hj' : (rangeLen s e k : Int) ≤ j := by omega
    have := Int.mul_le_mul_of_nonneg_right hj' (Int.le_of_lt hk)
    omega

/-- … and strictly after `stop` for a negative step -/
theorem slice_len_exact_neg {s e k : Int} (hk : k < 0) (j : Nat) :
    j < rangeLen s e k ↔ e < s + j * k := by
  obtain ⟨h1, h2⟩ := rangeLen_neg_spec (s := s) (e := e) hk
  constructor
  · exact h1 j
  · intro h
    by_contra hj
    have hj' : (rangeLen s e k : Int) ≤ j := by omega
    have := Int.mul_le_mul_of_nonpos_right hj' (Int.le_of_lt hk)
    omega

/-- all produced indices are on the axis, and the `j`-th one is `start + j·step` -/
theorem slice_indices_in_range {st sp step : Option Int} {n : Nat} {idx : List Nat}
    (h : sliceIdx st sp step n = .ok idx) :
    (∀ i ∈ idx, i < n) ∧ ∃ s e k, sliceNorm st sp step n = .ok (s, e, k) ∧
      ∀ j (hj : j < idx.length), (idx[j] : Int) = s + j * k := by
  obtain ⟨s, e, k, hn, hl, hget, hin⟩ := sliceIdx_spec h
  refine ⟨hin, s, e, k, hn, ?_⟩
  intro j hj
  rw [hget j hj]
  have := (slice_index_in_range hn j (by rw [← hl]; exact hj)).1
  omega

/-! ### the theorems apply to what the driver runs; non-vacuity -/

section examples
open OptiVerif.Container.Examples

/-- the operators really run on these (model executed by the kernel): broadcast of a noisy length-1 operand -/
example : add xa xb = .ok ⟨.O, 2, .float, .two [z 8, z 9, z 10] [z 12, z 13, z 14],
    some (.two [z 1 2, z 1 3, z 1 4] [z 3 2, z 3 2, z 3 2])⟩ := by rfl

/-- … so `add_total`, `noise_iff`, `accept_iff` (generic carrier) speak about the executed carrier `Cx Int` -/
example : ∃ s, add xa xb = .ok s ∧ s.total = Rows.bin (· + ·) xa.total xb.total ∧ s.noise.isSome := by
  obtain ⟨s, hs⟩ := (accept_iff addSpec_std xa_wf xb_wf (Nat.le_refl _)).2 (Or.inr rfl)
  exact ⟨s, hs, add_total xa_wf xb_wf hs, (noise_iff addSpec hs).2 (Or.inl rfl)⟩

/-- different lengths (3 vs 2) are rejected with ValueError -/
example : sub xa xc = .error .ValueError :=
  (reject_iff subSpec_std xa_wf xc_wf (Nat.le_refl _)).2 ⟨by decide, by decide⟩

/-- a reversed, stepped slice picks indices 2, 0 -/
example : sliceIdx none none (some (-2)) 3 = .ok [2, 0] := by decide +kernel

example : ∃ s, getSlice xa none none (some (-2)) = .ok s ∧ s.sig = .two [z 3, z 1] [z 6, z 4] := by
  obtain ⟨s, hs⟩ := (getitem_accept_iff (st := none) (sp := none) (step := some (-2)) xa_wf).2
    ⟨[2, 0], by decide +kernel, by decide⟩
  obtain ⟨idx, hi, _, _, hsig, _⟩ := getitem_spec xa_wf hs
  have : idx = [2, 0] := by
    have e : sliceIdx none none (some (-2)) xa.len = .ok [2, 0] := by decide +kernel
    rw [e] at hi; injection hi with hi; exact hi.symm
  subst this
  exact ⟨s, hs, by rw [hsig]; rfl⟩

/-- a program interleaving `+`, a slice and two domain transforms, over ℝ: `eval_wf` / `eval_shape` apply -/
example (ρ : Env (Cx ℝ)) (hρ : ∀ x ∈ ρ, WF x) {s : Sig (Cx ℝ)}
    (h : eval ρ (.transform (.slice (.add (.transform (.var 0) (some .w) true) (.var 1)) none none (some 2))
      (some .t) false) = .ok s) :
    WF s ∧ s.len = sliceLen none none (some 2) (sLen ρ (.var 0)) :=
  ⟨eval_wf ρ hρ _ h, (eval_shape ρ hρ _ h).2.2.2⟩

end examples

end OptiVerif.Props.C01
