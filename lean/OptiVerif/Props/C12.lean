/-
C12 — PPM encode/decode is a bijection on whole symbols; HDD/SDD emit valid codewords.
Property theorems only (helper lemmas: Lemmas/Ppm*.lean).  Model: Model/Ppm.lean (+ Model/BinSeqStr.lean for string input); the power-of-two test and the dec2bin loop
expressions are regenerated from the source into Gen/Ppm.lean on every run.

Vocabulary:  `chunks m n l` = `l.reshape(n, m)`;  `oneHot M d` = a block of `M` slots with slot `d` ON;
`ones r` = number of ON slots of a block;  `beVal row` = big-endian value of a bit row;
`ValidCW M s` = `s` is made of whole `M`-slot symbols with exactly one ON slot each.
-/
import OptiVerif.Lemmas.PpmCodec
import OptiVerif.Lemmas.PpmDecision
import OptiVerif.Lemmas.PpmAppend
import OptiVerif.Lemmas.BinSeqStrBits

namespace OptiVerif.Props.C12
open OptiVerif OptiVerif.Ppm

/-! ### the expressions translated from the source are the documented ones -/

/-- the order test found in `ppm.HDD` and in `ppm.SDD` is `M < 1 or not M & (M-1) == 0` -/
theorem pow2_expr_documented (M : Nat) :
    Gen.Ppm.pow2MinHDD = 1 ∧ Gen.Ppm.pow2MinSDD = 1 ∧
    Gen.Ppm.pow2ExprHDD M = M &&& (M - 1) ∧ Gen.Ppm.pow2ExprSDD M = M &&& (M - 1) := ⟨rfl, rfl, rfl, rfl⟩

/-- the loop of `utils.dec2bin` writes `num % 2`, continues with `num // 2`, and refuses `num > 2^digits - 1` -/
theorem dec2bin_loop_documented (num digits : Nat) :
    Gen.Ppm.d2bBit num = num % 2 ∧ Gen.Ppm.d2bNext num = num / 2 ∧ Gen.Ppm.d2bLimit digits = 2 ^ digits - 1 :=
  ⟨rfl, rfl, rfl⟩

/-! ### vocabulary is what it says -/

/-- `beVal` is the big-endian value: the first bit weighs `2^(len-1)` -/
theorem beVal_bigEndian (b : Bool) (t : List Bool) : beVal (b :: t) = b.toNat * 2 ^ t.length + beVal t ∧ beVal [] = 0 :=
  ⟨beVal_cons b t, rfl⟩

/-- the weighted sum computed by the code (`np.sum(row * 2**np.arange(k)[::-1])`) is that value -/
theorem rowValue_is_bigEndian (k : Nat) (row : List Bool) (h : row.length = k) : rowValue k row = beVal row :=
  rowValue_eq_beVal k row h

/-- a one-hot block has `M` slots, slot `j` is ON iff `j = d`; so exactly one slot is ON -/
theorem oneHot_spec (M d : Nat) (hd : d < M) :
    (oneHot M d).length = M ∧ (∀ j, j < M → (oneHot M d)[j]? = some (decide (d = j))) ∧ ones (oneHot M d) = 1 :=
  ⟨oneHot_length M d, fun j hj => oneHot_getElem? M d j hj, ones_oneHot M d hd⟩

/-- `int(np.log2(M))` is ⌊log₂ M⌋ for every `M ≥ 1`, and is exact on powers of two -/
theorem log2M_spec (M : Nat) (hM : 1 ≤ M) :
    log2M (M : Int) = .ok (Nat.log2 M) ∧ 2 ^ Nat.log2 M ≤ M ∧ M < 2 ^ (Nat.log2 M + 1) := by
  refine ⟨?_, Nat.log2_self_le (by omega), Nat.lt_log2_self⟩
  unfold log2M
  rw [if_neg (by omega), if_neg (by omega)]
  simp

theorem log2M_two_pow (k : Nat) : log2M ((2 ^ k : Nat) : Int) = .ok k := by
  have h : 1 ≤ 2 ^ k := Nat.pow_pos (by omega)
  rw [(log2M_spec (2 ^ k) h).1, Nat.log2_two_pow]

/-- `encode` on a bit list and a natural order `M ≥ 2`, unfolded -/
theorem encode_seq (M : Nat) (hM : 2 ≤ M) (b : List Bool) :
    encode (.seq b) (M : Int) = some (encodeBits M (Nat.log2 M) b) ∧ Nat.log2 M ≠ 0 ∧ 2 ^ Nat.log2 M ≤ M := by
  obtain ⟨h1, h2, _⟩ := log2M_spec M (by omega)
  refine ⟨?_, ?_, h2⟩
  · simp only [encode, Input.toBits, h1, Int.toNat_natCast]
    rfl
  · have := (Nat.le_log2 (n := M) (k := 1) (by omega)).2 (by simpa using hM)
    omega

theorem decode_seq (M : Nat) (hM : 1 ≤ M) (s : List Bool) :
    decode (.seq s) (M : Int) = some (decodeBits M (Nat.log2 M) s) := by
  obtain ⟨h1, _, _⟩ := log2M_spec M hM
  simp only [decode, Input.toBits, h1, Int.toNat_natCast]
  rfl

/-! ### encoder -/

/-- **encode_onehot**: for every order `M ≥ 2` (k = ⌊log₂ M⌋ ≥ 1) and every bit list `b`, the encoder succeeds,
    emits `⌊len b / k⌋` blocks of `M` slots, and block `i` is the one-hot block at the big-endian value of the
    `i`-th row of `k` bits (that value is `< 2^k ≤ M`, so it is a slot of the block). -/
theorem encode_onehot (M : Nat) (hM : 2 ≤ M) (b : List Bool) :
    ∃ out, encode (.seq b) (M : Int) = some (.ok out) ∧
      out.length = b.length / Nat.log2 M * M ∧
      chunks M (b.length / Nat.log2 M) out
        = (chunks (Nat.log2 M) (b.length / Nat.log2 M) b).map (fun row => oneHot M (beVal row)) ∧
      ∀ row ∈ chunks (Nat.log2 M) (b.length / Nat.log2 M) b, row.length = Nat.log2 M ∧ beVal row < M := by
  obtain ⟨he, hk, hle⟩ := encode_seq M hM b
  refine ⟨_, by rw [he, encodeBits_eq M _ hk], ?_, ?_, ?_⟩
  · rw [length_flatten_of_rows M]
    · simp
    · intro r hr
      obtain ⟨row, _, rfl⟩ := List.mem_map.mp hr
      simp
  · have := chunks_flatten M ((chunks (Nat.log2 M) (b.length / Nat.log2 M) b).map (fun row => oneHot M (beVal row)))
      (by intro r hr; obtain ⟨row, _, rfl⟩ := List.mem_map.mp hr; simp)
    rw [List.length_map, chunks_length] at this
    exact this
  · intro row hrow
    have hl := chunks_row_length (Nat.log2 M) _ b (Nat.div_mul_le_self _ _) row hrow
    refine ⟨hl, Nat.lt_of_lt_of_le ?_ hle⟩
    have := beVal_lt row
    rwa [hl] at this

/-- the encoder's output is a valid codeword -/
theorem encode_valid (M : Nat) (hM : 2 ≤ M) (b out : List Bool) (h : encode (.seq b) (M : Int) = some (.ok out)) :
    ValidCW M out := by
  obtain ⟨out', h', hlen, hrows, hlt⟩ := encode_onehot M hM b
  rw [h] at h'
  injection h' with h'; injection h' with h'; subst h'
  have hd : out.length / M = b.length / Nat.log2 M := by
    rw [hlen]; exact Nat.mul_div_cancel _ (by omega)
  refine ⟨by rw [hlen]; exact Nat.mul_mod_left _ _, ?_⟩
  rw [hd, hrows]
  intro r hr
  obtain ⟨row, hrow, rfl⟩ := List.mem_map.mp hr
  exact ones_oneHot M _ (hlt row hrow).2

/-! ### round trips -/

/-- **decode_encode**: for every order `M ≥ 2` and every bit list `b`,
    `PPM_DECODER(PPM_ENCODER(b, M), M)` is `b` truncated to a whole number of `k`-bit symbols. -/
theorem decode_encode (M : Nat) (hM : 2 ≤ M) (b out : List Bool) (h : encode (.seq b) (M : Int) = some (.ok out)) :
    decode (.seq out) (M : Int)
      = some (.ok ((b.take (b.length / Nat.log2 M * Nat.log2 M)).map Bool.toNat)) := by
  obtain ⟨he, hk, hle⟩ := encode_seq M hM b
  rw [he] at h
  injection h with h
  rw [decode_seq M (by omega), decodeBits_encodeBits M _ hk hle b out h]

/-- **encode_append**: the encoder is a homomorphism at symbol boundaries — if `b₁` is a whole number of `k`-bit symbols,
    `PPM_ENCODER(b₁ ++ b₂, M) = PPM_ENCODER(b₁, M) ++ PPM_ENCODER(b₂, M)` (all three calls accepted) for every order `M ≥ 2`:
    a frame can be encoded piecewise, and no symbol depends on its neighbours. -/
theorem encode_append (M : Nat) (hM : 2 ≤ M) (b₁ b₂ : List Bool) (w₁ : b₁.length % Nat.log2 M = 0) :
    ∃ o₁ o₂, encode (.seq b₁) (M : Int) = some (.ok o₁) ∧ encode (.seq b₂) (M : Int) = some (.ok o₂) ∧
      encode (.seq (b₁ ++ b₂)) (M : Int) = some (.ok (o₁ ++ o₂)) := by
  obtain ⟨he1, hk, _⟩ := encode_seq M hM b₁
  obtain ⟨he2, _, _⟩ := encode_seq M hM b₂
  obtain ⟨he, _, _⟩ := encode_seq M hM (b₁ ++ b₂)
  have hkpos : Nat.log2 M > 0 := Nat.pos_of_ne_zero hk
  obtain ⟨q, hq⟩ := Nat.dvd_of_mod_eq_zero w₁
  have hdiv1 : b₁.length / Nat.log2 M = q := by rw [hq]; exact Nat.mul_div_cancel_left q hkpos
  have hdiv : (b₁ ++ b₂).length / Nat.log2 M = q + b₂.length / Nat.log2 M := by
    rw [List.length_append, hq]; exact Nat.mul_add_div hkpos q _
  refine ⟨_, _, by rw [he1, encodeBits_eq M _ hk], by rw [he2, encodeBits_eq M _ hk], ?_⟩
  rw [he, encodeBits_eq M _ hk, hdiv, hdiv1,
    chunks_append (Nat.log2 M) q _ b₁ b₂ (by rw [hq, Nat.mul_comm]), List.map_append, List.flatten_append]

/-- non-vacuity: 4-PPM, `b₁ = 10 11` (two symbols), `b₂ = 01` -/
example : encode (.seq [true, false, true, true]) 4 = some (.ok [false, false, true, false, false, false, false, true]) ∧
    encode (.seq [false, true]) 4 = some (.ok [false, true, false, false]) ∧
    encode (.seq [true, false, true, true, false, true]) 4
      = some (.ok [false, false, true, false, false, false, false, true, false, true, false, false]) := by decide

/-- **decode_append**: the decoder is a homomorphism at symbol boundaries — if `s₁` is a whole number of `M`-slot symbols,
    decoding `s₁ ++ s₂` gives the bits of `s₁` followed by the bits of `s₂` (or fails exactly when one of the parts does),
    for every order `M ≥ 1` and ANY slot contents (valid codewords or not). -/
theorem decode_append (M : Nat) (hM : 1 ≤ M) (s₁ s₂ : List Bool) (w₁ : s₁.length % M = 0) :
    ∃ r₁ r₂, decode (.seq s₁) (M : Int) = some r₁ ∧ decode (.seq s₂) (M : Int) = some r₂ ∧
      decode (.seq (s₁ ++ s₂)) (M : Int) = some (do let a ← r₁; let b ← r₂; pure (a ++ b)) := by
  refine ⟨_, _, decode_seq M hM s₁, decode_seq M hM s₂, ?_⟩
  rw [decode_seq M hM, decodeBits_append M _ s₁ s₂ w₁]

/-- the encoder is injective on whole symbols (with `decode_encode`/`encode_decode`: a bijection between
    bit lists of whole symbols and valid codewords) -/
theorem encode_injective (M : Nat) (hM : 2 ≤ M) (b₁ b₂ out : List Bool)
    (w₁ : b₁.length % Nat.log2 M = 0) (w₂ : b₂.length % Nat.log2 M = 0)
    (h₁ : encode (.seq b₁) (M : Int) = some (.ok out)) (h₂ : encode (.seq b₂) (M : Int) = some (.ok out)) : b₁ = b₂ := by
  have d₁ := decode_encode M hM b₁ out h₁
  have d₂ := decode_encode M hM b₂ out h₂
  rw [d₁] at d₂
  injection d₂ with d₂; injection d₂ with d₂
  rw [Nat.div_mul_cancel (Nat.dvd_of_mod_eq_zero w₁), Nat.div_mul_cancel (Nat.dvd_of_mod_eq_zero w₂),
    List.take_length, List.take_length] at d₂
  exact (List.map_inj_right (fun a b => by cases a <;> cases b <;> simp)).mp d₂

/-- **encode_decode**: for `M = 2^k`, `k ≥ 1`, every valid codeword decodes to `k` bits per symbol and the
    encoder maps those bits back to the codeword. -/
theorem encode_decode (k : Nat) (hk : 1 ≤ k) (slots : List Bool) (hv : ValidCW (2 ^ k) slots) :
    ∃ w, decode (.seq slots) ((2 ^ k : Nat) : Int) = some (.ok w) ∧ w.length = slots.length / 2 ^ k * k ∧
      (∀ x ∈ w, x = 0 ∨ x = 1) ∧
      encode (.seq (w.map (· != 0))) ((2 ^ k : Nat) : Int) = some (.ok slots) := by
  have hpos : 0 < 2 ^ k := Nat.pow_pos (by omega)
  have h2 : 2 ≤ 2 ^ k := by
    calc 2 = 2 ^ 1 := rfl
      _ ≤ 2 ^ k := Nat.pow_le_pow_right (by omega) hk
  obtain ⟨hmod, hones⟩ := hv
  have hlen : slots.length = slots.length / 2 ^ k * 2 ^ k := (Nat.div_mul_cancel (Nat.dvd_of_mod_eq_zero hmod)).symm
  have hrl := chunks_row_length (2 ^ k) (slots.length / 2 ^ k) slots (Nat.div_mul_le_self _ _)
  obtain ⟨ds, hds, hrows⟩ := rows_oneHot (2 ^ k) (chunks (2 ^ k) (slots.length / 2 ^ k) slots)
    (fun r hr => ⟨hrl r hr, hones r hr⟩)
  have hs : slots = (ds.map (oneHot (2 ^ k))).flatten := by
    rw [← hrows, flatten_chunks _ _ _ hlen]
  have hdl : ds.length = slots.length / 2 ^ k := by
    have := congrArg List.length hrows
    simpa using this.symm
  obtain ⟨w, hw1, hw2, hw3⟩ := encodeBits_decodeBits_rows k (by omega) ds hds
  refine ⟨w, ?_, by rw [hw2, hdl], ?_, ?_⟩
  · rw [decode_seq _ hpos, Nat.log2_two_pow, hs, hw1]
  · rw [decodeBits_rows (2 ^ k) k ds hds hds] at hw1
    injection hw1 with hw1
    subst hw1
    intro x hx
    obtain ⟨l, hl, hxl⟩ := List.mem_flatten.mp hx
    obtain ⟨d, _, rfl⟩ := List.mem_map.mp hl
    exact beBits_mem k d x hxl
  · rw [(encode_seq _ h2 _).1, Nat.log2_two_pow, hw3, ← hs]

/-! ### dec2bin -/

/-- `dec2bin(num, digits)`: the big-endian `digits`-bit representation when `num < 2^digits`, ValueError otherwise -/
theorem dec2bin_spec (num digits : Nat) :
    (num < 2 ^ digits → ∃ w, dec2bin num digits = .ok w ∧ w.length = digits ∧ (∀ x ∈ w, x = 0 ∨ x = 1) ∧
        beVal (w.map (· != 0)) = num) ∧
    (2 ^ digits ≤ num → dec2bin num digits = .error .ValueError) :=
  ⟨fun h => ⟨_, dec2bin_ok num digits h, beBits_length _ _, fun x hx => beBits_mem _ _ x hx, beVal_beBits _ _ h⟩,
   dec2bin_err num digits⟩

/-! ### hard decision -/

/-- the order test of HDD/SDD accepts exactly the powers of two: 0, negative orders and every other integer are refused -/
theorem pow2Test_spec (M : Int) : (pow2Test M = true ↔ ∃ k : Nat, M = 2 ^ k) ∧ pow2TestS M = pow2Test M :=
  ⟨pow2Test_iff M, pow2TestS_eq M⟩

theorem hdd_seq (M : Int) (ri : Nat → Nat → Nat) (ch : Nat → List Nat → Nat) (slots : List Bool) :
    hdd (.seq slots) M ri ch = some (hddBits M ri ch slots) := rfl

/-- **hdd_spec**, symbol by symbol, for every oracle obeying numpy's contract
    (`randint(M) < M`, `choice(j) ∈ j`): same length; symbol `i` of the result has exactly one ON slot; it is the
    received symbol when that had exactly one ON slot; its ON slot was ON in the received symbol when that had any. -/
theorem hdd_spec (M : Nat) (ri : Nat → Nat → Nat) (ch : Nat → List Nat → Nat) (hr : RandintOK ri) (hc : ChoiceOK ch)
    (slots out : List Bool) (h : hdd (.seq slots) (M : Int) ri ch = some (.ok out)) :
    out.length = slots.length ∧ slots.length % M = 0 ∧
    ∀ (i : Nat) (s s' : List Bool), (chunks M (slots.length / M) slots)[i]? = some s →
      (chunks M (slots.length / M) out)[i]? = some s' →
        s'.length = M ∧ ones s' = 1 ∧ (ones s = 1 → s' = s) ∧
        (1 ≤ ones s → ∀ j : Nat, s'[j]? = some true → s[j]? = some true) := by
  rw [hdd_seq] at h
  injection h with h
  obtain ⟨hM, hmod, hlen, hrows⟩ := hddBits_rows M ri ch hr hc slots out h
  refine ⟨hlen, hmod, ?_⟩
  intro i s s' hs hs'
  have hrl := chunks_row_length M (slots.length / M) slots (Nat.div_mul_le_self _ _)
  obtain ⟨_, _, hz⟩ := hddSyms_spec M hM ri ch hr hc _ hrl 0 0
  rw [← hrows] at hz
  exact hz (s, s') (by
    rw [List.mem_iff_getElem?]
    exact ⟨i, by rw [List.getElem?_zip_eq_some]; exact ⟨hs, hs'⟩⟩)

/-- **hdd_valid**: the result is a valid codeword (one ON slot per symbol), for every oracle obeying the contract -/
theorem hdd_valid (M : Nat) (ri : Nat → Nat → Nat) (ch : Nat → List Nat → Nat) (hr : RandintOK ri) (hc : ChoiceOK ch)
    (slots out : List Bool) (h : hdd (.seq slots) (M : Int) ri ch = some (.ok out)) : ValidCW M out := by
  rw [hdd_seq] at h
  injection h with h
  obtain ⟨hM, hmod, hlen, hrows⟩ := hddBits_rows M ri ch hr hc slots out h
  have hrl := chunks_row_length M (slots.length / M) slots (Nat.div_mul_le_self _ _)
  obtain ⟨_, h2, _⟩ := hddSyms_spec M hM ri ch hr hc _ hrl 0 0
  refine ⟨by rw [hlen]; exact hmod, ?_⟩
  rw [hlen, hrows]
  exact fun r hx => (h2 r hx).2

/-- **hdd_id_on_valid**: HDD is the identity on valid codewords — whatever the random draws are -/
theorem hdd_id_on_valid (M : Nat) (hp : pow2Test (M : Int) = true) (ri : Nat → Nat → Nat)
    (ch : Nat → List Nat → Nat) (slots : List Bool) (hv : ValidCW M slots) :
    hdd (.seq slots) (M : Int) ri ch = some (.ok slots) := by
  rw [hdd_seq, hddBits_nat, if_neg (by simp [hp]), if_neg (by simp [hv.1]),
    hddSyms_id M ri ch _ hv.2, flatten_chunks]
  exact (Nat.div_mul_cancel (Nat.dvd_of_mod_eq_zero hv.1)).symm

/-- **rejection by HDD**: ValueError exactly for orders that are not powers of two (0 and negatives included) and, for a
    power of two, for lengths that are not whole symbols; HDD raises nothing else on a slot list -/
theorem hdd_reject (M : Int) (ri : Nat → Nat → Nat) (ch : Nat → List Nat → Nat) (slots : List Bool) :
    (hdd (.seq slots) M ri ch = some (.error .ValueError) ↔
      ((¬ ∃ k : Nat, M = 2 ^ k) ∨ slots.length % M.toNat ≠ 0)) ∧
    (∀ e, hdd (.seq slots) M ri ch = some (.error e) → e = .ValueError) := by
  rw [hdd_seq]
  unfold hddBits
  rw [← pow2Test_iff]
  cases hp : pow2Test M
  · simp
  · by_cases hl : slots.length % M.toNat = 0 <;> simp [hl]

/-- orders below 1 (0 included) are answered with ValueError -/
theorem hdd_order_below_one (M : Int) (hM : M < 1) (ri : Nat → Nat → Nat) (ch : Nat → List Nat → Nat) (slots : List Bool) :
    hdd (.seq slots) M ri ch = some (.error .ValueError) := by
  refine ((hdd_reject M ri ch slots).1).mpr (Or.inl ?_)
  rintro ⟨k, h⟩
  have : (0 : Int) < 2 ^ k := Int.pow_pos (by decide)
  omega

/-- **hdd_idempotent**: deciding twice changes nothing — the output of an accepted `HDD` call is returned unchanged by any
    further `HDD` call, whatever the random draws of either call are (`hdd_valid` + `hdd_id_on_valid`) -/
theorem hdd_idempotent (M : Nat) (ri ri' : Nat → Nat → Nat) (ch ch' : Nat → List Nat → Nat) (hr : RandintOK ri) (hc : ChoiceOK ch)
    (slots out : List Bool) (h : hdd (.seq slots) (M : Int) ri ch = some (.ok out)) :
    hdd (.seq out) (M : Int) ri' ch' = some (.ok out) := by
  have hp : pow2Test (M : Int) = true := by
    by_contra hn
    have := ((hdd_reject (M : Int) ri ch slots).1).mpr (Or.inl (fun hk => hn ((pow2Test_iff (M : Int)).mpr hk)))
    rw [this] at h
    cases h
  exact hdd_id_on_valid M hp ri' ch' out (hdd_valid M ri ch hr hc slots out h)

/-! ### soft decision (any linearly ordered sample type, e.g. ℝ) -/

section
variable {R : Type} [LinearOrder R] [Add R] [Zero R]

omit [Add R] [Zero R] in
/-- `np.argmax`: in range, maximal, and the first maximal position -/
theorem argmax_first_max (l : List R) (hl : l ≠ []) :
    argmax l < l.length ∧ ∃ v, l[argmax l]? = some v ∧ (∀ (j : Nat) x, l[j]? = some x → x ≤ v) ∧
      (∀ (j : Nat) x, j < argmax l → l[j]? = some x → x < v) :=
  ⟨argmax_lt_length l hl, argmax_spec l hl⟩

omit [LinearOrder R] in
/-- the energy of slot `i` is the sum of its `sps` samples -/
theorem slotSums_spec (sps : Nat) (x : List R) (i : Nat) (h : i < x.length / sps) :
    (slotSums sps x)[i]? = some (sumL ((x.drop (i * sps)).take sps)) := by
  simp only [slotSums, List.getElem?_map, chunks_getElem? sps _ i x h, Option.map_some]

/-- **sdd_argmax**: an accepted call turns ON, in every symbol, exactly the slot that `argmax` selects among the `M`
    slot energies of that symbol (the first slot of largest energy); the result is a valid codeword with one slot
    per `sps` samples. -/
theorem sdd_argmax (M sps : Nat) (x : List R) (out : List Bool) (h : sdd (M : Int) sps x = .ok out) :
    out.length = x.length / sps ∧ ValidCW M out ∧
    ∀ (i : Nat) (e : List R), (chunks M (x.length / sps / M) (slotSums sps x))[i]? = some e →
      e.length = M ∧ argmax e < M ∧ (chunks M (x.length / sps / M) out)[i]? = some (oneHot M (argmax e)) := by
  obtain ⟨hM, hs, _, hmod, hlen, hrows⟩ := sdd_rows M sps x out h
  have hrl := chunks_row_length M (x.length / sps / M) (slotSums sps x)
    (by rw [slotSums_length]; exact Nat.div_mul_le_self _ _)
  have hne : ∀ e ∈ chunks M (x.length / sps / M) (slotSums sps x), e.length = M ∧ argmax e < M := by
    intro e he
    have hl := hrl e he
    refine ⟨hl, ?_⟩
    have := argmax_lt_length e (by intro hc; rw [hc] at hl; simp at hl; omega)
    rwa [hl] at this
  refine ⟨hlen, ⟨by rw [hlen]; exact hmod, ?_⟩, ?_⟩
  · rw [hlen, hrows]
    intro r hr
    obtain ⟨e, he, rfl⟩ := List.mem_map.mp hr
    exact ones_oneHot M _ (hne e he).2
  · intro i e he
    have hmem : e ∈ chunks M (x.length / sps / M) (slotSums sps x) := List.mem_of_getElem? he
    refine ⟨(hne e hmem).1, (hne e hmem).2, ?_⟩
    rw [hrows, List.getElem?_map, he]
    rfl

/-- **sdd_id_on_waveforms**: let `c` be a valid codeword and let every slot be rendered by `sps ≥ 1` samples, `p1` for
    an ON slot and `p0` for an OFF slot, with larger total for ON (`Σp0 < Σp1`; covers any pulse shape, any bias, any
    positive amplitude).  Then SDD returns `c`. -/
theorem sdd_id_on_waveforms (M sps : Nat) (hM : 0 < M) (hp : pow2Test (M : Int) = true) (hs : 0 < sps)
    (c : List Bool) (hv : ValidCW M c) (p0 p1 : List R) (h0 : p0.length = sps) (h1 : p1.length = sps)
    (hlt : sumL p0 < sumL p1) :
    sdd (M : Int) sps (c.map (fun b => if b then p1 else p0)).flatten = .ok c := by
  have hrl : ∀ r ∈ c.map (fun b => if b then p1 else p0), r.length = sps := by
    intro r hr
    obtain ⟨b, _, rfl⟩ := List.mem_map.mp hr
    cases b <;> simp [h0, h1]
  have hxl : (c.map (fun b => if b then p1 else p0)).flatten.length = c.length * sps := by
    rw [length_flatten_of_rows sps _ hrl, List.length_map]
  obtain ⟨hmod, hones⟩ := hv
  obtain ⟨q, hq⟩ := Nat.dvd_of_mod_eq_zero hmod
  have hss : slotSums sps (c.map (fun b => if b then p1 else p0)).flatten
      = c.map (fun b => if b then sumL p1 else sumL p0) := by
    unfold slotSums
    rw [hxl, Nat.mul_div_cancel _ hs]
    have := chunks_flatten sps _ hrl
    rw [List.length_map] at this
    rw [this, List.map_map]
    apply List.map_congr_left
    intro b _
    cases b <;> rfl
  rw [sdd_nat, if_neg (by simp [hp]), if_neg (by intro hc; rcases Nat.mul_eq_zero.mp hc with h | h <;> omega),
    if_neg (by
      rw [hxl, hq, show M * q * sps = M * sps * q by rw [Nat.mul_assoc, Nat.mul_comm q sps, ← Nat.mul_assoc]]
      simp)]
  congr 1
  rw [hss, List.length_map, chunks_map, List.map_map]
  have : (chunks M (c.length / M) c).map
      ((fun sym => oneHot M (argmax sym)) ∘ List.map (fun b => if b then sumL p1 else sumL p0))
      = (chunks M (c.length / M) c).map id := by
    apply List.map_congr_left
    intro r hr
    have hl := chunks_row_length M (c.length / M) c (Nat.div_mul_le_self _ _) r hr
    obtain ⟨d, hd, hrd⟩ := eq_oneHot_of_ones_one r (hones r hr)
    rw [hl] at hd hrd
    simp only [Function.comp, id]
    rw [hrd, argmax_oneHot M d hd _ _ hlt]
  rw [this, List.map_id, flatten_chunks]
  exact (Nat.div_mul_cancel (Nat.dvd_of_mod_eq_zero hmod)).symm

/-- **rejection by SDD**: ValueError exactly for orders that are not powers of two (0 and negatives included) and, for
    `M·sps ≠ 0`, for lengths that are not a multiple of `M·sps` -/
theorem sdd_reject (M : Int) (sps : Nat) (x : List R) :
    sdd M sps x = .error .ValueError ↔
      ((¬ ∃ k : Nat, M = 2 ^ k) ∨ (M.toNat * sps ≠ 0 ∧ x.length % (M.toNat * sps) ≠ 0)) := by
  unfold sdd
  rw [pow2TestS_eq, ← pow2Test_iff]
  cases hp : pow2Test M
  · simp
  · by_cases h0 : M.toNat * sps = 0
    · simp [h0]
    · by_cases hl : x.length % (M.toNat * sps) = 0 <;> simp [h0, hl]

/-- orders below 1 (0 included) are answered with ValueError by SDD too -/
theorem sdd_order_below_one (M : Int) (hM : M < 1) (sps : Nat) (x : List R) : sdd M sps x = .error .ValueError := by
  refine (sdd_reject M sps x).mpr (Or.inl ?_)
  rintro ⟨k, h⟩
  have : (0 : Int) < 2 ^ k := Int.pow_pos (by decide)
  omega
end

/-! ### container forms -/

/-- list, tuple, ndarray and `binary_sequence` inputs are one model input (`Input.seq`, the elements' truth values), so
    they agree by construction.  **The string form agrees too**: a plain bit string (characters `0 1 space comma`, not
    empty) is normalised to the list of its digits, hence every function gives the same result on it. -/
theorem forms_agree (s : List Nat) (h : BinSeqStr.Plain s) :
    (Input.str s).toBits = (Input.seq ((s.filter BinSeqStr.keep).map (· == 49))).toBits ∧
    (∀ M, encode (.str s) M = encode (.seq ((s.filter BinSeqStr.keep).map (· == 49))) M) ∧
    (∀ M, decode (.str s) M = decode (.seq ((s.filter BinSeqStr.keep).map (· == 49))) M) ∧
    (∀ M ri ch, hdd (.str s) M ri ch = hdd (.seq ((s.filter BinSeqStr.keep).map (· == 49))) M ri ch) := by
  have key : (Input.str s).toBits = (Input.seq ((s.filter BinSeqStr.keep).map (· == 49))).toBits := by
    simp only [Input.toBits, BinSeqStr.str2array_plain s h, List.map_map]
    congr 1
    apply List.map_congr_left
    intro c hc
    obtain ⟨hcs, hk⟩ := List.mem_filter.mp hc
    rcases h.2 c hcs with rfl | rfl | rfl | rfl
    · rfl
    · rfl
    · exact absurd hk (by decide)
    · exact absurd hk (by decide)
  refine ⟨key, ?_, ?_, ?_⟩
  · intro M; simp only [encode, key]
  · intro M; simp only [decode, key]
  · intro M ri ch; simp only [hdd, key]

/-! ### non-vacuity and samples (tests, not theorems) -/

example : encode (.seq [false, true, true, true, true, false, false, false]) 4
    = some (.ok [false,true,false,false, false,false,false,true, false,false,true,false, true,false,false,false]) := by decide
example : decode (.seq [false,true,false,false, false,false,false,true]) 4 = some (.ok [0,1,1,1]) := by decide
example : ValidCW 4 [false,true,false,false, false,false,false,true] := by
  refine ⟨by decide, ?_⟩; decide
/-- an oracle obeying the contract exists (so `hdd_spec`/`hdd_valid` are not vacuous) … -/
example : RandintOK (fun c M => c % M) ∧ ChoiceOK (fun c j => j.getD (c % j.length) 0) := by
  refine ⟨fun c M h => Nat.mod_lt _ h, fun c j hj => ?_⟩
  have hl : 0 < j.length := List.length_pos_iff.mpr hj
  show j.getD (c % j.length) 0 ∈ j
  rw [List.getD_eq_getElem?_getD, List.getElem?_eq_getElem (Nat.mod_lt _ hl)]
  exact List.getElem_mem _
/-- … and an accepted call that needs both kinds of repair -/
example : hdd (.seq [false,false,false,false, false,true,true,true, false,false,true,false]) 4
    (fun c M => c % M) (fun c j => j.getD (c % j.length) 0)
    = some (.ok [true,false,false,false, false,true,false,false, false,false,true,false]) := by decide
example : hdd (.seq [false,true,false]) 3 (fun _ _ => 0) (fun _ _ => 0) = some (.error .ValueError) := by decide
example : hdd (.seq [false,true,false]) 2 (fun _ _ => 0) (fun _ _ => 0) = some (.error .ValueError) := by decide
example : sdd (2 : Int) 2 ([1,1,2,0, 5,-1,0,5] : List Int) = .ok [true,false, false,true] := by decide
example : BinSeqStr.Plain [48, 32, 49, 44, 49] := ⟨by decide, by decide⟩
example : encode (.str [48, 32, 49, 44, 49, 49]) 4 = encode (.seq [false, true, true, true]) 4 := by decide
example : pow2Test 4 = true ∧ pow2Test 6 = false ∧ pow2Test (-4) = false ∧ pow2Test 1 = true ∧ pow2Test 0 = false := by decide
example : hdd (.seq [false,true,false,false]) 0 (fun _ _ => 0) (fun _ _ => 0) = some (.error .ValueError) := by decide

end OptiVerif.Props.C12
