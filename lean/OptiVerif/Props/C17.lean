/-
C17 — the eye estimator GET_EYE recovers the levels of a clean two-level signal in any unit.
Theorems about `Model/Eye.lean` at ℝ: everything deterministic around the library calls (sg.resample, sk.KMeans,
gaussian_kde — parameters spied from the run — and shortest_int, modelled by C18).  The driver runs the same definitions at
Float against GET_EYE().  Accuracy clauses and the equivariance of the clustering itself are oracle-only (harness PARTIAL).
-/
import OptiVerif.Lemmas.Eye
import OptiVerif.Gen.Eye

namespace OptiVerif.Props.C17
open OptiVerif OptiVerif.Eye OptiVerif.NumList

/-! ### constants translated from the source -/

theorem constants_documented :
    Gen.Eye.quarter = 1 / 4 ∧ Gen.Eye.spanFrac = 1 / 20 ∧ Gen.Eye.thrPoints = 500 ∧ Gen.Eye.percent = 50 ∧
    Gen.Eye.eyeSigmas = 3 ∧ Gen.Eye.tLeftDefault = -1 / 2 ∧ Gen.Eye.tRightDefault = 1 / 2 ∧ Gen.Eye.tOptDefault = 0 ∧
    Gen.Eye.nClusters = 2 ∧ Gen.Eye.nInit = 10 := by
  refine ⟨?_, ?_, ?_, ?_, ?_, ?_, ?_, ?_, ?_, ?_⟩ <;> decide +kernel

/-- the model's constants are the source's -/
theorem model_uses_source_constants :
    (quarter : ℝ) = ((Gen.Eye.quarter : ℚ) : ℝ) ∧ (p05 : ℝ) = ((Gen.Eye.spanFrac : ℚ) : ℝ) ∧
    timing ([] : List ℝ) none = ⟨((Gen.Eye.tLeftDefault : ℚ) : ℝ), ((Gen.Eye.tRightDefault : ℚ) : ℝ), ((Gen.Eye.tOptDefault : ℚ) : ℝ)⟩ := by
  obtain ⟨h1, h2, -, -, -, h6, h7, h8, -⟩ := constants_documented
  rw [h1, h2, h6, h7, h8]
  refine ⟨?_, ?_, ?_⟩
  · simp [quarter]
  · simp [p05]; norm_num
  · simp [timing]; norm_num

/-! ### what `post` returns -/

/-- the fields of a successful run, in terms of the selections -/
theorem post_ok (nslots sps : ℕ) (spsR : Option ℕ) (top bot : ℝ × ℝ) (centres : Option ((ℝ × ℝ) × (ℝ × ℝ)))
    (pdf : Option (List ℝ)) (y : List ℝ) (o : Out ℝ) (h : post nslots sps spsR top bot centres pdf y = .ok o) :
    let lv := levels top bot
    let tm := timing (grid (spsR.getD sps)) centres
    let t : List ℝ := tAxis nslots (spsR.getD sps)
    topSamples lv tm t y ≠ [] ∧ botSamples lv tm t y ≠ [] ∧
    o.mu1 = mean (topSamples lv tm t y) ∧ o.s1 = std (topSamples lv tm t y) ∧
    o.mu0 = mean (botSamples lv tm t y) ∧ o.s0 = std (botSamples lv tm t y) ∧
    o.tLeft = tm.tLeft ∧ o.tRight = tm.tRight ∧ o.tOpt = tm.tOpt ∧
    o.i = sampIndex sps spsR (argNearest t tm.tOpt) ∧ o.thr = pdf.map (threshold o.mu0 o.mu1) := by
  simp only [post] at h
  split at h
  · cases h
  · rename_i hc
    simp only [Bool.or_eq_true, List.isEmpty_iff, not_or] at hc
    injection h with h
    subst h
    exact ⟨hc.1, hc.2, rfl, rfl, rfl, rfl, rfl, rfl, rfl, rfl, rfl⟩

/-! ### window statistics -/

/-- all samples of a window (any size ≥ 1) within ε of a level ⇒ |μ − level| ≤ ε and s ≤ ε -/
theorem window_mean_bound (level ε : ℝ) (xs : List ℝ) (hne : xs ≠ []) (h : ∀ x ∈ xs, |x - level| ≤ ε) :
    |mean xs - level| ≤ ε ∧ std xs ≤ ε :=
  mean_std_bound level ε xs hne h

/-- … applied to what GET_EYE returns: if every sample of the central window above (below) the mid level is within ε of
    b (of a), then |mu1 − b| ≤ ε, s1 ≤ ε, |mu0 − a| ≤ ε, s0 ≤ ε -/
theorem levels_recovered (nslots sps : ℕ) (spsR : Option ℕ) (top bot : ℝ × ℝ) (centres : Option ((ℝ × ℝ) × (ℝ × ℝ)))
    (pdf : Option (List ℝ)) (y : List ℝ) (o : Out ℝ) (h : post nslots sps spsR top bot centres pdf y = .ok o)
    (a b ε : ℝ)
    (htop : ∀ v ∈ topSamples (levels top bot) (timing (grid (spsR.getD sps)) centres) (tAxis nslots (spsR.getD sps)) y, |v - b| ≤ ε)
    (hbot : ∀ v ∈ botSamples (levels top bot) (timing (grid (spsR.getD sps)) centres) (tAxis nslots (spsR.getD sps)) y, |v - a| ≤ ε) :
    |o.mu1 - b| ≤ ε ∧ o.s1 ≤ ε ∧ |o.mu0 - a| ≤ ε ∧ o.s0 ≤ ε := by
  obtain ⟨h1, h2, e1, e2, e3, e4, -⟩ := post_ok _ _ _ _ _ _ _ _ o h
  rw [e1, e2, e3, e4]
  exact ⟨(mean_std_bound b ε _ h1 htop).1, (mean_std_bound b ε _ h1 htop).2,
    (mean_std_bound a ε _ h2 hbot).1, (mean_std_bound a ε _ h2 hbot).2⟩

/-- the two estimated levels are always separated by the mid level: mu0 < y_center < mu1 (whenever both windows are
    non-empty, i.e. whenever `post` succeeds) -/
theorem mu0_lt_mu1 (nslots sps : ℕ) (spsR : Option ℕ) (top bot : ℝ × ℝ) (centres : Option ((ℝ × ℝ) × (ℝ × ℝ)))
    (pdf : Option (List ℝ)) (y : List ℝ) (o : Out ℝ) (h : post nslots sps spsR top bot centres pdf y = .ok o) :
    o.mu0 < (levels top bot).yCenter ∧ (levels top bot).yCenter < o.mu1 ∧ o.mu0 < o.mu1 := by
  obtain ⟨h1, h2, e1, -, e3, -⟩ := post_ok _ _ _ _ _ _ _ _ o h
  have hb := mean_lt _ _ h2 (fun v hv => mem_botSamples _ _ _ _ v hv)
  have ht := mean_gt _ _ h1 (fun v hv => mem_topSamples _ _ _ _ v hv)
  rw [e1, e3]
  exact ⟨hb, ht, hb.trans ht⟩

/-- the threshold is one of the `linspace(mu0, mu1, ·)` points, hence mu0 ≤ threshold ≤ mu1 -/
theorem threshold_between_levels (nslots sps : ℕ) (spsR : Option ℕ) (top bot : ℝ × ℝ)
    (centres : Option ((ℝ × ℝ) × (ℝ × ℝ))) (p : List ℝ) (hp : p ≠ []) (y : List ℝ) (o : Out ℝ)
    (h : post nslots sps spsR top bot centres (some p) y = .ok o) :
    ∃ thr, o.thr = some thr ∧ o.mu0 ≤ thr ∧ thr ≤ o.mu1 := by
  have hlt := (mu0_lt_mu1 _ _ _ _ _ _ _ _ o h).2.2
  obtain ⟨-, -, -, -, -, -, -, -, -, -, e⟩ := post_ok _ _ _ _ _ _ _ _ o h
  refine ⟨threshold o.mu0 o.mu1 p, by simpa using e, ?_⟩
  exact threshold_between o.mu0 o.mu1 hlt.le p hp

/-! ### unit independence -/

/-- how the outputs must transform under y ↦ αy + β -/
def outAff (α β : ℝ) (o : Out ℝ) : Out ℝ :=
  { o with state0 := aff α β o.state0, state1 := aff α β o.state1, mu0 := aff α β o.mu0, mu1 := aff α β o.mu1,
           s0 := α * o.s0, s1 := α * o.s1, thr := o.thr.map (aff α β), eyeH := α * o.eyeH }

/-- the rows handed to the second KMeans (time, amplitude normalised to the eye amplitude) are literally identical for
    y and αy + β: a deterministic clustering therefore returns identical centres — the hypothesis of `affine_equivariance` -/
theorem kmeans_input_invariant {α : ℝ} (hα : 0 < α) (β : ℝ) (top bot : ℝ × ℝ) (t y : List ℝ) :
    tyPoints (levels (affPair α β top) (affPair α β bot)) t (y.map (aff α β)) = tyPoints (levels top bot) t y :=
  tyPoints_aff hα β top bot t y

/-- a pdf that is rescaled by a positive factor (what a change of units does to a density) keeps its argmin -/
theorem pdf_argmin_invariant (c : ℝ) (hc : 0 < c) (pdf : List ℝ) : argmin (pdf.map (fun x => c * x)) = argmin pdf :=
  argmin_scale c hc pdf

/-- scaling the waveform by α > 0 and offsetting it by β — with the two shortest intervals mapped likewise (C18), the same
    cluster centres and a pdf with the same length and argmin — maps (state0, state1, mu0, mu1, threshold) to α·+β, scales
    (s0, s1, eye_h) by α and leaves t_left, t_right, t_opt, t_dist, the window and the sampling index unchanged; the error
    branch (an empty window) is preserved -/
theorem affine_equivariance {α : ℝ} (hα : 0 < α) (β : ℝ) (nslots sps : ℕ) (spsR : Option ℕ) (top bot : ℝ × ℝ)
    (centres : Option ((ℝ × ℝ) × (ℝ × ℝ))) (pdf pdf' : Option (List ℝ)) (y : List ℝ)
    (hpdf : ∀ p, pdf = some p → p ≠ [])
    (hrel : pdf'.map (fun p => (p.length, argmin p)) = pdf.map (fun p => (p.length, argmin p))) :
    post nslots sps spsR (affPair α β top) (affPair α β bot) centres pdf' (y.map (aff α β))
      = (post nslots sps spsR top bot centres pdf y).map (outAff α β) := by
  simp only [post, topSamples_aff hα, botSamples_aff hα, List.isEmpty_map]
  by_cases hc : ((topSamples (levels top bot) (timing (grid (spsR.getD sps)) centres) (tAxis nslots (spsR.getD sps)) y).isEmpty
      || (botSamples (levels top bot) (timing (grid (spsR.getD sps)) centres) (tAxis nslots (spsR.getD sps)) y).isEmpty) = true
  · rw [if_pos hc, if_pos hc]
    rfl
  · rw [if_neg hc, if_neg hc]
    change Except.ok _ = Except.ok (outAff α β _)
    simp only [Bool.or_eq_true, List.isEmpty_iff, not_or] at hc
    obtain ⟨h1, h2⟩ := hc
    have hm1 : mean (List.map (aff α β) _) = aff α β (mean _) := mean_affine α β _ h1
    have hm0 : mean (List.map (aff α β) _) = aff α β (mean _) := mean_affine α β _ h2
    have hs1 : std (List.map (aff α β) _) = α * std _ := std_affine α β hα.le _ h1
    have hs0 : std (List.map (aff α β) _) = α * std _ := std_affine α β hα.le _ h2
    simp only [hm1, hm0, hs1, hs0, levels_aff, outAff, Except.ok.injEq, Out.mk.injEq, true_and]
    refine ⟨?_, ?_⟩
    · -- threshold
      cases pdf with
      | none =>
        cases pdf' with
        | none => rfl
        | some p' => simp at hrel
      | some p =>
        cases pdf' with
        | none => simp at hrel
        | some p' =>
          simp only [Option.map_some, Option.some.injEq, Prod.mk.injEq] at hrel
          simp only [Option.map_some, Option.some.injEq]
          have := threshold_aff α β (mean (botSamples (levels top bot) (timing (grid (spsR.getD sps)) centres)
            (tAxis nslots (spsR.getD sps)) y)) (mean (topSamples (levels top bot) (timing (grid (spsR.getD sps)) centres)
            (tAxis nslots (spsR.getD sps)) y)) p p' (hpdf p rfl) hrel.1 hrel.2
          exact this
    · simp only [aff]; ring

/-! ### the sampling index -/

/-- the snapped instants are grid points -/
theorem timing_on_grid (s : ℕ) (hs : 1 ≤ s) (c : (ℝ × ℝ) × (ℝ × ℝ)) :
    (timing (grid s) (some c)).tLeft ∈ (grid s : List ℝ) ∧ (timing (grid s) (some c)).tRight ∈ (grid s : List ℝ) ∧
    (timing (grid s) (some c)).tOpt ∈ (grid s : List ℝ) := by
  have hne : (grid s : List ℝ) ≠ [] := by
    intro h
    have := length_grid s
    rw [h] at this
    simp at this
    omega
  simp only [timing]
  exact ⟨findNearest_mem _ hne _, findNearest_mem _ hne _, findNearest_mem _ hne _⟩

/-- `t_opt` is a grid point nearest to the mean of the two crossing-time centres, `t_left`/`t_right` nearest to the
    smaller/larger one: the optimum instant is midway between the crossings up to the snapping -/
theorem t_opt_nearest_midpoint (s : ℕ) (hs : 1 ≤ s) (c : (ℝ × ℝ) × (ℝ × ℝ)) :
    ∀ l ∈ (grid s : List ℝ), |(timing (grid s) (some c)).tOpt - (c.1.1 + c.2.1) / 2| ≤ |l - (c.1.1 + c.2.1) / 2| := by
  have hne : (grid s : List ℝ) ≠ [] := by
    intro h
    have := length_grid s
    rw [h] at this
    simp at this
    omega
  intro l hl
  have := findNearest_nearest _ hne ((c.1.1 + c.2.1) / 2) l hl
  simpa only [timing, two_real] using this

/-- the optimum instant is midway between the crossings up to the snapping: if both crossing-time centres lie in the span
    of the grid, |t_opt − (t_left + t_right)/2| ≤ one grid step 1/s (each snapping moves by at most half a step) -/
theorem t_opt_midway (s : ℕ) (hs : 1 ≤ s) (c : (ℝ × ℝ) × (ℝ × ℝ))
    (h1 : -1 ≤ c.1.1 ∧ c.1.1 ≤ 1 - 1 / (s : ℝ)) (h2 : -1 ≤ c.2.1 ∧ c.2.1 ≤ 1 - 1 / (s : ℝ)) :
    |(timing (grid s) (some c)).tOpt - ((timing (grid s) (some c)).tLeft + (timing (grid s) (some c)).tRight) / 2|
      ≤ 1 / (s : ℝ) := by
  have hs' : (0 : ℝ) < (s : ℝ) := by exact_mod_cast hs
  simp only [timing, two_real, Cmp.lt_real]
  have hm := findNearest_close s hs ((c.1.1 + c.2.1) / 2) (by linarith [h1.1, h2.1]) (by linarith [h1.2, h2.2])
  have e : 1 / (s : ℝ) = 1 / (2 * (s : ℝ)) + (1 / (2 * (s : ℝ)) + 1 / (2 * (s : ℝ))) / 2 := by field_simp; ring
  by_cases hlt : c.2.1 < c.1.1
  · have hn : ¬ c.1.1 < c.2.1 := not_lt.mpr hlt.le
    simp only [hlt, hn, ↓reduceIte]
    have ha := findNearest_close s hs c.2.1 h2.1 h2.2
    have hb := findNearest_close s hs c.1.1 h1.1 h1.2
    rw [abs_le] at ha hb hm ⊢
    rw [e]
    constructor <;> linarith [ha.1, ha.2, hb.1, hb.2, hm.1, hm.2]
  · by_cases hgt : c.1.1 < c.2.1
    · simp only [hlt, hgt, ↓reduceIte]
      have ha := findNearest_close s hs c.1.1 h1.1 h1.2
      have hb := findNearest_close s hs c.2.1 h2.1 h2.2
      rw [abs_le] at ha hb hm ⊢
      rw [e]
      constructor <;> linarith [ha.1, ha.2, hb.1, hb.2, hm.1, hm.2]
    · simp only [hlt, hgt, ↓reduceIte]
      have heq : c.2.1 = c.1.1 := le_antisymm (not_lt.mp hgt) (not_lt.mp hlt)
      have ha := findNearest_close s hs c.1.1 h1.1 h1.2
      have e2 : (c.1.1 + c.1.1) / 2 = c.1.1 := by ring
      rw [heq, e2] at hm ⊢
      rw [abs_le] at ha hm ⊢
      rw [e]
      constructor <;> linarith [ha.1, ha.2, hm.1, hm.2]

/-- with resampling to `r` samples per slot: if `t_opt` is the k-th point of the two-slot grid and lies in the central
    slot, `r/2 − 1 ≤ k < 3r/2 − 1` (i.e. −½ − 1/r ≤ t_opt < ½ − 1/r), the sampling index is an integer in [0, sps) -/
theorem index_in_range (nslots sps r : ℕ) (hr : 1 ≤ r) (hsps : 0 < sps) (hn : 2 ≤ nslots) (k : ℕ) (hk : k < 2 * r)
    (h1 : r / 2 ≤ k + 1) (h2 : k + 1 < r + r / 2) :
    let tOpt : ℝ := (grid r : List ℝ).getD k 0
    tOpt = -1 + (k : ℝ) / r ∧
    0 ≤ sampIndex sps (some r) (argNearest (tAxis nslots r) tOpt) ∧
    sampIndex sps (some r) (argNearest (tAxis nslots r) tOpt) < sps := by
  intro tOpt
  have := sampIndex_range_some sps r k (by omega) h1 h2
  refine ⟨grid_getD r hr k hk, ?_, ?_⟩
  · simp only [tOpt, argNearest_grid nslots r hr hn k hk]; exact this.1
  · simp only [tOpt, argNearest_grid nslots r hr hn k hk]; exact this.2 hsps

/-- without resampling -/
theorem index_in_range_noresample (nslots sps : ℕ) (hsps : 1 ≤ sps) (hn : 2 ≤ nslots) (k : ℕ) (hk : k < 2 * sps)
    (h1 : sps / 2 ≤ k + 1) (h2 : k + 1 < sps + sps / 2) :
    0 ≤ sampIndex sps none (argNearest (tAxis nslots sps) ((grid sps : List ℝ).getD k 0)) ∧
    sampIndex sps none (argNearest (tAxis nslots sps) ((grid sps : List ℝ).getD k 0)) < sps := by
  rw [argNearest_grid nslots sps hsps hn k hk]
  exact sampIndex_range_none sps k h1 h2

/-- the default instant of the error branch (t_opt = 0, the `r`-th grid point) gives i = ⌊(r/2 + 1)·sps/r⌋ ∈ [0, sps) for r ≥ 4 -/
theorem index_default_in_range (nslots sps r : ℕ) (hr : 4 ≤ r) (hsps : 0 < sps) (hn : 2 ≤ nslots) :
    (grid r : List ℝ).getD r 0 = 0 ∧
    0 ≤ sampIndex sps (some r) (argNearest (tAxis nslots r) ((grid r : List ℝ).getD r 0)) ∧
    sampIndex sps (some r) (argNearest (tAxis nslots r) ((grid r : List ℝ).getD r 0)) < sps := by
  obtain ⟨e, h1, h2⟩ := index_in_range nslots sps r (by omega) hsps hn r (by omega) (by omega) (by omega)
  refine ⟨?_, h1, h2⟩
  rw [e]
  have : (r : ℝ) ≠ 0 := by positivity
  field_simp
  ring

/-! ### before the resampling -/

/-- the slot count fits the record and the rolled record has exactly nslots·sps samples -/
theorem pre_shape {α} (len sps nslotsArg : ℕ) (xs : List α) (hlen : xs.length = len) :
    nslotsOf len sps nslotsArg * sps ≤ len ∧
    (preRoll sps (nslotsOf len sps nslotsArg) xs).length = nslotsOf len sps nslotsArg * sps := by
  have h1 : nslotsOf len sps nslotsArg * sps ≤ len := by
    simp only [nslotsOf]
    calc min ((len - len % (2 * sps)) / sps) nslotsArg * sps ≤ (len - len % (2 * sps)) / sps * sps :=
          Nat.mul_le_mul_right _ (Nat.min_le_left _ _)
      _ ≤ len - len % (2 * sps) := Nat.div_mul_le_self _ _
      _ ≤ len := Nat.sub_le _ _
  refine ⟨h1, ?_⟩
  simp only [preRoll, Fourier.length_rot, List.length_take, hlen]
  omega

/-! ### non-vacuity -/

/-- a window satisfying the hypothesis of `window_mean_bound` -/
example : |mean ([0.9, 1.1, 1.0] : List ℝ) - 1| ≤ 0.1 ∧ std ([0.9, 1.1, 1.0] : List ℝ) ≤ 0.1 :=
  window_mean_bound 1 0.1 _ (by simp) (by
    intro x hx
    simp only [List.mem_cons, List.not_mem_nil, or_false] at hx
    rcases hx with rfl | rfl | rfl <;> rw [abs_le] <;> constructor <;> norm_num)

/-- the hypotheses of `index_in_range` hold for the centre of the eye with the statement's parameters (r = 128, sps = 16) -/
example : 0 ≤ sampIndex 16 (some 128) (argNearest (tAxis 64 128) ((grid 128 : List ℝ).getD 128 0)) ∧
    sampIndex 16 (some 128) (argNearest (tAxis 64 128) ((grid 128 : List ℝ).getD 128 0)) < 16 :=
  (index_in_range 64 16 128 (by norm_num) (by norm_num) (by norm_num) 128 (by norm_num) (by norm_num) (by norm_num)).2

end OptiVerif.Props.C17
