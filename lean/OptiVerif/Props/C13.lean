/-
C13 — analytic BER and receiver-noise formulas match closed forms and each other.
Property theorems only (helper lemmas: `Lemmas/Ber.lean`, `Lemmas/BerAlg.lean`, `Lemmas/BerGauss.lean`, `Lemmas/BerSoft.lean`, `Lemmas/BerConv.lean`, `Lemmas/Pd.lean`).

The objects are the generic definitions of `Model/Ber.lean` read at `R := ℝ` — the same definitions the driver runs at `Float`
against `ook.py`, `ppm.py`, `utils.py`.  The Gaussian tail is a parameter `Q` with `QSpec Q` (antitone, `Q x + Q (-x) = 1`,
`0 ≤ Q ≤ 1`); `gaussQ_spec` shows that the tail of the standard normal law satisfies it.  The scalar formulas of the receiver
model (both code paths: `average_voltages`/`noise_variances` and the inner function of `utils.theory_BER`), of
`optimum_threshold`, the grid sizes, EDFA's `P_ase` and PD's variances are translated from the source on every run
(`Gen/BerFormulas.lean`, `Gen/PdTable.lean`).  Physical constants `kB`, `e`, `h`, `c` are parameters.
-/
import OptiVerif.Lemmas.BerGauss
import OptiVerif.Lemmas.BerSoft
import OptiVerif.Lemmas.BerAlg
import OptiVerif.Lemmas.BerConv
import OptiVerif.Lemmas.Pd

set_option linter.unusedVariables false
set_option linter.unusedSimpArgs false
set_option linter.unnecessarySeqFocus false

namespace OptiVerif.Props.C13
open OptiVerif OptiVerif.Ber OptiVerif.Gen

/-! ### the specification of `Q` is satisfiable -/

/-- the Gaussian tail `x ↦ N(0,1)(x, ∞)` is antitone, satisfies `Q x + Q (-x) = 1` and takes values in `[0,1]` -/
theorem gaussQ_spec : QSpec gQ := gQ_spec

/-- the grids searched for the threshold: 1000 points in `ook.py` / `ppm.py`, 5000 in `utils.theory_BER` -/
theorem grids_documented :
    BerFormulas.ookThresholdGrid = 1000 ∧ BerFormulas.ookTheoryGrid = 1000 ∧ BerFormulas.ppmThresholdGrid = 1000 ∧
      BerFormulas.ppmTheoryGrid = 1000 ∧ BerFormulas.utilsGrid = 5000 := ⟨rfl, rfl, rfl, rfl, rfl⟩

/-! ### OOK, equal sigmas -/

/-- the objective of the OOK threshold search at the midpoint is `Q(Δ/2s)`, `Δ = μ1 − μ0` (any `Q`) -/
theorem ook_equal_sigma_value (Q : ℝ → ℝ) (mu0 mu1 s : ℝ) :
    ookObj Q mu0 mu1 s s ((mu0 + mu1) / 2) = Q ((mu1 - mu0) / (2 * s)) := by
  simp only [ookObj, half_real]
  have h1 : (mu1 - (mu0 + mu1) / 2) / s = (mu1 - mu0) / (2 * s) := by
    rw [show mu1 - (mu0 + mu1) / 2 = (mu1 - mu0) / 2 by ring, div_div]
  have h2 : ((mu0 + mu1) / 2 - mu0) / s = (mu1 - mu0) / (2 * s) := by
    rw [show (mu0 + mu1) / 2 - mu0 = (mu1 - mu0) / 2 by ring, div_div]
  rw [h1, h2]; ring

/-- the same for the summand minimised by `ook.theory_BER(mu, s, s)`: `0.5·(Q((μ−r)/s) + Q(r/s))` at `r = μ/2` is `Q(μ/2s)` -/
theorem ook_theory_equal_sigma_value (Q : ℝ → ℝ) (mu s : ℝ) :
    (1 / 2 : ℝ) * ookSum Q mu s s (mu / 2) = Q (mu / (2 * s)) := by
  simp only [ookSum]
  have h1 : (mu - mu / 2) / s = mu / (2 * s) := by rw [show mu - mu / 2 = mu / 2 by ring, div_div]
  have h2 : mu / 2 / s = mu / (2 * s) := by rw [div_div]
  rw [h1, h2]; ring

/-- for equal sigmas the objective is symmetric about the midpoint of the levels (needs `Q` only as a function) -/
theorem ook_objective_symmetric (Q : ℝ → ℝ) (mu0 mu1 s r : ℝ) :
    ookObj Q mu0 mu1 s s (mu0 + mu1 - r) = ookObj Q mu0 mu1 s s r := by
  simp only [ookObj]
  have h1 : mu1 - (mu0 + mu1 - r) = r - mu0 := by ring
  have h2 : mu0 + mu1 - r - mu0 = mu1 - r := by ring
  rw [h1, h2]; ring

/-- **ook_threshold_mid** (what can be proved from `QSpec`-free algebra): for equal sigmas the grid searched by
    `THRESHOLD_EST` is symmetric about the midpoint and the list of objective values over it is a palindrome — so the set of
    minimising grid points is symmetric about the midpoint (with the code's even number of points: the two central points tie)
    -/
theorem ook_threshold_mid (Q : ℝ → ℝ) (mu0 mu1 s : ℝ) :
    (linspace mu0 mu1 BerFormulas.ookThresholdGrid).reverse =
        (linspace mu0 mu1 BerFormulas.ookThresholdGrid).map (fun r => mu0 + mu1 - r) ∧
      ((linspace mu0 mu1 BerFormulas.ookThresholdGrid).map (ookObj Q mu0 mu1 s s)).reverse =
        (linspace mu0 mu1 BerFormulas.ookThresholdGrid).map (ookObj Q mu0 mu1 s s) := by
  have hrev := linspace_reverse mu0 mu1 BerFormulas.ookThresholdGrid (by decide)
  refine ⟨hrev, ?_⟩
  rw [← List.map_reverse, hrev, List.map_map]
  apply List.map_congr_left
  intro r _
  exact ook_objective_symmetric Q mu0 mu1 s r

/-! ### grid minima never undercut the true minimum -/

/-- every point of every threshold grid lies in the interval it discretises -/
theorem grid_subset_interval (a b : ℝ) (hab : a ≤ b) (n : ℕ) : ∀ r ∈ linspace a b n, r ∈ Set.Icc a b :=
  fun r hr => linspace_mem_Icc a b hab n r hr

/-- **grid_min_ge_inf**: the minimum of any objective over the grid is ≥ every lower bound of the objective on the interval,
    hence ≥ its infimum there -/
theorem grid_min_ge_inf (f : ℝ → ℝ) (a b : ℝ) (hab : a ≤ b) (n : ℕ) (v : ℝ) (hv : minL ((linspace a b n).map f) = some v) :
    (∀ m, (∀ r ∈ Set.Icc a b, m ≤ f r) → m ≤ v) ∧ (BddBelow (f '' Set.Icc a b) → sInf (f '' Set.Icc a b) ≤ v) := by
  have hmem := minL_mem hv
  obtain ⟨r, hr, rfl⟩ := List.mem_map.mp hmem
  have hI := grid_subset_interval a b hab n r hr
  exact ⟨fun m hm => hm r hI, fun hb => csInf_le hb ⟨r, hI, rfl⟩⟩

/-- `ook.theory_BER(mu, s0, s1)` is never below the true minimum over thresholds of the two-Gaussian error integral -/
theorem ook_theory_ge_inf (Q : ℝ → ℝ) (mu s0 s1 v : ℝ) (hmu : 0 ≤ mu) (hv : ookTheory Q mu s0 s1 = some v) :
    ∀ m, (∀ r ∈ Set.Icc 0 mu, m ≤ 1 / 2 * ookSum Q mu s0 s1 r) → m ≤ v := by
  intro m hm
  obtain ⟨w, hmin, rfl⟩ := ookTheory_some hv
  obtain ⟨r, hr, rfl⟩ := List.mem_map.mp (minL_mem hmin)
  exact hm r (grid_subset_interval 0 mu hmu _ r hr)

/-- the value returned by `BER_analizer('estimator')` is the grid minimum of its objective (so it, too, is ≥ the true minimum),
    attained at the returned threshold -/
theorem ook_estimator_is_grid_min (Q : ℝ → ℝ) (mu0 mu1 s0 s1 : ℝ) :
    ∃ t, ookThreshold Q mu0 mu1 s0 s1 = some t ∧ ookEstimator Q mu0 mu1 s0 s1 = some (ookObj Q mu0 mu1 s0 s1 t) ∧
      minL ((linspace mu0 mu1 BerFormulas.ookThresholdGrid).map (ookObj Q mu0 mu1 s0 s1)) = some (ookObj Q mu0 mu1 s0 s1 t) := by
  have hne : linspace mu0 mu1 BerFormulas.ookThresholdGrid ≠ [] := by
    intro h
    have := length_linspace mu0 mu1 BerFormulas.ookThresholdGrid
    rw [h] at this
    exact absurd this (by decide)
  obtain ⟨t, ht⟩ := argminOn_isSome (ookObj Q mu0 mu1 s0 s1) _ hne
  refine ⟨t, ht, ?_, (argminOn_spec _ _ t ht).2⟩
  simp only [ookEstimator, ookThreshold, ht, Option.map_some]

/-! ### bounds -/

/-- **ber_bound, OOK**: `0 ≤ ook.theory_BER ≤ M/(2(M−1)) = 1`, and even `≤ 1/2` for `μ ≥ 0`, `s1 > 0` -/
theorem ook_theory_bounds {Q : ℝ → ℝ} (hQ : QSpec Q) (mu s0 s1 v : ℝ) (hv : ookTheory Q mu s0 s1 = some v) :
    0 ≤ v ∧ v ≤ 1 ∧ (0 ≤ mu → 0 < s1 → v ≤ 1 / 2) := by
  obtain ⟨w, hmin, rfl⟩ := ookTheory_some hv
  obtain ⟨r, hr, hw⟩ := List.mem_map.mp (minL_mem hmin)
  have hb := ookSum_bounds hQ mu s0 s1 r
  rw [hw] at hb
  refine ⟨by linarith [hb.1], by linarith [hb.2], ?_⟩
  intro hmu hs1
  -- the grid contains r = 0, where the summand is Q(mu/s1) + Q(0) ≤ 1/2 + 1/2
  have h0 : (0 : ℝ) ∈ linspace 0 mu BerFormulas.ookTheoryGrid := by
    rw [linspace_real 0 mu _ (by decide : 2 ≤ BerFormulas.ookTheoryGrid)]
    exact List.mem_map.mpr ⟨0, by simp [BerFormulas.ookTheoryGrid], by simp⟩
  have hle := minL_le hmin (ookSum Q mu s0 s1 0) (List.mem_map.mpr ⟨0, h0, rfl⟩)
  have hq1 : Q ((mu - 0) / s1) ≤ 1 / 2 := by
    rw [← hQ.zero]
    exact hQ.anti (by rw [sub_zero]; positivity)
  have hq0 : Q (0 / s0) = 1 / 2 := by rw [zero_div]; exact hQ.zero
  simp only [ookSum] at hle
  linarith

/-- **ber_bound, PPM hard decision**: `0 ≤ ppm.theory_BER(…, 'hard') ≤ M/(2(M−1))` -/
theorem ppm_theory_hard_bounds {Q : ℝ → ℝ} (hQ : QSpec Q) (M : ℕ) (hM : 2 ≤ M) (mu s0 s1 I v : ℝ)
    (hv : ppmTheory Q M .hard mu s0 s1 I = .ok (some v)) : 0 ≤ v ∧ v ≤ (M : ℝ) / (2 * ((M : ℝ) - 1)) := by
  obtain ⟨w, hmin, rfl⟩ := ppmTheory_hard_some hv
  obtain ⟨r, _, hw⟩ := List.mem_map.mp (minL_mem hmin)
  have hb := ppm_term_bounds hQ M ((r - mu) / s1) (r / s0)
  rw [hw] at hb
  exact ppmFactorTheory_bounds M hM w hb.1 hb.2

/-- **ber_bound, PPM soft decision**: whatever `quad` returns within `[0, √(2π)]` — the range of the Gaussian-weighted
    integral, `soft_integral_bounds` — the BER lies in `[0, M/(2(M−1))]` (both `theory_BER` and the estimator) -/
theorem ppm_soft_bounds (Q : ℝ → ℝ) (M : ℕ) (hM : 2 ≤ M) (mu0 mu1 s0 s1 I v : ℝ) (hI0 : 0 ≤ I) (hI1 : I ≤ Real.sqrt (2 * Real.pi)) :
    (ppmTheory Q M .soft mu1 s0 s1 I = .ok (some v) → 0 ≤ v ∧ v ≤ (M : ℝ) / (2 * ((M : ℝ) - 1))) ∧
      (ppmEstimator Q M .soft mu0 mu1 s0 s1 I = .ok (some v) → 0 ≤ v ∧ v ≤ (M : ℝ) / (2 * ((M : ℝ) - 1))) := by
  have hs : 0 < Real.sqrt (2 * Real.pi) := Real.sqrt_pos.mpr (by positivity)
  have hsf : 0 ≤ (softFrom I : ℝ) ∧ (softFrom I : ℝ) ≤ 1 := by
    simp only [softFrom, lit_real, Nat.cast_one, Nat.cast_ofNat, Transc.sqrt_real, Transc.pi_real]
    have : 1 / Real.sqrt (2 * Real.pi) * I = I / Real.sqrt (2 * Real.pi) := by ring
    rw [this]
    constructor
    · have : I / Real.sqrt (2 * Real.pi) ≤ 1 := (div_le_one hs).mpr hI1
      linarith
    · have : 0 ≤ I / Real.sqrt (2 * Real.pi) := by positivity
      linarith
  constructor
  · intro h
    unfold ppmTheory at h
    split at h
    · simp at h
    · simp only [Except.ok.injEq, Option.some.injEq] at h
      subst h
      exact ppmFactorTheory_bounds M hM _ hsf.1 hsf.2
  · intro h
    unfold ppmEstimator at h
    split at h
    · simp at h
    · simp only [Except.ok.injEq, Option.some.injEq] at h
      subst h
      exact ppmFactorEst_bounds M hM _ hsf.1 hsf.2

/-- the exact integral of the integrand handed to `quad` does lie in `[0, √(2π)]` for every `Q` with `QSpec` -/
theorem soft_integral_bounds {Q : ℝ → ℝ} (hQ : QSpec Q) (M : ℕ) (d s0 s1 : ℝ) :
    0 ≤ ∫ x, softIntegrand Q M d s0 s1 x ∧ ∫ x, softIntegrand Q M d s0 s1 x ≤ Real.sqrt (2 * Real.pi) :=
  soft_integral_bounds_aux hQ M d s0 s1

/-- **ber_bound, PPM estimator (hard)** -/
theorem ppm_estimator_hard_bounds {Q : ℝ → ℝ} (hQ : QSpec Q) (M : ℕ) (hM : 2 ≤ M) (mu0 mu1 s0 s1 I v : ℝ)
    (hv : ppmEstimator Q M .hard mu0 mu1 s0 s1 I = .ok (some v)) : 0 ≤ v ∧ v ≤ (M : ℝ) / (2 * ((M : ℝ) - 1)) := by
  unfold ppmEstimator at hv
  split at hv
  · simp at hv
  · simp only at hv
    cases ht : ppmThreshold Q M mu0 mu1 s0 s1 with
    | error e => simp [ht] at hv
    | ok um =>
      simp only [ht, Except.ok.injEq] at hv
      cases um with
      | none => simp at hv
      | some u =>
        simp only [Option.map_some, Option.some.injEq] at hv
        subst hv
        have hb := ppm_term_bounds hQ M ((u - mu1) / s1) ((u - mu0) / s0)
        have : ppmObj Q M mu0 mu1 s0 s1 u = 1 - Q ((u - mu1) / s1) * (1 - Q ((u - mu0) / s0)) ^ (M - 1) := by
          simp [ppmObj, powNat_real]
        rw [this]
        exact ppmFactorEst_bounds M hM _ hb.1 hb.2

/-! ### monotone in μ -/

/-- **non-increasing in μ** (OOK): the grid points scale with μ (`r_k = c_k μ`, `0 ≤ c_k ≤ 1`), each summand is antitone in μ,
    hence so is the grid minimum `ook.theory_BER(μ, s0, s1)` -/
theorem ook_theory_antitone_mu {Q : ℝ → ℝ} (hQ : QSpec Q) (mu mu' s0 s1 v v' : ℝ) (hs0 : 0 < s0) (hs1 : 0 < s1)
    (h0 : 0 ≤ mu) (hle : mu ≤ mu') (hv : ookTheory Q mu s0 s1 = some v) (hv' : ookTheory Q mu' s0 s1 = some v') : v' ≤ v := by
  obtain ⟨w, hmin, rfl⟩ := ookTheory_some hv
  obtain ⟨w', hmin', rfl⟩ := ookTheory_some hv'
  have hn : (2 : ℕ) ≤ BerFormulas.ookTheoryGrid := by decide
  have hww : w' ≤ w := by
    apply minL_mono _ hmin' hmin
    rw [linspace_zero mu' _ hn, linspace_zero mu _ hn, List.map_map, List.map_map]
    rw [List.forall₂_map_left_iff, List.forall₂_map_right_iff]
    apply List.forall₂_same.mpr
    intro k hk
    simp only [Function.comp, ookSum]
    have hk' : k < BerFormulas.ookTheoryGrid := List.mem_range.mp hk
    have hden : (0 : ℝ) < (BerFormulas.ookTheoryGrid : ℝ) - 1 := by norm_num [BerFormulas.ookTheoryGrid]
    have hc0 : 0 ≤ (k : ℝ) / ((BerFormulas.ookTheoryGrid : ℝ) - 1) := by positivity
    have hc1 : (k : ℝ) / ((BerFormulas.ookTheoryGrid : ℝ) - 1) ≤ 1 := by
      rw [div_le_one hden]
      have : (k : ℝ) + 1 ≤ (BerFormulas.ookTheoryGrid : ℝ) := by exact_mod_cast hk'
      linarith
    generalize (k : ℝ) / ((BerFormulas.ookTheoryGrid : ℝ) - 1) = c at hc0 hc1
    have e1 : (mu - c * mu) / s1 ≤ (mu' - c * mu') / s1 := by
      apply div_le_div_of_nonneg_right _ hs1.le
      nlinarith
    have e2 : c * mu / s0 ≤ c * mu' / s0 := by
      apply div_le_div_of_nonneg_right _ hs0.le
      nlinarith
    linarith [hQ.anti e1, hQ.anti e2]
  linarith

/-- `ppm.theory_BER(…, 'hard')` is never below `M/(2(M−1))` times the true minimum over thresholds of the symbol-error
    probability -/
theorem ppm_theory_hard_ge_inf (Q : ℝ → ℝ) (M : ℕ) (mu s0 s1 I v : ℝ) (hmu : 0 ≤ mu)
    (hv : ppmTheory Q M .hard mu s0 s1 I = .ok (some v)) :
    ∀ m, (∀ r ∈ Set.Icc 0 mu, m ≤ 1 - Q ((r - mu) / s1) * (1 - Q (r / s0)) ^ (M - 1)) →
      ∃ w, m ≤ w ∧ v = ppmFactorTheory M w := by
  intro m hm
  obtain ⟨w, hmin, rfl⟩ := ppmTheory_hard_some hv
  obtain ⟨r, hr, rfl⟩ := List.mem_map.mp (minL_mem hmin)
  exact ⟨_, hm r (grid_subset_interval 0 mu hmu _ r hr), rfl⟩

/-- **non-increasing in μ** (PPM, hard decision) -/
theorem ppm_theory_hard_antitone_mu {Q : ℝ → ℝ} (hQ : QSpec Q) (M : ℕ) (hM : 2 ≤ M) (mu mu' s0 s1 I I' v v' : ℝ)
    (hs0 : 0 < s0) (hs1 : 0 < s1) (h0 : 0 ≤ mu) (hle : mu ≤ mu') (hv : ppmTheory Q M .hard mu s0 s1 I = .ok (some v))
    (hv' : ppmTheory Q M .hard mu' s0 s1 I' = .ok (some v')) : v' ≤ v := by
  obtain ⟨w, hmin, rfl⟩ := ppmTheory_hard_some hv
  obtain ⟨w', hmin', rfl⟩ := ppmTheory_hard_some hv'
  have hn : (2 : ℕ) ≤ BerFormulas.ppmTheoryGrid := by decide
  have hww : w' ≤ w := by
    apply minL_mono _ hmin' hmin
    rw [linspace_zero mu' _ hn, linspace_zero mu _ hn, List.map_map, List.map_map]
    rw [List.forall₂_map_left_iff, List.forall₂_map_right_iff]
    apply List.forall₂_same.mpr
    intro k hk
    simp only [Function.comp]
    have hk' : k < BerFormulas.ppmTheoryGrid := List.mem_range.mp hk
    have hden : (0 : ℝ) < (BerFormulas.ppmTheoryGrid : ℝ) - 1 := by norm_num [BerFormulas.ppmTheoryGrid]
    have hc0 : 0 ≤ (k : ℝ) / ((BerFormulas.ppmTheoryGrid : ℝ) - 1) := by positivity
    have hc1 : (k : ℝ) / ((BerFormulas.ppmTheoryGrid : ℝ) - 1) ≤ 1 := by
      rw [div_le_one hden]
      have : (k : ℝ) + 1 ≤ (BerFormulas.ppmTheoryGrid : ℝ) := by exact_mod_cast hk'
      linarith
    generalize (k : ℝ) / ((BerFormulas.ppmTheoryGrid : ℝ) - 1) = c at hc0 hc1
    have e1 : (c * mu' - mu') / s1 ≤ (c * mu - mu) / s1 := by
      apply div_le_div_of_nonneg_right _ hs1.le
      nlinarith
    have e2 : c * mu / s0 ≤ c * mu' / s0 := by
      apply div_le_div_of_nonneg_right _ hs0.le
      nlinarith
    have a1 := hQ.anti e1      -- Q((cμ-μ)/s1) ≤ Q((cμ'-μ')/s1)
    have a2 := hQ.anti e2      -- Q(cμ'/s0) ≤ Q(cμ/s0)
    have b0 : 0 ≤ 1 - Q (c * mu / s0) := by linarith [hQ.le_one (c * mu / s0)]
    have hpow : (1 - Q (c * mu / s0)) ^ (M - 1) ≤ (1 - Q (c * mu' / s0)) ^ (M - 1) :=
      pow_le_pow_left₀ b0 (by linarith) _
    have hp0 : 0 ≤ (1 - Q (c * mu / s0)) ^ (M - 1) := pow_nonneg b0 _
    have hq0 := hQ.nonneg ((c * mu - mu) / s1)
    have := mul_le_mul a1 hpow hp0 (le_trans hq0 a1)
    linarith
  have hM' : (2 : ℝ) ≤ (M : ℝ) := by exact_mod_cast hM
  have hpos : 0 < (M : ℝ) - 1 := by linarith
  simp only [ppmFactorTheory, half_real, lit_real, Nat.cast_one]
  apply div_le_div_of_nonneg_right _ hpos.le
  have : 0 ≤ (1 / 2 : ℝ) * (M : ℝ) := by positivity
  nlinarith

/-! ### shift invariance, threshold in range -/

/-- **shift_invariant** (OOK): adding `d` to both levels adds `d` to the threshold and leaves the estimated BER unchanged —
    the estimators depend on `μ1 − μ0`, `s0`, `s1` only -/
theorem ook_shift_invariant (Q : ℝ → ℝ) (mu0 mu1 s0 s1 d : ℝ) :
    ookThreshold Q (mu0 + d) (mu1 + d) s0 s1 = (ookThreshold Q mu0 mu1 s0 s1).map (· + d) ∧
      ookEstimator Q (mu0 + d) (mu1 + d) s0 s1 = ookEstimator Q mu0 mu1 s0 s1 := by
  have hobj : ∀ r, ookObj Q (mu0 + d) (mu1 + d) s0 s1 (r + d) = ookObj Q mu0 mu1 s0 s1 r := by
    intro r
    simp only [ookObj]
    have h1 : mu1 + d - (r + d) = mu1 - r := by ring
    have h2 : r + d - (mu0 + d) = r - mu0 := by ring
    rw [h1, h2]
  have hthr : ookThreshold Q (mu0 + d) (mu1 + d) s0 s1 = (ookThreshold Q mu0 mu1 s0 s1).map (· + d) := by
    simp only [ookThreshold]
    rw [linspace_shift]
    exact argminOn_shift _ _ _ d hobj
  refine ⟨hthr, ?_⟩
  simp only [ookEstimator, hthr, Option.map_map]
  cases ookThreshold Q mu0 mu1 s0 s1 with
  | none => rfl
  | some t => simp [hobj t]

/-- **shift_invariant** (PPM threshold and hard-decision estimator; the soft-decision estimator reads the levels only through
    `I1 − I0`, see `ppm_soft_integrand_shift`) -/
theorem ppm_shift_invariant (Q : ℝ → ℝ) (M : ℕ) (mu0 mu1 s0 s1 d I : ℝ) :
    ppmThreshold Q M (mu0 + d) (mu1 + d) s0 s1 = (ppmThreshold Q M mu0 mu1 s0 s1).map (fun o => o.map (· + d)) ∧
      ppmEstimator Q M .hard (mu0 + d) (mu1 + d) s0 s1 I = ppmEstimator Q M .hard mu0 mu1 s0 s1 I ∧
      ppmEstimator Q M .soft (mu0 + d) (mu1 + d) s0 s1 I = ppmEstimator Q M .soft mu0 mu1 s0 s1 I := by
  have hobj : ∀ r, ppmObj Q M (mu0 + d) (mu1 + d) s0 s1 (r + d) = ppmObj Q M mu0 mu1 s0 s1 r := by
    intro r
    simp only [ppmObj]
    have h1 : r + d - (mu1 + d) = r - mu1 := by ring
    have h2 : r + d - (mu0 + d) = r - mu0 := by ring
    rw [h1, h2]
  have hthr : ppmThreshold Q M (mu0 + d) (mu1 + d) s0 s1 = (ppmThreshold Q M mu0 mu1 s0 s1).map (fun o => o.map (· + d)) := by
    simp only [ppmThreshold]
    split
    · rfl
    · rw [linspace_shift, argminOn_shift _ _ _ d hobj]
      rfl
  refine ⟨hthr, ?_, ?_⟩
  · simp only [ppmEstimator, hthr]
    split
    · rfl
    · cases ppmThreshold Q M mu0 mu1 s0 s1 with
      | error e => rfl
      | ok um =>
        cases um with
        | none => rfl
        | some u => simp [Except.map, hobj u]
  · simp only [ppmEstimator]

/-- the integrand of the soft-decision estimator is built from `I1 − I0` only -/
theorem ppm_soft_integrand_shift (Q : ℝ → ℝ) (M : ℕ) (mu0 mu1 s0 s1 d x : ℝ) :
    softIntegrand Q M ((mu1 + d) - (mu0 + d)) s0 s1 x = softIntegrand Q M (mu1 - mu0) s0 s1 x := by
  have : mu1 + d - (mu0 + d) = mu1 - mu0 := by ring
  rw [this]

/-- **threshold_in_range**: the returned thresholds are grid points, hence in `[μ0, μ1]` -/
theorem threshold_in_range (Q : ℝ → ℝ) (M : ℕ) (mu0 mu1 s0 s1 t : ℝ) (h : mu0 ≤ mu1) :
    (ookThreshold Q mu0 mu1 s0 s1 = some t → mu0 ≤ t ∧ t ≤ mu1) ∧
      (ppmThreshold Q M mu0 mu1 s0 s1 = .ok (some t) → mu0 ≤ t ∧ t ≤ mu1) := by
  constructor
  · intro ht
    exact linspace_mem_Icc mu0 mu1 h _ t (argminOn_spec _ _ t ht).1
  · intro ht
    unfold ppmThreshold at ht
    split at ht
    · simp at ht
    · simp only [Except.ok.injEq] at ht
      exact linspace_mem_Icc mu0 mu1 h _ t (argminOn_spec _ _ t ht).1

/-! ### `optimum_threshold` solves the Gaussian-crossing equation -/

/-- **optimum_threshold_solves**, general branch: for `S0, S1 > 0`, `S0 ≠ S1`, `M ≥ 2` and a non-negative discriminant
    `(μ1−μ0)² + 2(S1−S0)·ln(√S1/√S0·(M−1)) ≥ 0` (the two weighted densities do cross), the value returned by
    `utils.optimum_threshold` solves `(M−1)·N(r;μ0,S0) = N(r;μ1,S1)` -/
theorem optimum_threshold_solves (mu0 mu1 S0 S1 : ℝ) (M : ℕ) (hS0 : 0 < S0) (hS1 : 0 < S1) (hne : S0 ≠ S1) (hM : 2 ≤ M)
    (hD : 0 ≤ (mu1 - mu0) * (mu1 - mu0) + 2 * (S1 - S0) * Real.log (Real.sqrt S1 / Real.sqrt S0 * ((M : ℝ) - 1))) :
    ((M : ℝ) - 1) * normalPdf (optimumThreshold mu0 mu1 S0 S1 M) mu0 S0 = normalPdf (optimumThreshold mu0 mu1 S0 S1 M) mu1 S1 := by
  have hM' : (2 : ℝ) ≤ (M : ℝ) := by exact_mod_cast hM
  have hs0 : 0 < Real.sqrt S0 := Real.sqrt_pos.mpr hS0
  have hs1 : 0 < Real.sqrt S1 := Real.sqrt_pos.mpr hS1
  have hbranch : ¬ (¬ (S1 < S0) ∧ ¬ (S0 < S1)) := by
    intro ⟨h1, h2⟩
    exact hne (le_antisymm (not_lt.mp h1) (not_lt.mp h2))
  apply crossing_of_quadratic _ _ _ _ _ _ hS0 hS1 (by linarith)
  set L := Real.log (Real.sqrt S1 / Real.sqrt S0 * ((M : ℝ) - 1)) with hLdef
  set D := (mu1 - mu0) * (mu1 - mu0) + 2 * (S1 - S0) * L with hDdef
  have hdS : S1 - S0 ≠ 0 := sub_ne_zero.mpr (Ne.symm hne)
  have hX : (Real.sqrt S1 * Real.sqrt S0 * Real.sqrt D) ^ 2 = S1 * S0 * D := by
    rw [mul_pow, mul_pow, Real.sq_sqrt hS1.le, Real.sq_sqrt hS0.le, Real.sq_sqrt hD]
  have hr : optimumThreshold mu0 mu1 S0 S1 M =
      (mu0 * S1 - mu1 * S0 + Real.sqrt S1 * Real.sqrt S0 * Real.sqrt D) / (S1 - S0) := by
    simp only [optimumThreshold, hbranch, if_false, BerFormulas.otGeneral, Transc.sqrt_real, Transc.log_real, Nat.cast_one,
      Nat.cast_ofNat]
    rw [one_div, inv_mul_eq_div]
  rw [hr]
  set X := Real.sqrt S1 * Real.sqrt S0 * Real.sqrt D with hXdef
  have e1 : (mu0 * S1 - mu1 * S0 + X) / (S1 - S0) - mu1 = (S1 * (mu0 - mu1) + X) / (S1 - S0) := by
    field_simp; ring
  have e0 : (mu0 * S1 - mu1 * S0 + X) / (S1 - S0) - mu0 = (S0 * (mu0 - mu1) + X) / (S1 - S0) := by
    field_simp; ring
  rw [e1, e0, div_pow, div_pow]
  have hsq : (S1 - S0) ^ 2 ≠ 0 := pow_ne_zero _ hdS
  field_simp
  rw [hDdef] at hX
  linear_combination (S0 - S1) * hX

/-- non-vacuity of the hypotheses: `S0 = 1`, `S1 = 4`, `M = 4`, levels 0 and 3 -/
example : (0 : ℝ) ≤ (3 - 0) * (3 - 0) + 2 * (4 - 1) * Real.log (Real.sqrt 4 / Real.sqrt 1 * (((4 : ℕ) : ℝ) - 1)) := by
  have h4 : Real.sqrt 4 = 2 := by
    rw [show (4 : ℝ) = 2 ^ 2 by norm_num]; exact Real.sqrt_sq (by norm_num)
  rw [h4, Real.sqrt_one]
  have : 0 ≤ Real.log (2 / 1 * (((4 : ℕ) : ℝ) - 1)) := Real.log_nonneg (by norm_num)
  nlinarith

/-- **optimum_threshold_solves**, equal-variance branch: the returned value is `(μ0+μ1)/2 + S·ln(M−1)/(μ1−μ0)`, it solves
    the crossing equation, and for OOK (`M = 2`) it is the midpoint -/
theorem optimum_threshold_equal (mu0 mu1 S : ℝ) (M : ℕ) (hS : 0 < S) (hmu : mu0 ≠ mu1) (hM : 2 ≤ M) :
    optimumThreshold mu0 mu1 S S M = (mu0 + mu1) / 2 + S * Real.log ((M : ℝ) - 1) / (mu1 - mu0) ∧
      ((M : ℝ) - 1) * normalPdf (optimumThreshold mu0 mu1 S S M) mu0 S = normalPdf (optimumThreshold mu0 mu1 S S M) mu1 S ∧
      optimumThreshold mu0 mu1 S S 2 = (mu0 + mu1) / 2 := by
  have hM' : (2 : ℝ) ≤ (M : ℝ) := by exact_mod_cast hM
  have hval : ∀ K : ℕ, optimumThreshold mu0 mu1 S S K = (mu0 + mu1) / 2 + S * Real.log ((K : ℝ) - 1) / (mu1 - mu0) := by
    intro K
    simp [optimumThreshold, BerFormulas.otEqual]
  refine ⟨hval M, ?_, ?_⟩
  · apply crossing_of_quadratic _ _ _ _ _ _ hS hS (by linarith)
    rw [hval M]
    have hs : Real.sqrt S ≠ 0 := (Real.sqrt_pos.mpr hS).ne'
    rw [div_self hs, one_mul]
    have hd : mu1 - mu0 ≠ 0 := sub_ne_zero.mpr (Ne.symm hmu)
    field_simp
    ring
  · rw [hval 2]
    norm_num

/-! ### one receiver model -/

/-- **receiver_model_consistent**: the ON/OFF levels, the ASE offset and each of the four variance terms (thermal,
    signal–ASE, ASE–ASE, shot) computed inside `utils.theory_BER` are identical to what `average_voltages` /
    `noise_variances` compute, for amplified and unamplified receivers and all parameter values (`f0 = c/wavelength`) -/
theorem receiver_model_consistent (x : Rx ℝ) (pavg M er : ℝ) :
    let tb := tbLevels x pavg M er
    let av := averageVoltages x pavg M er
    tb.1 = av.1 ∧ tb.2.1 = av.2.1 ∧ tb.2.2.1 = av.2.2 ∧
      (∀ mu, tbTerms x tb.2.2.1 tb.2.2.2 mu = nvTerms x av.2.2 mu) ∧
      tbVariances x pavg M er = noiseVariances x pavg M er := by
  cases hamp : x.amplify <;>
    simp [tbLevels, averageVoltages, tbTerms, nvTerms, tbVariances, noiseVariances, pAse, hamp, ofRat_real,
      BerFormulas.tbGNoAmp, BerFormulas.tbLNoAmp, BerFormulas.tbMuAseNoAmp, BerFormulas.paNoAmp,
      BerFormulas.avG, BerFormulas.nvL, BerFormulas.tbL, BerFormulas.tbPon, BerFormulas.avPon, BerFormulas.tbPoff,
      BerFormulas.avPoff, BerFormulas.tbMuOff, BerFormulas.tbMuOn, BerFormulas.avMu, BerFormulas.avMuAse,
      BerFormulas.tbMuAse, BerFormulas.tbPase, BerFormulas.paAmp, BerFormulas.tbTh, BerFormulas.nvTh,
      BerFormulas.tbSigAse, BerFormulas.nvSigAse, BerFormulas.tbAseAse, BerFormulas.nvAseAse, BerFormulas.tbSh,
      BerFormulas.nvSh, BerFormulas.tbS, BerFormulas.nvS]

/-- the documented closed forms of that model: `p_ON = M·p_avg/(1+(M−1)/er)`, `p_OFF = p_ON/er` (mean power over the `M`
    slots is `p_avg` and the ON/OFF ratio is `er`), levels `r·g·p·R_L + μ_ASE`, thermal `4·kB·T·B·R_L·Fn`, shot `2·e·μ·B·R_L`,
    signal–ASE `2·μ_ASE·(μ−μ_ASE)·l`, ASE–ASE `μ_ASE²·(1−l/2)·l` with `l = B_el/B_opt`, all in V² -/
theorem receiver_model_documented (x : Rx ℝ) (pavg M er mu : ℝ) (hamp : x.amplify = true) (her : 0 < er) (hM : 1 ≤ M) :
    let av := averageVoltages x pavg M er
    let pon := BerFormulas.avPon (idbm pavg) M er
    (pon + (M - 1) * (pon / er)) / M = idbm pavg ∧
      av.2.2 = x.r * (idb x.NF * x.h * x.f0 * (idb x.G - 1) * x.BWopt) * x.RL ∧
      av.1 = x.r * idb x.G * (pon / er) * x.RL + av.2.2 ∧ av.2.1 = x.r * idb x.G * pon * x.RL + av.2.2 ∧
      nvTerms x av.2.2 mu = (4 * x.kB * x.T * x.BWel * x.RL * idb x.NFel, 2 * av.2.2 * (mu - av.2.2) * (x.BWel / x.BWopt),
        av.2.2 ^ 2 * (1 - x.BWel / x.BWopt / 2) * (x.BWel / x.BWopt), 2 * x.e * mu * x.BWel * x.RL) := by
  have hden : 0 < 1 + (M - 1) / er := by
    have : 0 ≤ (M - 1) / er := div_nonneg (by linarith) her.le
    linarith
  refine ⟨?_, ?_, ?_, ?_, ?_⟩
  · have hM0 : M ≠ 0 := by linarith
    have h : BerFormulas.avPon (idbm pavg) M er * (1 + (M - 1) / er) = idbm pavg * M := by
      simp only [BerFormulas.avPon, Nat.cast_one]
      exact div_mul_cancel₀ _ hden.ne'
    have : BerFormulas.avPon (idbm pavg) M er + (M - 1) * (BerFormulas.avPon (idbm pavg) M er / er) =
        BerFormulas.avPon (idbm pavg) M er * (1 + (M - 1) / er) := by ring
    rw [this, h]
    field_simp
  · simp [averageVoltages, pAse, hamp, BerFormulas.avMuAse, BerFormulas.paAmp]
  · simp [averageVoltages, pAse, hamp, BerFormulas.avMu, BerFormulas.avG, BerFormulas.avPoff]
  · simp [averageVoltages, pAse, hamp, BerFormulas.avMu, BerFormulas.avG]
  · simp only [nvTerms, hamp, if_true, BerFormulas.nvL, BerFormulas.nvTh, BerFormulas.nvSigAse, BerFormulas.nvAseAse,
      BerFormulas.nvSh, Prod.mk.injEq]
    push_cast
    exact ⟨by ring, by ring, by ring, by ring⟩

/-! ### agreement with the device models -/

/-- **units_agree_pd**: PD's thermal and shot variances (A², over `B = fs/2`, formulas translated from `devices.PD`) times
    `R_L²` are the thermal and shot terms (V²) of the `utils` receiver model with `BW_el = fs/2`, the level being
    `μ = (photocurrent + dark current)·R_L` -/
theorem units_agree_pd (kB e T fs FndB Rl meanI iase idark : ℝ) (hR : Rl ≠ 0) :
    Pd.sigma2T kB T fs FndB Rl * Rl ^ 2 = BerFormulas.nvTh kB T (fs / 2) Rl (Pd.idb FndB) ∧
      PdTable.sN e meanI iase idark fs * Rl ^ 2 = BerFormulas.nvSh e ((meanI + iase + idark) * Rl) (fs / 2) Rl := by
  constructor
  · simp only [Pd.sigma2T, PdTable.sT, BerFormulas.nvTh]
    push_cast
    field_simp
  · simp only [PdTable.sN, BerFormulas.nvSh]
    push_cast
    ring

/-- the two dB helpers are the same function (`10^(x/10)`) in both models -/
theorem idb_agree (x : ℝ) : (Pd.idb x : ℝ) = Ber.idb x := by rw [Pd.idb_real, Ber.idb_real]

/-- **p_ase = EDFA's formula**: `utils.p_ase(True, wavelength, G, NF, BW_opt)` equals the ASE power `devices.EDFA` generates
    when `gv.f0 = c/wavelength` and the optical bandwidth is the simulation bandwidth `gv.fs` -/
theorem p_ase_eq_edfa (x : Rx ℝ) (c wavelength fs : ℝ) (hamp : x.amplify = true) (hf0 : x.f0 = BerFormulas.paF0 c wavelength)
    (hbw : x.BWopt = fs) : pAse x = BerFormulas.edfaPase (idb x.NF) x.h (c / wavelength) (idb x.G) fs := by
  simp only [pAse, hamp, if_true, BerFormulas.paAmp, BerFormulas.edfaPase, hf0, hbw, BerFormulas.paF0]

/-! ### the full statement: what remains unproved -/

/-- **soft_M2**: with the Gaussian tail for `Q`, `ppm.theory_BER(μ, s0, s1, M=2, 'soft')` evaluated on the exact value of the
    integral it hands to `quad` is `Q(μ/√(s0²+s1²))` (the error probability `P(s0·Z0 − s1·Z1 > μ)` of two independent
    Gaussians); the same holds for the soft-decision estimator with `μ = I1 − I0` -/
theorem soft_M2 (mu s0 s1 : ℝ) (hs0 : 0 < s0) (hs1 : 0 < s1) :
    softFrom (∫ x, softIntegrand gQ 2 mu s0 s1 x) = gQ (mu / Real.sqrt (s0 ^ 2 + s1 ^ 2)) ∧
      ppmTheory gQ 2 .soft mu s0 s1 (∫ x, softIntegrand gQ 2 mu s0 s1 x) = .ok (some (gQ (mu / Real.sqrt (s0 ^ 2 + s1 ^ 2)))) ∧
      ∀ mu0, ppmEstimator gQ 2 .soft mu0 (mu0 + mu) s0 s1 (∫ x, softIntegrand gQ 2 (mu0 + mu - mu0) s0 s1 x) =
        .ok (some (gQ (mu / Real.sqrt (s0 ^ 2 + s1 ^ 2)))) := by
  have h := soft_M2_aux mu s0 s1 hs0 hs1
  have hp : isPow2 2 = true := by decide
  refine ⟨h, ?_, ?_⟩
  · simp only [ppmTheory, hp, Bool.not_true, Bool.false_eq_true, if_false, h, ppmFactorTheory, half_real, lit_real]
    norm_num
    ring
  · intro mu0
    have : mu0 + mu - mu0 = mu := by ring
    rw [this]
    simp only [ppmEstimator, hp, Bool.not_true, Bool.false_eq_true, if_false, h, ppmFactorEst, lit_real]
    norm_num

/-! ### the full statement: what remains unproved -/

/-- clauses of C13 that are NOT theorems here (decided by the oracle on every run): soft ≤ hard for every `M`, and the location
    of the true minimum for equal sigmas (needs convexity of the Gaussian tail on `[0, ∞)`) -/
def C13_full_unproved : Prop :=
  (∀ mu s r : ℝ, 0 < s → 0 ≤ mu → gQ (mu / (2 * s)) ≤ 1 / 2 * ookSum gQ mu s s r) ∧
    (∀ (M : ℕ) (mu s0 s1 r : ℝ), 2 ≤ M → 0 < s0 → 0 < s1 → 0 ≤ mu →
      softFrom (∫ x, softIntegrand gQ M mu s0 s1 x) ≤ 1 - gQ ((r - mu) / s1) * (1 - gQ (r / s0)) ^ (M - 1))

end OptiVerif.Props.C13
