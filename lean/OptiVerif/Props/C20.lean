/-
C20 — PPG3204 driver emits only in-range commands; pattern memory round-trips; SYNC aligns.
Property theorems only (helper lemmas: Lemmas/Ppg.lean, PpgData.lean, PpgEmit.lean, PpgSync.lean).

The model (`Model/Ppg.lean`, `Model/PpgSync.lean`) takes every limit, the limit names used at every clamp site and
the `_check_channels` literals from `Gen/PpgLimits.lean`, which the translator regenerates from
`/repo/opticomlib/lab.py` on every run.  `InRange`, `ChOk`, `HeaderOK`, `WellTyped`, `Consecutive`, `payload`
are defined in the lemma files with the *documented* numbers written out literally.

Not modelled (see PARTIAL in harness/props/c20.py): the printf conversions `:.1f`, `:.5e` (only the abstract
nearest-grid statement below), `fftconvolve`'s floating point, the `max < 3·std` acceptance for PRBS patterns, noise.
-/
import OptiVerif.Lemmas.PpgEmit
import OptiVerif.Lemmas.PpgSync
import OptiVerif.Lemmas.PpgKron
import OptiVerif.Lemmas.PpgSyncNoise

namespace OptiVerif.Props.C20
open OptiVerif OptiVerif.Ppg OptiVerif.Sync OptiVerif.Gen.PpgLimits

/-! ### the translated constants are the documented ones -/

/-- class constants of `PPG3204` in the source = the numbers of the statement: 4 channels, pattern length 2..2^21,
    amplitude 0.3..2 V, offset -2..3 V, frequency 1.5..32 GHz, skew ±25 ps, PRBS orders, 2^21-bit memory, 1024-bit blocks -/
theorem limits_documented :
    CHANNELS = 4 ∧ PATT_LEN_MIN = 2 ∧ PATT_LEN_MAX = 2 ^ 21 ∧ AMPLITUDE_MIN = 3 / 10 ∧ AMPLITUDE_MAX = 2 ∧
    OFFSET_MIN = -2 ∧ OFFSET_MAX = 3 ∧ FREQ_MIN = 15 * 10 ^ 8 ∧ FREQ_MAX = 32 * 10 ^ 9 ∧
    MIN_SKEW = -(25 / 10 ^ 12) ∧ MAX_SKEW = 25 / 10 ^ 12 ∧ PRBS_ORDERS = [7, 9, 11, 15, 23, 31] ∧
    MAX_MEMORY_LEN = 2 ^ 21 ∧ MAX_CHUNK_LEN = 1024 := by
  refine ⟨rfl, rfl, ?_, rfl, rfl, rfl, rfl, ?_, ?_, ?_, ?_, rfl, rfl, rfl⟩ <;>
    simp only [PATT_LEN_MAX, FREQ_MIN, FREQ_MAX, MIN_SKEW, MAX_SKEW] <;> norm_num

/-- every clamp site of the source tests against and clips to the pair of limits of *its own* quantity, and
    `_check_channels` tests/clips with 1 and CHANNELS and keeps at most CHANNELS entries -/
theorem clamp_sites_documented :
    pattLenTest = (2, 2 ^ 21) ∧ pattLenClip = (2, 2 ^ 21) ∧
    skewTest = (-(25 / 10 ^ 12), 25 / 10 ^ 12) ∧ skewClip = (-(25 / 10 ^ 12), 25 / 10 ^ 12) ∧
    voltTest = (3 / 10, 2) ∧ voltClip = (3 / 10, 2) ∧ offsTest = (-2, 3) ∧ offsClip = (-2, 3) ∧
    freqTest = (15 * 10 ^ 8, 32 * 10 ^ 9) ∧ freqClip = (15 * 10 ^ 8, 32 * 10 ^ 9) ∧
    chTestLo = 1 ∧ chTestHi = 4 ∧ chSizeMax = 4 ∧ chClipLo = 1 ∧ chClipHi = 4 ∧ chTake = 4 :=
  ⟨lim_pattLen.1, lim_pattLen.2, lim_skew.1, lim_skew.2, lim_volt.1, lim_volt.2, lim_offs.1, lim_offs.2,
   lim_freq.1, lim_freq.2, rfl, rfl, rfl, rfl, rfl, rfl⟩

/-! ### every emitted command is in range -/

/-- For EVERY request whose arguments have the documented Python types — any scalar or per-channel list of any
    length, any channel selection incl. out-of-range, duplicated or too many channels, any data, any start
    address — the driver does not fail, and every command it emits addresses a channel in 1..4 and carries a value
    within the documented limits (`InRange`). -/
theorem cmd_in_range (r : Request) (h : WellTyped r) : ∃ o, emit r = .ok o ∧ ∀ c ∈ o.cmds, InRange c := by
  obtain ⟨o, ho⟩ := emit_ok r h
  exact ⟨o, ho, emit_in_range r o ho⟩

/-- without any typing hypothesis: whatever a request emits is in range -/
theorem emitted_in_range (r : Request) (o : Ppg.Out) (h : emit r = .ok o) : ∀ c ∈ o.cmds, InRange c :=
  emit_in_range r o h

/-- the only failing requests are the ill-typed ones (float scalar where an int is required, list frequency,
    unknown mode string); they fail before anything is sent -/
theorem type_errors (x : Rat) (xs : List Rat) (c : Chs) :
    emit (.pattLen (.float x) c) = .error .ValueError ∧ emit (.prbsOrder (.float x) c) = .error .ValueError ∧
    emit (.freq (.list xs)) = .error .TypeError ∧ emit (.mode .other c) = .error .ValueError :=
  ⟨rfl, rfl, rfl, rfl⟩

example : WellTyped (.voltage (.list [5, -1, 3/10]) (some [0, 9, 2, 2, 7])) := trivial
example : ∃ o, emit (.voltage (.list [5, -1, 3/10]) (some [0, 9, 2, 2, 7])) = .ok o ∧
    o.cmds = [.set .volt 1 2, .set .volt 4 (3/10), .set .volt 2 (3/10)] ∧ o.warned = true :=
  ⟨_, rfl, by decide +kernel, by decide +kernel⟩

/-- `get_data` never fails against the instrument model, for any size / start address / channel selection; its
    queries address channels 1..4 in blocks of at most 1024 bits -/
theorem get_data_in_range (m : Mem) (size start : Int) (chs : Chs) :
    ∃ o, getData m size start chs = .ok o ∧ ∀ c ∈ o.cmds, InRange c := by
  obtain ⟨o, ho, hr, _⟩ := getData_ok m size start chs
  exact ⟨o, ho, hr⟩

/-- `get_data` clamps `(size, start)` into the memory: `1 ≤ start`, `1 ≤ size`, `start + size - 1 ≤ 2^21` -/
theorem get_data_args_in_memory (size start : Int) :
    1 ≤ (getArgs size start).1 ∧ 1 ≤ (getArgs size start).2.1 ∧
    (getArgs size start).2.1 + ((getArgs size start).1 : Int) - 1 ≤ 2 ^ 21 := getArgs_spec size start

/-- every command sent during an arbitrary history of set_*/get_*/set_data/get_data calls is in range -/
theorem history_in_range (m : Mem) (ops : List Op) : ∀ c ∈ histCmds m ops, InRange c :=
  histCmds_in_range ops m

/-- at most one command per selected channel, at most four -/
theorem at_most_four_channels (chs : Chs) :
    (checkChannels chs).1.length ≤ 4 ∧ ∀ c ∈ (checkChannels chs).1, ChOk c :=
  ⟨checkChannels_length chs, checkChannels_mem chs⟩

/-! ### clamped with a warning, in-range requests untouched -/

/-- the warning flag of a clamp is raised exactly when some requested value is outside the limits … -/
theorem clamp_warns_iff (lo hi : Rat) (vs : List Rat) :
    (clampAll (lo, hi) (lo, hi) vs).2 = true ↔ ∃ v ∈ vs, v < lo ∨ hi < v := clampAll_warned lo hi vs

/-- … and values inside the limits are sent as requested -/
theorem clamp_identity (lo hi : Rat) (vs : List Rat) (h : ∀ v ∈ vs, lo ≤ v ∧ v ≤ hi) :
    clampAll (lo, hi) (lo, hi) vs = (vs, false) := clampAll_id lo hi vs h

/-- an admissible request (channels in 1..4, amplitudes in 0.3..2 V) is sent exactly as given, without warning -/
theorem voltage_request_unchanged (cs : List Int) (vs : List Rat) (hc : ∀ c ∈ cs, ChOk c) (hl : cs.length ≤ 4)
    (hv : ∀ v ∈ vs, 3 / 10 ≤ v ∧ v ≤ 2) :
    setVoltage (.list vs) (some cs) = .ok ⟨perChannel .volt cs vs, false⟩ := by
  simp only [setVoltage, checkChannels_id cs hc hl, expand, lim_volt.1, lim_volt.2, clampAll_id _ _ vs hv,
    Bool.or_self]

theorem skew_request_unchanged (cs : List Int) (vs : List Rat) (hc : ∀ c ∈ cs, ChOk c) (hl : cs.length ≤ 4)
    (hv : ∀ v ∈ vs, -(25 / 10 ^ 12) ≤ v ∧ v ≤ 25 / 10 ^ 12) :
    setSkew (.list vs) (some cs) = .ok ⟨perChannel .skew cs vs, false⟩ := by
  simp only [setSkew, checkChannels_id cs hc hl, expand, lim_skew.1, lim_skew.2, clampAll_id _ _ vs hv,
    Bool.or_self]

theorem patt_len_request_unchanged (cs : List Int) (vs : List Rat) (hc : ∀ c ∈ cs, ChOk c) (hl : cs.length ≤ 4)
    (hv : ∀ v ∈ vs, 2 ≤ v ∧ v ≤ 2 ^ 21) :
    setPattLen (.list vs) (some cs) = .ok ⟨perChannel .pattLen cs vs, false⟩ := by
  simp only [setPattLen, checkChannels_id cs hc hl, expand, lim_pattLen.1, lim_pattLen.2, clampAll_id _ _ vs hv,
    Bool.or_self]

theorem freq_request_unchanged (f : Rat) (h1 : 15 * 10 ^ 8 ≤ f) (h2 : f ≤ 32 * 10 ^ 9) :
    setFreq (.float f) = .ok ⟨[.freq f], false⟩ := by
  simp only [setFreq, setFreq.one, lim_freq.1]
  rw [if_neg]
  simp only [Bool.or_eq_true, decide_eq_true_eq, not_or, not_lt]
  exact ⟨h1, h2⟩

/-- an out-of-range frequency is replaced by the nearer limit and flagged -/
theorem freq_request_clamped (f : Rat) (h : f < 15 * 10 ^ 8 ∨ 32 * 10 ^ 9 < f) :
    setFreq (.float f) = .ok ⟨[.freq (if f < 15 * 10 ^ 8 then 15 * 10 ^ 8 else 32 * 10 ^ 9)], true⟩ := by
  simp only [setFreq, setFreq.one, lim_freq.1, lim_freq.2]
  rw [if_pos (by simpa using h)]
  congr 3
  unfold clipR
  rcases h with h | h
  · simp only [h, if_true]
    rw [if_neg (by norm_num)]
  · have : ¬ f < 15 * 10 ^ 8 := by
      have : (15 : Rat) * 10 ^ 8 < 32 * 10 ^ 9 := by norm_num
      exact not_lt.mpr (le_of_lt (lt_trans this h))
    simp only [this, if_false, h, if_true]

/-- a PRBS order outside the supported list is replaced by a supported order at minimal distance -/
theorem prbs_order_snapped (ord : Int) (h : ord ∉ [7, 9, 11, 15, 23, 31]) :
    ∃ o : Int, orderFor (ord : Rat) = .ok ((o : Rat), true) ∧ o ∈ [7, 9, 11, 15, 23, 31] ∧
      ∀ x ∈ [7, 9, 11, 15, 23, 31], (o - ord).natAbs ≤ (x - ord).natAbs := by
  have htr : truncZ (ord : Rat) = ord := by simp [truncZ]
  have hnot : (PRBS_ORDERS.any fun o => (o : Rat) == (ord : Rat)) = false := by
    simp only [gen_orders, List.any_cons, List.any_nil, Bool.or_false, Bool.or_eq_false_iff, beq_eq_false_iff_ne, ne_eq]
    simp only [List.mem_cons, List.not_mem_nil, or_false, not_or] at h
    obtain ⟨h1, h2, h3, h4, h5, h6⟩ := h
    refine ⟨?_, ?_, ?_, ?_, ?_, ?_⟩ <;> (intro e; have := Rat.intCast_injective e; omega)
  refine ⟨nearestFrom ord 7 [9, 11, 15, 23, 31], ?_, ?_, ?_⟩
  · unfold orderFor
    rw [hnot]
    simp only [Bool.false_eq_true, if_false, gen_orders, nearest, htr]
    rfl
  · rcases nearestFrom_mem ord [9, 11, 15, 23, 31] 7 with h | h
    · rw [h]; simp
    · exact List.mem_cons_of_mem _ h
  · intro x hx
    obtain ⟨h1, h2⟩ := nearestFrom_min ord [9, 11, 15, 23, 31] 7
    rcases List.mem_cons.mp hx with rfl | hx
    · exact h1
    · exact h2 x hx

/-! ### printf rounding cannot leave the limits (abstract nearest-grid statement) -/

/-- `{v:.1f}`: any nearest multiple of 1/10 of an amplitude in 0.3..2 V (offset in -2..3 V) is again within the limits -/
theorem format_1f_stays_in_range (x r : Rat) (hnear : ∀ g, Tenths g → |r - x| ≤ |g - x|) :
    (3 / 10 ≤ x ∧ x ≤ 2 → 3 / 10 ≤ r ∧ r ≤ 2) ∧ (-2 ≤ x ∧ x ≤ 3 → -2 ≤ r ∧ r ≤ 3) := by
  constructor
  · rintro ⟨h1, h2⟩
    exact nearest_in_range (G := Tenths) ⟨3, by norm_num⟩ ⟨20, by norm_num⟩ hnear h1 h2
  · rintro ⟨h1, h2⟩
    exact nearest_in_range (G := Tenths) ⟨-20, by norm_num⟩ ⟨30, by norm_num⟩ hnear h1 h2

/-- `{v:.5e}`: any nearest 6-significant-digit decimal of a frequency in 1.5..32 GHz is again within the limits -/
theorem format_5e_stays_in_range (x r : Rat) (hnear : ∀ g, Sig6 g → |r - x| ≤ |g - x|)
    (h1 : 15 * 10 ^ 8 ≤ x) (h2 : x ≤ 32 * 10 ^ 9) : 15 * 10 ^ 8 ≤ r ∧ r ≤ 32 * 10 ^ 9 :=
  nearest_in_range (G := Sig6) ⟨15, 8, by norm_num, by norm_num⟩ ⟨32, 9, by norm_num, by norm_num⟩ hnear h1 h2

/-! ### set_data: blocks, header, addresses -/

/-- For data of EVERY length: each block has at most 1024 bits (and at least one unless the data is empty), the
    header `#<k><n>` has the correct one-digit `k` = number of decimal digits of `n` = number of bits that follow,
    the blocks sit at consecutive addresses from the start address, their concatenation is the data, and there are
    ⌈len/1024⌉ of them. -/
theorem chunks_spec (ch start : Int) (bits : List Nat) :
    (∀ c ∈ dataCmds ch start (chunks 1024 bits), ∃ addr n k b, c = .data ch addr n k b ∧ n ≤ 1024 ∧
        b.length = n ∧ HeaderOK k n ∧ (bits ≠ [] → 1 ≤ n)) ∧
    Consecutive ch start (dataCmds ch start (chunks 1024 bits)) ∧
    payload (dataCmds ch start (chunks 1024 bits)) = bits ∧
    (dataCmds ch start (chunks 1024 bits)).length = if bits.length ≤ 1024 then 1 else (bits.length + 1023) / 1024 := by
  refine ⟨?_, dataCmds_consecutive ch _ start, ?_, ?_⟩
  · intro c hc
    obtain ⟨addr, b, hb, rfl⟩ := dataCmds_mem ch _ start c hc
    have hl := chunks_length_le 1024 (by decide) bits.length bits (le_refl _) b hb
    refine ⟨addr, _, _, b, rfl, hl, rfl, header_ok_small _ hl, ?_⟩
    intro hne
    have := chunks_nonempty 1024 (by decide) bits.length bits (le_refl _) hne b hb
    exact List.length_pos_iff.mpr this
  · rw [dataCmds_payload, chunks_flatten 1024 (by decide) bits.length bits (le_refl _)]
  · have hlen : ∀ (cks : List (List Nat)) (a : Int), (dataCmds ch a cks).length = cks.length := by
      intro cks
      induction cks with
      | nil => intro a; rfl
      | cons c cks ih => intro a; simp only [dataCmds, List.length_cons, ih]
    rw [hlen, chunks_count 1024 (by decide) bits.length bits (le_refl _)]
    have : bits.length + 1024 - 1 = bits.length + 1023 := by omega
    rw [this]

example : dataCmds 3 5 (chunks 1024 (List.replicate 2049 1)) =
    [.data 3 5 1024 4 (List.replicate 1024 1), .data 3 1029 1024 4 (List.replicate 1024 1), .data 3 2053 1 1 [1]] := by
  decide +kernel

/-- `set_data` of 1-D data that fits into the memory sends, for every selected channel, exactly these blocks -/
theorem set_data_blocks (xs : List Int) (start : Int) (chs : Chs) (h : (xs.length : Int) ≤ 2 ^ 21 - start + 1) :
    setData (.flat xs) start chs = .ok ⟨((checkChannels chs).1.map
      (fun ch => dataCmds ch start (chunks 1024 (xs.map bit)))).flatten, (checkChannels chs).2⟩ :=
  setData_flat_eq xs start chs h

/-- 2-D (one row per channel) data whose rows fit into the memory are sent row by row to the selected channels,
    untruncated and without a warning from the length test -/
theorem set_data_blocks_2d (r : List Int) (rest : List (List Int)) (start : Int) (chs : Chs)
    (hall : ∀ r' ∈ rest, r'.length = r.length) (h : (r.length : Int) ≤ 2 ^ 21 - start + 1) :
    setData (.rows (r :: rest)) start chs =
      .ok ⟨blocksFor start (checkChannels chs).1 ((r :: rest).map (·.map bit)), (checkChannels chs).2⟩ :=
  setData_rows_eq r rest start chs hall h

/-- with a start address inside the memory every block lies inside the memory `1..2^21`, for 1-D and 2-D data of any
    length (the bits per channel are truncated to what fits, also next to the end of the memory) -/
theorem set_data_addresses (d : DataArg) (start : Int) (chs : Chs) (h1 : 1 ≤ start) (h2 : start ≤ 2 ^ 21)
    (o : Ppg.Out) (ho : setData d start chs = .ok o) :
    ∀ c ∈ o.cmds, ∃ ch addr n k b, c = .data ch addr n k b ∧ 1 ≤ addr ∧ addr + (n : Int) - 1 ≤ 2 ^ 21 :=
  setData_addr d start chs h1 h2 o ho

/-! ### memory round trip -/

/-- For data of every length ≥ 1 that fits, every start address in 1..2^21, every channel selection (also
    out-of-range / duplicated / too many channels) and every prior memory content: after the instrument has executed
    the blocks written by `set_data`, `get_data` of the same range — read in blocks of ≤ 1024 bits and parsed with
    `b[k+2:-1]` from the `#<k><n><bits>\n` answers — returns exactly the written bits for every selected channel. -/
theorem get_set_roundtrip (m : Mem) (xs : List Int) (start : Int) (chs : Chs)
    (h1 : 1 ≤ start) (h2 : start ≤ 2 ^ 21) (h3 : 1 ≤ xs.length) (h4 : (xs.length : Int) ≤ 2 ^ 21 - start + 1) :
    ∃ o g, setData (.flat xs) start chs = .ok o ∧
      getData (m.execAll o.cmds) xs.length start chs = .ok g ∧
      g.data = List.replicate (checkChannels chs).1.length (xs.map bit) ∧
      o.warned = (checkChannels chs).2 ∧ g.warned = (checkChannels chs).2 :=
  roundtrip m xs start chs h1 h2 h3 h4

/-- The same for 2-D data (a different row per channel): pairwise different channels in 1..4, as many rows as
    channels, rows of equal length ≥ 1 that fit between the start address and the end of the memory (also exactly at
    the end): `get_data` returns every row for its channel. -/
theorem get_set_roundtrip_2d (m : Mem) (r : List Int) (rest : List (List Int)) (start : Int) (cs : List Int)
    (hc : ∀ c ∈ cs, ChOk c) (hnd : cs.Nodup) (hlen : cs.length = (r :: rest).length)
    (hall : ∀ r' ∈ rest, r'.length = r.length)
    (h1 : 1 ≤ start) (h2 : start ≤ 2 ^ 21) (h3 : 1 ≤ r.length) (h4 : (r.length : Int) ≤ 2 ^ 21 - start + 1) :
    ∃ o g, setData (.rows (r :: rest)) start (some cs) = .ok o ∧
      getData (m.execAll o.cmds) r.length start (some cs) = .ok g ∧
      g.data = (r :: rest).map (·.map bit) ∧ o.warned = false ∧ g.warned = false :=
  roundtrip2d m r rest start cs hc hnd hlen hall h1 h2 h3 h4

/-- the witness of the repaired defect: three rows of two bits at the last two addresses, channels 1,2,3 -/
example : ∃ o g, setData (.rows [[1, 0], [0, 1], [1, 1]]) 2097151 (some [1, 2, 3]) = .ok o ∧
    getData (Mem.zero.execAll o.cmds) 2 2097151 (some [1, 2, 3]) = .ok g ∧ g.data = [[1, 0], [0, 1], [1, 1]] := by
  obtain ⟨o, g, h1, h2, h3, _⟩ := get_set_roundtrip_2d Mem.zero [1, 0] [[0, 1], [1, 1]] 2097151 [1, 2, 3]
    (by intro c hc; simp only [List.mem_cons, List.not_mem_nil, or_false] at hc; unfold ChOk; omega)
    (by decide) (by decide) (by intro r' hr; simp only [List.mem_cons, List.not_mem_nil, or_false] at hr; rcases hr with rfl | rfl <;> rfl)
    (by norm_num) (by norm_num) (by decide) (by norm_num)
  exact ⟨o, g, h1, h2, by rw [h3]; decide⟩

/-- the driver's parsing of one answer block `#<k><n><bits>\n` returns the bits (cells read back as 0/1) -/
theorem reply_parsed (bits : List Nat) (h : bits.length ≤ 1024) : parseReply (reply bits) = .ok (bits.map norm) :=
  parseReply_reply bits h

/-- the read-back is split into blocks of at most 1024 bits which add up to the requested size -/
theorem get_data_blocks (n : Nat) : (counts n).sum = n ∧ (∀ c ∈ counts n, c ≤ 1024) ∧ (1 ≤ n → ∀ c ∈ counts n, 1 ≤ c) :=
  ⟨counts_sum n, counts_le n, counts_pos n⟩

example : ∃ o g, setData (.flat [1, 0, 0, 1, 1]) 2097148 (some [7, 2]) = .ok o ∧
    getData (Mem.zero.execAll o.cmds) 5 2097148 (some [7, 2]) = .ok g ∧ g.data = [[1, 0, 0, 1, 1], [1, 0, 0, 1, 1]] := by
  obtain ⟨o, g, h1, h2, h3, _⟩ := get_set_roundtrip Mem.zero [1, 0, 0, 1, 1] 2097148 (some [7, 2])
    (by norm_num) (by norm_num) (by decide) (by norm_num)
  exact ⟨o, g, h1, h2, by rw [h3]; decide⟩

/-! ### SYNC -/

/-- the waveform `np.kron(slots, ones(sps))` has `len(slots)·sps` samples -/
theorem kron_length (tx : List Int) (sps : Nat) : (kron tx sps).length = tx.length * sps := by
  unfold kron
  induction tx with
  | nil => simp
  | cons b tx ih =>
    simp only [List.flatMap_cons, List.length_append, List.length_replicate, ih, List.length_cons]
    rw [Nat.add_mul, Nat.one_mul, Nat.add_comm]

/-- Alignment.  Let `w` be the pattern's waveform (`l` samples) and let the record be `w` repeated and delayed by
    `d < l` samples: `rx[k] = w[(k - d) mod l]` on at least two periods (`rx = s ++ s ++ tail`, `s = w` rotated left
    by `l - d`; `tail` arbitrary).  Aperiodicity hypothesis: no cyclic shift by `0 < m < l` maps `w` to itself.
    Then the argmax over the lags `0 … l-1` of the cross-correlation is exactly `d`. -/
theorem sync_argmax (tx : List Int) (sps d : Nat) (tail : List Int)
    (hd : d < (kron tx sps).length)
    (hap : ∀ m, 0 < m → m < (kron tx sps).length → (kron tx sps).rotate m ≠ kron tx sps) :
    syncLag ((kron tx sps).rotate ((kron tx sps).length - d) ++ (kron tx sps).rotate ((kron tx sps).length - d) ++ tail)
      tx sps = .ok d := by
  unfold syncLag lagW
  have hlen : ¬ ((kron tx sps).rotate ((kron tx sps).length - d) ++ (kron tx sps).rotate ((kron tx sps).length - d)
      ++ tail).length < (kron tx sps).length := by
    simp only [List.length_append, List.length_rotate]; omega
  rw [if_neg hlen, if_neg (by omega), argmax_delayed _ tail d hd hap]

/-- The same when nothing precedes the first period (`rx = zeros(d) ++ w ++ w ++ tail`), for waveforms without negative
    samples (slot patterns are 0/1): the argmax is again exactly `d`. -/
theorem sync_argmax_zero_prefix (tx : List Int) (sps d : Nat) (tail : List Int)
    (hd : d < (kron tx sps).length) (hnn : ∀ x ∈ kron tx sps, 0 ≤ x)
    (hap : ∀ m, 0 < m → m < (kron tx sps).length → (kron tx sps).rotate m ≠ kron tx sps) :
    syncLag (List.replicate d 0 ++ kron tx sps ++ kron tx sps ++ tail) tx sps = .ok d := by
  unfold syncLag lagW
  have hlen : ¬ (List.replicate d 0 ++ kron tx sps ++ kron tx sps ++ tail).length < (kron tx sps).length := by
    simp only [List.length_append, List.length_replicate]; omega
  rw [if_neg hlen, if_neg (by omega), argmax_zero_prefix _ tail d hd hnn hap]

/-- The aperiodicity hypothesis can be stated on the slot pattern itself: if no cyclic shift by `0 < m < len(slots)`
    maps the slot pattern (at least two slots) to itself, then for every `sps ≥ 1` no cyclic shift by
    `0 < m < len(slots)·sps` samples maps its waveform to itself. -/
theorem waveform_aperiodic (tx : List Int) (sps : Nat) (hs : 0 < sps) (hn : 2 ≤ tx.length)
    (hap : ∀ m, 0 < m → m < tx.length → tx.rotate m ≠ tx) :
    ∀ m, 0 < m → m < (kron tx sps).length → (kron tx sps).rotate m ≠ kron tx sps :=
  kron_aperiodic tx sps hs hn hap

/-- Alignment, hypothesis on the slot pattern: for an aperiodic slot pattern of ≥ 2 slots, every `sps ≥ 1`, every
    delay `d < len(slots)·sps` and the record "waveform repeated (≥ 2 periods) and delayed by d", SYNC's argmax is `d`. -/
theorem sync_argmax_pattern (tx : List Int) (sps d : Nat) (tail : List Int) (hs : 0 < sps) (hn : 2 ≤ tx.length)
    (hd : d < tx.length * sps) (hap : ∀ m, 0 < m → m < tx.length → tx.rotate m ≠ tx) :
    syncLag ((kron tx sps).rotate ((kron tx sps).length - d) ++ (kron tx sps).rotate ((kron tx sps).length - d) ++ tail)
      tx sps = .ok d :=
  sync_argmax tx sps d tail (by rw [kron_length]; exact hd) (kron_aperiodic tx sps hs hn hap)

/-- non-vacuity: the PRBS3 period 1110100 is an aperiodic slot pattern -/
example : ∀ m, 0 < m → m < ([1, 1, 1, 0, 1, 0, 0] : List Int).length →
    ([1, 1, 1, 0, 1, 0, 0] : List Int).rotate m ≠ [1, 1, 1, 0, 1, 0, 0] := by
  have : ∀ m : Fin 7, 0 < m.val → ([1, 1, 1, 0, 1, 0, 0] : List Int).rotate m.val ≠ [1, 1, 1, 0, 1, 0, 0] := by decide
  intro m h1 h2
  exact this ⟨m, h2⟩ h1

/-- a 0/1 slot pattern gives a waveform without negative samples -/
theorem kron_nonneg (tx : List Int) (sps : Nat) (h : ∀ b ∈ tx, 0 ≤ b) : ∀ x ∈ kron tx sps, 0 ≤ x := by
  intro x hx
  unfold kron at hx
  simp only [List.mem_flatMap, List.mem_replicate] at hx
  obtain ⟨b, hb, _, hxb⟩ := hx
  rw [hxb]
  exact h b hb

/-- The complete `SYNC` on such a record either returns index `d` and the record from sample `d` on (`len(rx) - l`
    samples), or rejects it with `ValueError` (the `max < 3·std` test — left to the oracle); never anything else. -/
theorem sync_returns_delay (tx : List Int) (sps d : Nat) (tail : List Int)
    (hd : d < (kron tx sps).length)
    (hap : ∀ m, 0 < m → m < (kron tx sps).length → (kron tx sps).rotate m ≠ kron tx sps)
    (rx : List Int)
    (hrx : rx = (kron tx sps).rotate ((kron tx sps).length - d) ++ (kron tx sps).rotate ((kron tx sps).length - d) ++ tail) :
    (∃ o, sync rx tx sps = .ok o ∧ o.index = d ∧ o.signal = (rx.drop d).take (rx.length - (kron tx sps).length)) ∨
    sync rx tx sps = .error .ValueError := by
  unfold sync syncW
  have hlen : ¬ rx.length < (kron tx sps).length := by
    rw [hrx]; simp only [List.length_append, List.length_rotate]; omega
  simp only
  rw [if_neg hlen, if_neg (by omega), hrx, argmax_delayed _ tail d hd hap]
  simp only
  split_ifs
  · exact Or.inr rfl
  · exact Or.inr rfl
  · exact Or.inl ⟨_, rfl, rfl, rfl⟩

/-- the returned signal starts with a whole period of the pattern's waveform: from sample `d` on the record reads
    `w ++ …` -/
theorem delayed_record_aligned (w tail : List Int) (d : Nat) (hd : d < w.length) :
    (w.rotate (w.length - d) ++ w.rotate (w.length - d) ++ tail).drop d =
      w ++ (w.take (w.length - d) ++ tail) := by
  have hs : w.rotate (w.length - d) = w.drop (w.length - d) ++ w.take (w.length - d) :=
    List.rotate_eq_drop_append_take (by omega)
  have hl : (w.drop (w.length - d)).length = d := by simp only [List.length_drop]; omega
  rw [List.append_assoc, List.drop_append_of_le_length (by rw [List.length_rotate]; omega)]
  conv_lhs => rw [hs]
  rw [List.drop_append_of_le_length (by omega), List.drop_of_length_le (by omega), List.nil_append]
  have e : w ++ (List.take (w.length - d) w ++ tail) =
      (List.take (w.length - d) w ++ List.drop (w.length - d) w) ++ (List.take (w.length - d) w ++ tail) := by
    rw [List.take_append_drop]
  rw [e]
  simp only [List.append_assoc]

/-- non-vacuity: the PRBS3 period 1110100 at 2 samples per slot is aperiodic; delay 5 -/
example : ∀ m, 0 < m → m < (kron [1, 1, 1, 0, 1, 0, 0] 2).length →
    (kron [1, 1, 1, 0, 1, 0, 0] 2).rotate m ≠ kron [1, 1, 1, 0, 1, 0, 0] 2 := by
  have : ∀ m : Fin 14, 0 < m.val → (kron [1, 1, 1, 0, 1, 0, 0] 2).rotate m.val ≠ kron [1, 1, 1, 0, 1, 0, 0] 2 := by
    decide
  intro m h1 h2
  exact this ⟨m, h2⟩ h1

example : ∀ b ∈ ([1, 1, 1, 0, 1, 0, 0] : List Int), 0 ≤ b := by decide

/-- test (not a theorem): the model run on that instance -/
example : syncLag ([1, 0, 0, 0, 0, 1, 1, 1, 1, 1, 1, 0, 0, 1,   1, 0, 0, 0, 0, 1, 1, 1, 1, 1, 1, 0, 0, 1,   1, 0, 0, 0, 0])
    [1, 1, 1, 0, 1, 0, 0] 2 = .ok 5 := by decide

/-! ### SYNC with noise: additivity, decision margin, gap, amplitude bound
Over any linearly ordered commutative ring `R` (ℤ, ℚ, ℝ): the record is `rx = clean + e` sample by sample (`addL`),
`corrAt x w i` is the correlation value of `x` at lag `i` (the entries of `corr`), `sumAbs w = Σ|wⱼ|`. -/

section Noise
variable {R : Type} [CommRing R] [LinearOrder R] [IsStrictOrderedRing R]

/-- the cross-correlation is additive in the record, lag by lag: `corr(clean + e) = corr(clean) + corr(e)` -/
theorem sync_corr_linear (c e w : List R) (h : c.length = e.length) :
    (∀ i, corrAt (addL c e) w i = corrAt c w i + corrAt e w i) ∧
    corr (addL c e) w = addL (corr c w) (corr e w) :=
  ⟨corrAt_add c e w h, corr_add c e w h⟩

/-- Decision margin for ANY clean record `c`: if for every competing lag `m ≠ d` the noise contribution satisfies
    `ce(m) − ce(d) < cc(d) − cc(m)` (the noise moves no competing lag up to the clean peak), the alignment step on
    `c + e` returns `d`.  (This is the hypothesis the harness evaluates numerically on every noisy case.) -/
theorem sync_margin_general (c e w : List R) (h : c.length = e.length) (d : Nat) (hl : w.length ≤ c.length)
    (hw : 0 < w.length) (hd : d < (corr c w).length)
    (hm : ∀ m, m < (corr c w).length → m ≠ d → corrAt e w m - corrAt e w d < corrAt c w d - corrAt c w m) :
    lagW (addL c e) w = .ok d := by
  unfold lagW
  rw [if_neg (by rw [addL_length c e h]; omega), if_neg (by omega), argmax_margin c e w h d hd hm]

/-- the clean delayed record: its correlation is the cyclic autocorrelation of the waveform, `cc(m) = R((l−d+m) mod l)`
    with `R(k) = Σ w·shiftₖ(w)`, peak `cc(d) = R(0) = Σ w²`; for a 0/1 slot pattern `R(0) = sps · (number of ones)` -/
theorem sync_clean_corr (tx : List R) (sps d : Nat) (tail : List R) (hd : d < (kron tx sps).length) :
    (∀ m, m < (kron tx sps).length →
      corrAt ((kron tx sps).rotate ((kron tx sps).length - d) ++ (kron tx sps).rotate ((kron tx sps).length - d) ++ tail)
        (kron tx sps) m = dot ((kron tx sps).rotate (((kron tx sps).length - d + m) % (kron tx sps).length)) (kron tx sps)) ∧
    corrAt ((kron tx sps).rotate ((kron tx sps).length - d) ++ (kron tx sps).rotate ((kron tx sps).length - d) ++ tail)
        (kron tx sps) d = dot (kron tx sps) (kron tx sps) ∧
    ((∀ b ∈ tx, b = 0 ∨ b = 1) → dot (kron tx sps) (kron tx sps) = (sps : R) * total tx ∧
      sumAbs (kron tx sps) = (sps : R) * total tx) := by
  refine ⟨fun m hm => corrAt_delayed _ tail d m hd hm, corrAt_delayed_peak _ tail d hd, fun h01 => ?_⟩
  obtain ⟨h1, h2⟩ := sumAbs_01 (kron tx sps) (kron_01 tx sps h01)
  rw [h1, h2, total_kron]
  exact ⟨rfl, rfl⟩

/-- the gap `cc(d) − cc(m)` of the clean record is positive at every competing lag under the aperiodicity hypothesis
    of `sync_argmax` -/
theorem sync_gap_pos (w : List R) (d m : Nat) (hd : d < w.length) (hm : m < w.length) (hne : m ≠ d)
    (hap : ∀ k, 0 < k → k < w.length → w.rotate k ≠ w) :
    0 < dot w w - dot (w.rotate ((w.length - d + m) % w.length)) w :=
  gap_pos w d m hd hm hne hap

/-- **Decision margin for the delayed repeated pattern.**  `rx = clean + e`, `clean` = the waveform repeated (≥ 2 periods)
    and delayed by `d < l` as in `sync_argmax`, `e` any perturbation of the same length.  If for every lag `m ≠ d`
    (`m < l`)  `ce(m) − ce(d) < R(0) − R((l−d+m) mod l)`,  then the argmax over the lags `0 … l−1` is still `d`, and the
    complete SYNC returns index `d` and `rx[d : d+len−l]` unless its `max < 3·std` test rejects the record. -/
theorem sync_argmax_margin (tx : List R) (sps d : Nat) (tail e rx : List R) (hd : d < (kron tx sps).length)
    (he : e.length = ((kron tx sps).rotate ((kron tx sps).length - d) ++ (kron tx sps).rotate ((kron tx sps).length - d)
      ++ tail).length)
    (hrx : rx = addL ((kron tx sps).rotate ((kron tx sps).length - d) ++ (kron tx sps).rotate ((kron tx sps).length - d)
      ++ tail) e)
    (hm : ∀ m, m < (kron tx sps).length → m ≠ d → corrAt e (kron tx sps) m - corrAt e (kron tx sps) d <
      dot (kron tx sps) (kron tx sps) -
        dot ((kron tx sps).rotate (((kron tx sps).length - d + m) % (kron tx sps).length)) (kron tx sps)) :
    syncLag rx tx sps = .ok d ∧
    ((∃ o, sync rx tx sps = .ok o ∧ o.index = d ∧ o.signal = (rx.drop d).take (rx.length - (kron tx sps).length)) ∨
      sync rx tx sps = .error .ValueError) := by
  have ha := lagW_margin (kron tx sps) tail e d hd he hm
  have hlen : ¬ rx.length < (kron tx sps).length := by
    rw [hrx, addL_length _ _ he.symm]
    simp only [List.length_append, List.length_rotate]; omega
  constructor
  · unfold syncLag lagW
    rw [if_neg hlen, if_neg (by omega), hrx, ha]
  · unfold sync syncW
    simp only
    rw [if_neg hlen, if_neg (by omega)]
    rw [hrx] at *
    rw [ha]
    simp only
    split_ifs
    · exact Or.inr rfl
    · exact Or.inr rfl
    · exact Or.inl ⟨_, rfl, rfl, rfl⟩

/-- the symmetric form: if `|ce(m)| < g/2` at every lag, where `g` is a lower bound of all gaps `R(0) − R(k)`,
    `0 < k < l`, the alignment is `d` -/
theorem sync_argmax_half_gap (w tail e : List R) (d : Nat) (g : R) (hd : d < w.length)
    (he : e.length = (w.rotate (w.length - d) ++ w.rotate (w.length - d) ++ tail).length)
    (hg : ∀ k, 0 < k → k < w.length → g ≤ dot w w - dot (w.rotate k) w)
    (hn : ∀ m, m < w.length → 2 * |corrAt e w m| < g) :
    lagW (addL (w.rotate (w.length - d) ++ w.rotate (w.length - d) ++ tail) e) w = .ok d := by
  have ha := lagW_margin w tail e d hd he (by
    intro m hm hne
    obtain ⟨_, hz, hlt⟩ := rotate_back w d m hd hm
    have hpos : 0 < (w.length - d + m) % w.length := by
      rcases Nat.eq_zero_or_pos ((w.length - d + m) % w.length) with h0 | hp
      · exact absurd (hz.mp h0) hne
      · exact hp
    have h1 := hg _ hpos hlt
    have h2 := hn m hm
    have h3 := hn d hd
    have h4 := le_abs_self (corrAt e w m)
    have h5 := neg_abs_le (corrAt e w d)
    linarith)
  unfold lagW
  rw [if_neg (by rw [addL_length _ _ he.symm]; simp only [List.length_append, List.length_rotate]; omega),
    if_neg (by omega), ha]

/-- **Crude amplitude bound.**  If every noise sample satisfies `|eᵢ| ≤ ε` then `|ce(m)| ≤ ε·Σ|w|` at every lag; hence
    `2·ε·Σ|w| < R(0) − R(k)` for all `0 < k < l` (for a 0/1 pattern: `ε < gap / (2·sps·ones)`) suffices for the
    alignment to be `d`. -/
theorem sync_noise_amplitude_bound (w tail e : List R) (d : Nat) (ε : R) (hε : 0 ≤ ε) (hd : d < w.length)
    (he : e.length = (w.rotate (w.length - d) ++ w.rotate (w.length - d) ++ tail).length)
    (hb : ∀ x ∈ e, |x| ≤ ε)
    (hg : ∀ k, 0 < k → k < w.length → 2 * ε * sumAbs w < dot w w - dot (w.rotate k) w) :
    (∀ m, |corrAt e w m| ≤ ε * sumAbs w) ∧
    lagW (addL (w.rotate (w.length - d) ++ w.rotate (w.length - d) ++ tail) e) w = .ok d := by
  have hc := corrAt_abs_le e w ε hε hb
  refine ⟨hc, ?_⟩
  have ha := lagW_margin w tail e d hd he (by
    intro m hm hne
    obtain ⟨_, hz, hlt⟩ := rotate_back w d m hd hm
    have hpos : 0 < (w.length - d + m) % w.length := by
      rcases Nat.eq_zero_or_pos ((w.length - d + m) % w.length) with h0 | hp
      · exact absurd (hz.mp h0) hne
      · exact hp
    have h1 := hg _ hpos hlt
    have h2 := hc m
    have h3 := hc d
    have h4 := le_abs_self (corrAt e w m)
    have h5 := neg_abs_le (corrAt e w d)
    linarith)
  unfold lagW
  rw [if_neg (by rw [addL_length _ _ he.symm]; simp only [List.length_append, List.length_rotate]; omega),
    if_neg (by omega), ha]

end Noise

/-- non-vacuity of the amplitude bound over ℤ: PRBS3 `1110100` with amplitude 10 at 2 samples per slot has
    `Σ|w| = 80`, `R(0) = 800` and all gaps `R(0) − R(k) ≥ 200`, so any perturbation with `|eᵢ| ≤ 1` (10 % of the
    amplitude) satisfies `2·ε·Σ|w| = 160 < gap` -/
example : ∀ k, 0 < k → k < (kron ([10, 10, 10, 0, 10, 0, 0] : List Int) 2).length →
    2 * 1 * sumAbs (kron ([10, 10, 10, 0, 10, 0, 0] : List Int) 2) <
      dot (kron ([10, 10, 10, 0, 10, 0, 0] : List Int) 2) (kron [10, 10, 10, 0, 10, 0, 0] 2) -
        dot ((kron ([10, 10, 10, 0, 10, 0, 0] : List Int) 2).rotate k) (kron [10, 10, 10, 0, 10, 0, 0] 2) := by
  have : ∀ k : Fin 14, 0 < k.val →
      2 * 1 * sumAbs (kron ([10, 10, 10, 0, 10, 0, 0] : List Int) 2) <
        dot (kron ([10, 10, 10, 0, 10, 0, 0] : List Int) 2) (kron [10, 10, 10, 0, 10, 0, 0] 2) -
          dot ((kron ([10, 10, 10, 0, 10, 0, 0] : List Int) 2).rotate k.val) (kron [10, 10, 10, 0, 10, 0, 0] 2) := by
    decide
  intro k h1 h2
  exact this ⟨k, h2⟩ h1

/-- test (not a theorem): a perturbed record of that pattern (delay 5, perturbation ±1) is aligned at 5 -/
example : syncLag (addL ((kron ([10, 10, 10, 0, 10, 0, 0] : List Int) 2).rotate 9 ++ (kron [10, 10, 10, 0, 10, 0, 0] 2).rotate 9
    ++ [10, 0, 0]) [1, -1, 1, 1, -1, 0, 1, -1, -1, 1, 1, -1, 1, 0, -1, 1, 1, -1, 1, -1, 0, 1, -1, 1, 1, -1, 1, 1, -1, 1, -1])
    [10, 10, 10, 0, 10, 0, 0] 2 = .ok 5 := by decide

/-- a record shorter than the pattern's waveform (`len(rx) < len(slots)·sps`) is rejected with `BufferError`,
    and only such records are -/
theorem short_record_buffer_error (rx tx : List Int) (sps : Nat) :
    sync rx tx sps = .error .Buffer ↔ rx.length < tx.length * sps := by
  rw [← kron_length]
  unfold sync syncW
  simp only
  constructor
  · intro h
    by_contra hc
    rw [if_neg hc] at h
    by_cases h0 : (kron tx sps).length = 0
    · rw [if_pos h0] at h; cases h
    · rw [if_neg h0] at h
      cases hm : argmax (corr rx (kron tx sps)) with
      | none => rw [hm] at h; cases h
      | some p =>
        obtain ⟨i, mx⟩ := p
        rw [hm] at h
        simp only at h
        split_ifs at h
        all_goals cases h
  · intro h
    rw [if_pos h]

theorem short_record_lag (rx tx : List Int) (sps : Nat) (h : rx.length < tx.length * sps) :
    syncLag rx tx sps = .error .Buffer := by
  rw [← kron_length] at h
  unfold syncLag lagW
  rw [if_pos h]

end OptiVerif.Props.C20
