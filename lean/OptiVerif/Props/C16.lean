/-
C16 — FBG is a passive reflector matching coupled-mode closed forms.
Theorems about `Model/Fbg.lean` at ℝ/ℂ (the driver runs the same definitions at Float against FBG(), with
`scipy.integrate.solve_ivp` spied from outside) and about EVERY exact solution of the coupled-mode system the model's
right-hand side defines.  RK45's accuracy is not a theorem (oracle, see harness/props/c16.py PARTIAL).
-/
import OptiVerif.Lemmas.Fbg

namespace OptiVerif.Props.C16
open OptiVerif OptiVerif.Fourier OptiVerif.Fiber OptiVerif.Fbg OptiVerif.NumList OptiVerif.FbgOde Set Complex

/-! ### constants translated from the source -/

theorem constants_documented :
    Gen.Fbg.neffDefault = 145 / 100 ∧ Gen.Fbg.vDefault = 1 ∧ Gen.Fbg.chirpDefault = 0 ∧
    Gen.Fbg.rcosAlpha = 1 ∧ Gen.Fbg.rcosT = 2 ∧ Gen.Fbg.rcosHalf = 1 / 2 ∧
    Gen.Fbg.gaussA = 4 ∧ Gen.Fbg.gaussB = 2 ∧ Gen.Fbg.gaussC = 3 ∧ Gen.Fbg.parabOne = 1 ∧ Gen.Fbg.parabC = 2 ∧
    Gen.Fbg.tSpanStart = 1 / 2 ∧ Gen.Fbg.tSpanEnd = -1 / 2 ∧ Gen.Fbg.psConv = 1 / 10 ^ 12 := by
  refine ⟨?_, ?_, ?_, ?_, ?_, ?_, ?_, ?_, ?_, ?_, ?_, ?_, ?_, ?_⟩ <;> decide +kernel

/-- the profiles of the model are the source's expressions with the source's constants -/
theorem profiles_use_source_constants (z : ℝ) :
    rcosProfile z = rcos z ((Gen.Fbg.rcosAlpha : ℚ) : ℝ) ((Gen.Fbg.rcosT : ℚ) : ℝ) ∧
    gaussProfile z = Real.exp (-((Gen.Fbg.gaussA : ℚ) : ℝ) * Real.log ((Gen.Fbg.gaussB : ℚ) : ℝ)
        * ((((Gen.Fbg.gaussC : ℚ) : ℝ) * z) * (((Gen.Fbg.gaussC : ℚ) : ℝ) * z))) ∧
    parabolicProfile z = ((Gen.Fbg.parabOne : ℚ) : ℝ) - (((Gen.Fbg.parabC : ℚ) : ℝ) * z) * (((Gen.Fbg.parabC : ℚ) : ℝ) * z) := by
  obtain ⟨-, -, -, h1, h2, -, h3, h4, h5, h6, h7, -⟩ := constants_documented
  rw [h1, h2, h3, h4, h5, h6, h7]
  refine ⟨?_, ?_, ?_⟩
  · simp [rcosProfile]
  · simp [gaussProfile]
  · simp [parabolicProfile]

/-! ### the coupled-mode system: conservation and passivity of every exact solution -/

/-- the model's right-hand side, read in ℂ, IS the coupled-mode system with the REAL coefficients
    σ̂(z) = δ + s·p(z) − F·z and κ(z) = k·p(z) -/
theorem model_rhs_is_cmt (p : Option ℝ) (F z : ℝ) (c : Coef ℝ) (Rv Sv : Cx ℝ) :
    (rhs p F z c Rv Sv).1.toC = I * (((sigmaHat p F z c : ℝ) : ℂ) * Rv.toC + ((kappa p c : ℝ) : ℂ) * Sv.toC) ∧
    (rhs p F z c Rv Sv).2.toC = -I * (((sigmaHat p F z c : ℝ) : ℂ) * Sv.toC + ((kappa p c : ℝ) : ℂ) * Rv.toC) :=
  toC_rhs p F z c Rv Sv

/-- for differentiable R, S satisfying R' = j(σR + κS), S' = −j(σS + κR) with real σ(z), κ(z) on [a,b],
    |R|² − |S|² is constant -/
theorem cmt_conservation {σ κ : ℝ → ℝ} {a b : ℝ} {R S : ℝ → ℂ} (h : Solves σ κ a b R S) :
    ∀ z ∈ Icc a b, ‖R z‖ ^ 2 - ‖S z‖ ^ 2 = ‖R a‖ ^ 2 - ‖S a‖ ^ 2 :=
  conservation h

/-- with R(b) = 1, S(b) = 0 (the code's initial values at z = ½): |R(z)|² = 1 + |S(z)|² ≥ 1, so ρ = S/R is defined and
    |ρ(z)| < 1 for every z — in particular at z = a = −½: the grating is passive, for EVERY exact solution -/
theorem cmt_passive {σ κ : ℝ → ℝ} {a b : ℝ} {R S : ℝ → ℂ} (h : Solves σ κ a b R S) (hab : a ≤ b)
    (hR : R b = 1) (hS : S b = 0) :
    ∀ z ∈ Icc a b, ‖R z‖ ^ 2 = 1 + ‖S z‖ ^ 2 ∧ R z ≠ 0 ∧ ‖S z / R z‖ < 1 :=
  fun z hz => ⟨normSq_R h hab hR hS z hz, R_ne_zero h hab hR hS z hz, passive h hab hR hS z hz⟩

/-- the same, spelled for the model: ANY functions R, S : [−½, ½] → ℂ whose derivatives are the model's right-hand side
    (any design `c`, any apodisation `prof` — built-in or user callable —, any chirp `F`) with R(½) = 1, S(½) = 0
    have |S(−½)/R(−½)| < 1 -/
theorem fbg_exact_solution_passive (prof : ℝ → Option ℝ) (F : ℝ) (c : Coef ℝ) (Rf Sf : ℝ → ℂ)
    (hR' : ∀ z ∈ Icc (-(1 / 2) : ℝ) (1 / 2),
      HasDerivWithinAt Rf ((rhs (prof z) F z c (ofC (Rf z)) (ofC (Sf z))).1.toC) (Icc (-(1 / 2)) (1 / 2)) z)
    (hS' : ∀ z ∈ Icc (-(1 / 2) : ℝ) (1 / 2),
      HasDerivWithinAt Sf ((rhs (prof z) F z c (ofC (Rf z)) (ofC (Sf z))).2.toC) (Icc (-(1 / 2)) (1 / 2)) z)
    (hR : Rf (1 / 2) = 1) (hS : Sf (1 / 2) = 0) :
    ‖Sf (-(1 / 2)) / Rf (-(1 / 2))‖ < 1 := by
  have h : Solves (fun z => sigmaHat (prof z) F z c) (fun z => kappa (prof z) c) (-(1 / 2)) (1 / 2) Rf Sf := by
    constructor
    · intro z hz
      have := hR' z hz
      rwa [(toC_rhs _ _ _ _ _ _).1, toC_ofC, toC_ofC] at this
    · intro z hz
      have := hS' z hz
      rwa [(toC_rhs _ _ _ _ _ _).2, toC_ofC, toC_ofC] at this
  exact passive h (by norm_num) hR hS _ ⟨le_rfl, by norm_num⟩

/-! ### the Bragg frequency -/

/-- σ̂ ≡ 0 (Bragg frequency of an unchirped grating designed through vdneff), κ = κ₀·p(z):
    R = cosh u, S = j·sinh u with u(z) = κ₀ (P(b) − P(z)), P an antiderivative of the apodisation profile p, solve the system -/
theorem bragg_closed_form_is_solution {a b : ℝ} (κ0 : ℝ) (p P : ℝ → ℝ)
    (hP : ∀ z ∈ Icc a b, HasDerivWithinAt P (p z) (Icc a b) z) :
    Solves (fun _ => 0) (fun z => κ0 * p z) a b
      (fun z => ((Real.cosh (κ0 * (P b - P z)) : ℝ) : ℂ))
      (fun z => I * ((Real.sinh (κ0 * (P b - P z)) : ℝ) : ℂ)) :=
  bragg_solution κ0 p P hP

/-- solutions of the coupled-mode system are unique (σ, κ bounded on the interval) -/
theorem cmt_unique {σ κ : ℝ → ℝ} {a b : ℝ} {R S R' S' : ℝ → ℂ} (M : ℝ) (hσ : ∀ z ∈ Icc a b, |σ z| ≤ M)
    (hκ : ∀ z ∈ Icc a b, |κ z| ≤ M) (h1 : Solves σ κ a b R S) (h2 : Solves σ κ a b R' S')
    (hR : R b = R' b) (hS : S b = S' b) : ∀ z ∈ Icc a b, R z = R' z ∧ S z = S' z :=
  unique M hσ hκ h1 h2 hR hS

/-- hence EVERY solution with the code's boundary values has ρ(a) = j·tanh(κ₀∫ₐᵇp) and
    reflectivity |ρ(a)|² = tanh²(κ₀ ∫ₐᵇ p), for any bounded apodisation p with antiderivative P -/
theorem bragg_reflectivity_tanh_sq {a b : ℝ} {R S : ℝ → ℂ} (κ0 B : ℝ) (p P : ℝ → ℝ)
    (hP : ∀ z ∈ Icc a b, HasDerivWithinAt P (p z) (Icc a b) z) (hp : ∀ z ∈ Icc a b, |p z| ≤ B) (hab : a ≤ b)
    (h : Solves (fun _ => 0) (fun z => κ0 * p z) a b R S) (hR : R b = 1) (hS : S b = 0) :
    S a / R a = I * (Real.tanh (κ0 * (P b - P a)) : ℂ) ∧ ‖S a / R a‖ ^ 2 = Real.tanh (κ0 * (P b - P a)) ^ 2 :=
  bragg_reflectivity κ0 B p P hP hp hab h hR hS

/-- uniform grating: |ρ|² = tanh²(κ₀) -/
theorem bragg_uniform {R S : ℝ → ℂ} (κ0 : ℝ)
    (h : Solves (fun _ => 0) (fun _ => κ0 * 1) (-(1 / 2)) (1 / 2) R S) (hR : R (1 / 2) = 1) (hS : S (1 / 2) = 0) :
    ‖S (-(1 / 2)) / R (-(1 / 2))‖ ^ 2 = Real.tanh κ0 ^ 2 := by
  have := (bragg_reflectivity κ0 1 (fun _ => 1) (fun z => z)
    (fun z _ => (hasDerivAt_id z).hasDerivWithinAt) (fun _ _ => by simp) (by norm_num) h hR hS).2
  rw [this]; norm_num

/-- parabolic profile `1 − (2z)²`: ∫ = 2/3, |ρ|² = tanh²(2κ₀/3) -/
theorem bragg_parabolic {R S : ℝ → ℂ} (κ0 : ℝ)
    (h : Solves (fun _ => 0) (fun z => κ0 * parabolicProfile z) (-(1 / 2)) (1 / 2) R S)
    (hR : R (1 / 2) = 1) (hS : S (1 / 2) = 0) :
    ‖S (-(1 / 2)) / R (-(1 / 2))‖ ^ 2 = Real.tanh (κ0 * (2 / 3)) ^ 2 := by
  have hP : ∀ z ∈ Icc (-(1 / 2) : ℝ) (1 / 2),
      HasDerivWithinAt (fun z : ℝ => z - 4 / 3 * z ^ 3) (parabolicProfile z) (Icc (-(1 / 2)) (1 / 2)) z := by
    intro z _
    have := ((hasDerivAt_id z).sub (((hasDerivAt_pow 3 z).const_mul (4 / 3 : ℝ)))).hasDerivWithinAt
      (s := Icc (-(1 / 2) : ℝ) (1 / 2))
    refine this.congr_deriv ?_
    rw [parabolicProfile_eq]; ring
  have hb : ∀ z ∈ Icc (-(1 / 2) : ℝ) (1 / 2), |parabolicProfile z| ≤ 1 := by
    intro z hz
    rw [parabolicProfile_eq, abs_le]
    constructor <;> nlinarith [hz.1, hz.2, sq_nonneg z]
  have := (bragg_reflectivity κ0 1 parabolicProfile _ hP hb (by norm_num) h hR hS).2
  rw [this]; norm_num

/-- the profile the code applies for 'rcos', ½(1 + cos 2πz): ∫ = 1/2, |ρ|² = tanh²(κ₀/2) -/
theorem bragg_rcos {R S : ℝ → ℂ} (κ0 : ℝ)
    (h : Solves (fun _ => 0) (fun z => κ0 * rcosProfile z) (-(1 / 2)) (1 / 2) R S)
    (hR : R (1 / 2) = 1) (hS : S (1 / 2) = 0) :
    ‖S (-(1 / 2)) / R (-(1 / 2))‖ ^ 2 = Real.tanh (κ0 * (1 / 2)) ^ 2 := by
  have hpi : (2 * Real.pi) ≠ 0 := by positivity
  have hP : ∀ z ∈ Icc (-(1 / 2) : ℝ) (1 / 2),
      HasDerivWithinAt (fun z : ℝ => 1 / 2 * (z + Real.sin (2 * Real.pi * z) / (2 * Real.pi))) (rcosProfile z)
        (Icc (-(1 / 2)) (1 / 2)) z := by
    intro z hz
    have h1 : HasDerivAt (fun z : ℝ => Real.sin (2 * Real.pi * z)) (Real.cos (2 * Real.pi * z) * (2 * Real.pi)) z := by
      have := ((hasDerivAt_id z).const_mul (2 * Real.pi)).sin
      simpa using this
    have := (((hasDerivAt_id z).add (h1.div_const (2 * Real.pi))).const_mul (1 / 2 : ℝ)).hasDerivWithinAt
      (s := Icc (-(1 / 2) : ℝ) (1 / 2))
    refine this.congr_deriv ?_
    rw [rcosProfile_eq z (abs_le.mpr ⟨hz.1, hz.2⟩)]
    field_simp
  have hb : ∀ z ∈ Icc (-(1 / 2) : ℝ) (1 / 2), |rcosProfile z| ≤ 1 := by
    intro z hz
    rw [rcosProfile_eq z (abs_le.mpr ⟨hz.1, hz.2⟩), abs_le]
    constructor <;> nlinarith [Real.neg_one_le_cos (2 * Real.pi * z), Real.cos_le_one (2 * Real.pi * z)]
  have := (bragg_reflectivity κ0 1 rcosProfile _ hP hb (by norm_num) h hR hS).2
  rw [this]
  congr 2
  have e1 : Real.sin (2 * Real.pi * (1 / 2)) = 0 := by rw [show 2 * Real.pi * (1 / 2) = Real.pi by ring]; exact Real.sin_pi
  have e2 : Real.sin (2 * Real.pi * (-(1 / 2))) = 0 := by
    rw [show 2 * Real.pi * (-(1 / 2)) = -Real.pi by ring, Real.sin_neg, Real.sin_pi, neg_zero]
  simp only [e1, e2]
  ring

/-! ### the uniform grating: the whole spectrum -/

/-- for the uniform profile (`apo_func is None`) and no chirp, the model's σ̂(z) and κ(z) are the constants
    d = δ + s (detuning) and k — at every z -/
theorem model_uniform_coefficients_constant (c : Coef ℝ) (z : ℝ) :
    sigmaHat none 0 z c = c.delta + c.s ∧ kappa none c = c.k := by
  simp [sigmaHat, kappa]

/-- the closed-form solutions for constant σ ≡ d, κ ≡ k with the code's boundary values (derived for the code's sign
    convention): stop band R = cosh(g(b−z)) − j(d/g)sinh(g(b−z)), S = j(k/g)sinh(g(b−z)); pass band the same with cos/sin and
    q; band edge R = 1 − jd(b−z), S = jk(b−z) -/
theorem uniform_closed_forms_are_solutions {a b : ℝ} :
    (∀ g c1 c2 : ℝ, c2 * c2 - c1 * c1 = 1 → Solves (fun _ => c1 * g) (fun _ => c2 * g) a b
      (fun z => ((Real.cosh (g * (b - z)) : ℝ) : ℂ) - I * ((c1 * Real.sinh (g * (b - z)) : ℝ) : ℂ))
      (fun z => I * ((c2 * Real.sinh (g * (b - z)) : ℝ) : ℂ))) ∧
    (∀ q c1 c2 : ℝ, c1 * c1 - c2 * c2 = 1 → Solves (fun _ => c1 * q) (fun _ => c2 * q) a b
      (fun z => ((Real.cos (q * (b - z)) : ℝ) : ℂ) - I * ((c1 * Real.sin (q * (b - z)) : ℝ) : ℂ))
      (fun z => I * ((c2 * Real.sin (q * (b - z)) : ℝ) : ℂ))) ∧
    (∀ d k : ℝ, d * d = k * k → Solves (fun _ => d) (fun _ => k) a b
      (fun z => (1 : ℂ) - I * ((d * (b - z) : ℝ) : ℂ)) (fun z => I * ((k * (b - z) : ℝ) : ℂ))) :=
  ⟨fun g c1 c2 h => uniform_hyp_solution g c1 c2 h, fun q c1 c2 h => uniform_trig_solution q c1 c2 h,
   fun d k h => uniform_edge_solution d k h⟩

/-- inside the stop band |d| < k, g = √(k² − d²): EVERY solution on [−½, ½] with R(½)=1, S(½)=0 has
    |ρ(−½)|² = sinh²(g)/(cosh²(g) − d²/k²) -/
theorem uniform_stopband_reflectivity {R S : ℝ → ℂ} (d k : ℝ) (hdk : |d| < k)
    (h : Solves (fun _ => d) (fun _ => k) (-(1 / 2)) (1 / 2) R S) (hR : R (1 / 2) = 1) (hS : S (1 / 2) = 0) :
    ‖S (-(1 / 2)) / R (-(1 / 2))‖ ^ 2 =
      Real.sinh (Real.sqrt (k ^ 2 - d ^ 2)) ^ 2 / (Real.cosh (Real.sqrt (k ^ 2 - d ^ 2)) ^ 2 - d ^ 2 / k ^ 2) := by
  have := uniform_stopband d k hdk (by norm_num) h hR hS
  rw [this]
  norm_num

/-- … which at d = 0 is tanh²(k), the Bragg-frequency value of `bragg_uniform` -/
theorem uniform_stopband_at_bragg (k : ℝ) (hk : 0 < k) :
    Real.sinh (Real.sqrt (k ^ 2 - (0 : ℝ) ^ 2)) ^ 2 / (Real.cosh (Real.sqrt (k ^ 2 - (0 : ℝ) ^ 2)) ^ 2 - (0 : ℝ) ^ 2 / k ^ 2)
      = Real.tanh k ^ 2 := by
  have : Real.sqrt (k ^ 2 - (0 : ℝ) ^ 2) = k := by
    rw [show k ^ 2 - (0 : ℝ) ^ 2 = k ^ 2 by ring, Real.sqrt_sq hk.le]
  rw [this, Real.tanh_eq_sinh_div_cosh, div_pow]
  simp

/-- outside the stop band |d| > k > 0, q = √(d² − k²): |ρ(−½)|² = sin²(q)/(d²/k² − cos²(q)) = k² sin²q/(q² + k² sin²q) -/
theorem uniform_passband_reflectivity {R S : ℝ → ℂ} (d k : ℝ) (hk : 0 < k) (hdk : k < |d|)
    (h : Solves (fun _ => d) (fun _ => k) (-(1 / 2)) (1 / 2) R S) (hR : R (1 / 2) = 1) (hS : S (1 / 2) = 0) :
    ‖S (-(1 / 2)) / R (-(1 / 2))‖ ^ 2 =
      Real.sin (Real.sqrt (d ^ 2 - k ^ 2)) ^ 2 / (d ^ 2 / k ^ 2 - Real.cos (Real.sqrt (d ^ 2 - k ^ 2)) ^ 2) ∧
    ‖S (-(1 / 2)) / R (-(1 / 2))‖ ^ 2 =
      k ^ 2 * Real.sin (Real.sqrt (d ^ 2 - k ^ 2)) ^ 2 / (d ^ 2 - k ^ 2 + k ^ 2 * Real.sin (Real.sqrt (d ^ 2 - k ^ 2)) ^ 2) := by
  have h1 := uniform_passband d k hk hdk (by norm_num) h hR hS
  have e : (1 / 2 : ℝ) - -(1 / 2) = 1 := by norm_num
  rw [e, mul_one] at h1
  refine ⟨h1, ?_⟩
  rw [h1]
  have hpos : 0 < d ^ 2 - k ^ 2 := by
    have : k ^ 2 < |d| ^ 2 := by nlinarith
    rw [sq_abs] at this; linarith
  have hcs := Real.sin_sq_add_cos_sq (Real.sqrt (d ^ 2 - k ^ 2))
  have hk2 : k ^ 2 ≠ 0 := by positivity
  have hden : d ^ 2 / k ^ 2 - Real.cos (Real.sqrt (d ^ 2 - k ^ 2)) ^ 2 ≠ 0 := by
    have : 1 < d ^ 2 / k ^ 2 := by rw [one_lt_div (by positivity)]; linarith
    have : Real.cos (Real.sqrt (d ^ 2 - k ^ 2)) ^ 2 ≤ 1 := by nlinarith [sq_nonneg (Real.sin (Real.sqrt (d ^ 2 - k ^ 2)))]
    intro h0; linarith
  have hden2 : d ^ 2 - k ^ 2 + k ^ 2 * Real.sin (Real.sqrt (d ^ 2 - k ^ 2)) ^ 2 ≠ 0 := by
    have : 0 ≤ k ^ 2 * Real.sin (Real.sqrt (d ^ 2 - k ^ 2)) ^ 2 := by positivity
    intro h0; linarith
  rw [div_eq_div_iff hden hden2]
  field_simp
  linear_combination (Real.sin (Real.sqrt (d ^ 2 - k ^ 2)) ^ 2 * k ^ 2) * hcs

/-- at the band edge d² = k²: |ρ(−½)|² = k²/(1 + k²) (the common limit of the two formulas) -/
theorem uniform_bandedge_reflectivity {R S : ℝ → ℂ} (d k : ℝ) (hdk : d * d = k * k)
    (h : Solves (fun _ => d) (fun _ => k) (-(1 / 2)) (1 / 2) R S) (hR : R (1 / 2) = 1) (hS : S (1 / 2) = 0) :
    ‖S (-(1 / 2)) / R (-(1 / 2))‖ ^ 2 = k ^ 2 / (1 + k ^ 2) := by
  have := uniform_edge d k hdk (by norm_num) h hR hS
  rw [this]
  norm_num

/-- the clause of the statement, for the model: for the uniform profile and F = 0, ANY functions R, S whose derivatives are
    the model's right-hand side with R(½)=1, S(½)=0 have, at every frequency bin inside the stop band (|δ+s| < k),
    |S(−½)/R(−½)|² = sinh²(g)/(cosh²(g) − d²/k²) with d = δ + s, g = √(k² − d²) -/
theorem fbg_uniform_spectrum (c : Coef ℝ) (Rf Sf : ℝ → ℂ) (hin : |c.delta + c.s| < c.k)
    (hR' : ∀ z ∈ Set.Icc (-(1 / 2) : ℝ) (1 / 2),
      HasDerivWithinAt Rf ((rhs none 0 z c (ofC (Rf z)) (ofC (Sf z))).1.toC) (Set.Icc (-(1 / 2)) (1 / 2)) z)
    (hS' : ∀ z ∈ Set.Icc (-(1 / 2) : ℝ) (1 / 2),
      HasDerivWithinAt Sf ((rhs none 0 z c (ofC (Rf z)) (ofC (Sf z))).2.toC) (Set.Icc (-(1 / 2)) (1 / 2)) z)
    (hR : Rf (1 / 2) = 1) (hS : Sf (1 / 2) = 0) :
    ‖Sf (-(1 / 2)) / Rf (-(1 / 2))‖ ^ 2 =
      Real.sinh (Real.sqrt (c.k ^ 2 - (c.delta + c.s) ^ 2)) ^ 2
        / (Real.cosh (Real.sqrt (c.k ^ 2 - (c.delta + c.s) ^ 2)) ^ 2 - (c.delta + c.s) ^ 2 / c.k ^ 2) := by
  have h : Solves (fun _ => c.delta + c.s) (fun _ => c.k) (-(1 / 2)) (1 / 2) Rf Sf := by
    constructor
    · intro z hz
      have := hR' z hz
      rwa [(toC_rhs _ _ _ _ _ _).1, toC_ofC, toC_ofC, (model_uniform_coefficients_constant c z).1,
        (model_uniform_coefficients_constant c z).2] at this
    · intro z hz
      have := hS' z hz
      rwa [(toC_rhs _ _ _ _ _ _).2, toC_ofC, toC_ofC, (model_uniform_coefficients_constant c z).1,
        (model_uniform_coefficients_constant c z).2] at this
  exact uniform_stopband_reflectivity _ _ hin h hR hS

/-- full statement of the clause that is NOT a theorem here: the number `FBG` returns (RK45, rtol 1e-3) equals the exact
    solution's ρ to the accuracy of the solver.  Checked by the oracle on the real code (harness PARTIAL). -/
def C16_full_solver_accuracy (Hcomputed : ℂ) (a : ℝ) (R S : ℝ → ℂ) (tol : ℝ) : Prop :=
  ‖Hcomputed - S a / R a‖ ≤ tol

/-! ### parameter resolution -/

/-- an empty specification with the given `neff`, `v` -/
def base (neff v : ℝ) : Spec ℝ := ⟨neff, v, none, none, none, none, none, none, none⟩

/-- for a given vdneff the six routes — (fc | landa_D = c/fc) × (kL | L | N) — resolve to the same design,
    provided they describe the same grating: L = kL / (π·vdneff/λ_D) and N·λ_D/(2 neff) = L -/
theorem routes_equal (c0 neff v f vd k l n : ℝ)
    (hL : l = k / (Real.pi * vd / (c0 / f))) (hN : n * (c0 / f) / (2 * neff) = l) :
    let d : Except Wire.Err (Design ℝ) := .ok ⟨c0 / f, l, vd, 0⟩
    resolve c0 { base neff v with fc := some f, vdneff := some vd, kL := some k } = d ∧
    resolve c0 { base neff v with fc := some f, vdneff := some vd, L := some l } = d ∧
    resolve c0 { base neff v with fc := some f, vdneff := some vd, N := some n } = d ∧
    resolve c0 { base neff v with landaD := some (c0 / f), vdneff := some vd, kL := some k } = d ∧
    resolve c0 { base neff v with landaD := some (c0 / f), vdneff := some vd, L := some l } = d ∧
    resolve c0 { base neff v with landaD := some (c0 / f), vdneff := some vd, N := some n } = d := by
  simp only [resolve, base, lengthOf, nToL, two_real, zero_real, Transc.pi_real, hN, ← hL, and_self]

/-- the dneff routes: fc and the equivalent landa_D = c/(fc(1+dneff/neff)) give the same design -/
theorem routes_equal_dneff (c0 neff v f dn : ℝ) (kL L N : Option ℝ) :
    resolve c0 { base neff v with fc := some f, dneff := some dn, kL := kL, L := L, N := N } =
    resolve c0 { base neff v with landaD := some (1 / (1 + dn / neff) * c0 / f), dneff := some dn, kL := kL, L := L, N := N } := by
  simp only [resolve, base, one_real, mul_assoc]

/-- the (landa_D, kL, L) route is the (landa_D, dneff, L) route of the index change it computes -/
theorem routes_equal_kL (c0 neff v lam k l : ℝ) (hv : v ≠ 0) :
    resolve c0 { base neff v with landaD := some lam, kL := some k, L := some l } =
    resolve c0 { base neff v with landaD := some lam, dneff := some (k * lam / (Real.pi * l) / v), L := some l } := by
  simp only [resolve, base, lengthOf, Transc.pi_real]
  congr 2
  field_simp

/-- a route that specifies kL gets a grating whose kL (as printed / used: π/λ_D·vdneff·L) is the requested one -/
theorem resolved_kL (c0 f vd k : ℝ) (hc : c0 ≠ 0) (hf : f ≠ 0) (hvd : vd ≠ 0) :
    kLOut (⟨c0 / f, k / (Real.pi * vd / (c0 / f)), vd, 0⟩ : Design ℝ) = k := by
  have := Real.pi_ne_zero
  simp only [kLOut, Transc.pi_real]
  field_simp

/-- the fc + dneff route puts the centre of the grating (c/λc, λc = (1+dneff/neff)λ_D) at the requested fc -/
theorem resolved_fc (c0 neff f dn l : ℝ) (hc : c0 ≠ 0) (hf : f ≠ 0) (h1 : 1 + dn / neff ≠ 0) :
    fcOut c0 neff (⟨1 / (1 + dn / neff) * c0 / f, l, dn * 1, dn⟩ : Design ℝ) = f := by
  simp only [fcOut, lambdaC, one_real]
  field_simp

/-- the vdneff routes (dneff = 0) are centred at c/λ_D -/
theorem resolved_fc_vdneff (c0 neff f l vd : ℝ) (hc : c0 ≠ 0) (hf : f ≠ 0) :
    fcOut c0 neff (⟨c0 / f, l, vd, 0⟩ : Design ℝ) = f := by
  simp only [fcOut, lambdaC, one_real, zero_div, add_zero, one_mul]
  field_simp

/-- ValueError exactly on the incomplete specifications (the docstring's table, with the code's precedence), never any
    other error; a complete specification always resolves -/
theorem incomplete_spec (c0 : ℝ) (s : Spec ℝ) :
    (resolve c0 s = .error .ValueError ↔ complete s = false) ∧
    ((∃ d, resolve c0 s = .ok d) ↔ complete s = true) ∧
    (∀ e, resolve c0 s = .error e → e = .ValueError) := by
  obtain ⟨neff, v, ld, fc, kL, L, N, dn, vdn⟩ := s
  cases ld <;> cases fc <;> cases dn <;> cases vdn <;> cases kL <;> cases N <;> cases L <;>
    simp [resolve, complete, lengthOf]

/-- the response depends on the arguments only through the resolved design: equal designs ⇒ equal coefficients
    handed to the solver (hence the same right-hand side, the same H) -/
theorem same_design_same_coefficients (c0 f0 fs neff : ℝ) (n : ℕ) (s1 s2 : Spec ℝ) (d : Design ℝ)
    (h1 : resolve c0 s1 = .ok d) (h2 : resolve c0 s2 = .ok d) :
    (resolve c0 s1).map (fun d => coefs c0 f0 fs neff d n) = (resolve c0 s2).map (fun d => coefs c0 f0 fs neff d n) := by
  rw [h1, h2]

/-! ### from H to the output field -/

/-- the output spectrum is the input spectrum times `ifftshift(H)`, bin by bin, in every polarisation row -/
theorem output_is_filter (H xs : List (Cx ℝ)) :
    dft (applyRow H xs) = List.zipWith (· * ·) (dft xs) (ifftshift H) := by
  simp only [applyRow, applyH, dft_idft]

theorem output_length (H xs : List (Cx ℝ)) (hlen : H.length = xs.length) : (applyRow H xs).length = xs.length :=
  length_applyH _ _ (by rw [length_ifftshift, hlen])

/-- a passive response (|H_k| ≤ 1 at every bin) cannot add energy: energy(out row) ≤ energy(in row) -/
theorem output_energy_le (H xs : List (Cx ℝ)) (hlen : H.length = xs.length) (hH : ∀ h ∈ H, h.normSq ≤ 1) :
    sumSq (applyRow H xs) ≤ sumSq xs :=
  sumSq_applyH_le _ _ (by rw [length_ifftshift, hlen]) (fun h hh => hH h ((mem_ifftshift H h).mp hh))

/-- the group-delay correction `exp(−j w τ·1e-12)` is unimodular: it changes no |H_k| -/
theorem group_delay_correction_unimodular (psConv : ℝ) (ws : List ℝ) (tau : ℝ) (H : List (Cx ℝ)) :
    ∀ g ∈ gdCorrect psConv ws tau H, ∃ h ∈ H, g.normSq = h.normSq :=
  fun g hg => mem_gdCorrect psConv ws tau H g hg

/-- hence the whole tail of FBG: if the solver's ρ = S/R is passive at every bin, every polarisation of the returned field
    has at most the energy of the input, with or without the group-delay correction, and H is returned with it -/
theorem finish_energy_le (psConv c0 f0 fs neff : ℝ) (d : Design ℝ) (ff : Bool) (Rs Ss : List (Cx ℝ)) (tau : List ℝ)
    (rows : List (List (Cx ℝ))) (o : Out ℝ)
    (hrun : finish psConv c0 f0 fs neff d ff Rs Ss tau rows = .ok o)
    (hpass : ∀ h ∈ rho Rs Ss, h.normSq ≤ 1) (hlen : ∀ r ∈ rows, r.length = (rho Rs Ss).length)
    (hSR : Ss.length = Rs.length) :
    (∀ g ∈ o.H, g.normSq ≤ 1) ∧ o.rows = rows.map (applyRow o.H) ∧
    ∀ r ∈ rows, sumSq (applyRow o.H r) ≤ sumSq r := by
  have hw : (wShift Rs.length fs).length = (rho Rs Ss).length := by
    simp [wShift, length_fftshift, length_wAxis, rho, hSR]
  unfold finish at hrun
  simp only at hrun
  split at hrun
  · split at hrun
    · cases hrun
    · rename_i t _
      injection hrun with hrun
      subst hrun
      simp only
      have hH : ∀ g ∈ (if ff = true then gdCorrect psConv (wShift Rs.length fs) t (rho Rs Ss) else rho Rs Ss),
          g.normSq ≤ 1 := by
        intro g hg
        split at hg
        · obtain ⟨h, hh, e⟩ := mem_gdCorrect _ _ _ _ g hg
          rw [e]; exact hpass h hh
        · exact hpass g hg
      have hl : (if ff = true then gdCorrect psConv (wShift Rs.length fs) t (rho Rs Ss) else rho Rs Ss).length
          = (rho Rs Ss).length := by
        split
        · simp [gdCorrect, hw]
        · rfl
      refine ⟨hH, by trivial, ?_⟩
      intro r hr
      exact output_energy_le _ _ (by rw [hl, hlen r hr]) hH
  · cases hrun

/-! ### non-vacuity -/

/-- a concrete solution of the coupled-mode system: the uniform grating at the Bragg frequency -/
example : Solves (fun _ => 0) (fun z => 2 * (fun _ => (1 : ℝ)) z) (-(1 / 2)) (1 / 2)
    (fun z => ((Real.cosh (2 * (1 / 2 - z)) : ℝ) : ℂ)) (fun z => I * ((Real.sinh (2 * (1 / 2 - z)) : ℝ) : ℂ)) :=
  bragg_solution 2 (fun _ => 1) (fun z => z) (fun z _ => (hasDerivAt_id z).hasDerivWithinAt)

/-- the hypotheses of `routes_equal` are met by a concrete grating -/
example : ∃ c0 neff f vd k l n : ℝ, l = k / (Real.pi * vd / (c0 / f)) ∧ n * (c0 / f) / (2 * neff) = l ∧ l ≠ 0 :=
  ⟨1, 1, 1, 1, Real.pi, 1, 2, by field_simp, by norm_num, one_ne_zero⟩

/-- a passive two-bin response applied to a two-sample row -/
example : sumSq (applyRow [⟨1, 0⟩, ⟨0, 1 / 2⟩] [⟨1, 0⟩, ⟨0, 2⟩]) ≤ sumSq ([⟨1, 0⟩, ⟨0, 2⟩] : List (Cx ℝ)) :=
  output_energy_le _ _ rfl (by intro h hh; simp at hh; rcases hh with rfl | rfl <;> (simp [Cx.normSq]; try norm_num))

end OptiVerif.Props.C16
