/-
C04 — PRBS emits the maximal-length sequence of its ITU polynomial and can be resumed.
Property theorems only (helper lemmas live in Lemmas/Prbs*.lean).  The model (`Prbs.step`, `Prbs.run`,
`Prbs.normSeed`, `Prbs.prbs`) is built from `Gen/Prbs.lean`, which the translator regenerates from
`/repo/opticomlib/devices.py` on every run.
-/
import OptiVerif.Lemmas.PrbsRun
import OptiVerif.Lemmas.PrbsCertified

namespace OptiVerif.Props.C04
open OptiVerif OptiVerif.Prbs OptiVerif.PrbsCert Function

/-! ### the translated tables are the documented ones -/

/-- the tap table in the source is the documented ITU-T O.150 table `(n, [n, t])` -/
theorem taps_documented :
    Gen.Prbs.taps = [(7,7,6),(9,9,5),(11,11,9),(15,15,14),(20,20,3),(23,23,18),(31,31,28)] := by decide

theorem tapOffset_documented : Gen.Prbs.tapOffset = 1 := rfl

/-- the documented pairs (n, t) -/
def documented : List (Nat × Nat) := [(7,6),(9,5),(11,9),(15,14),(20,3),(23,18),(31,28)]

theorem lookup_documented (n t : Nat) (h : (n, t) ∈ documented) : lookup n = some (n, t) := by
  simp only [documented, List.mem_cons, Prod.mk.injEq, List.not_mem_nil, or_false] at h
  rcases h with ⟨rfl, rfl⟩ | ⟨rfl, rfl⟩ | ⟨rfl, rfl⟩ | ⟨rfl, rfl⟩ | ⟨rfl, rfl⟩ | ⟨rfl, rfl⟩ | ⟨rfl, rfl⟩ <;> decide

theorem lookup_some_documented (n a b : Nat) (h : lookup n = some (a, b)) : a = n ∧ (n, b) ∈ documented := by
  unfold lookup at h
  rw [taps_documented] at h
  simp only [List.find?_cons, List.find?_nil] at h
  repeat' split at h
  all_goals simp_all [documented]

/-- unsupported orders are exactly those outside {7,9,11,15,20,23,31} -/
theorem lookup_none_iff (n : Nat) : lookup n = none ↔ n ∉ [7,9,11,15,20,23,31] := by
  unfold lookup
  rw [taps_documented]
  simp only [List.find?_cons, List.find?_nil]
  constructor
  · intro h hmem
    simp only [List.mem_cons, List.not_mem_nil, or_false] at hmem
    rcases hmem with rfl | rfl | rfl | rfl | rfl | rfl | rfl <;> simp at h
  · intro h
    simp only [List.mem_cons, List.not_mem_nil, or_false, not_or] at h
    obtain ⟨h1, h2, h3, h4, h5, h6, h7⟩ := h
    have e : ∀ k, ¬ n = k → (k == n) = false := by intro k hk; simp; omega
    simp [e 7 h1, e 9 h2, e 11 h3, e 15 h4, e 20 h5, e 23 h6, e 31 h7]

/-- the loop body found in the source is the documented shift/feedback step -/
theorem loop_body_is_documented_step (n t s : Nat) :
    Prbs.step n n t s = ((s <<< 1) ||| (((s >>> (n-1)) ^^^ (s >>> (t-1))) &&& 1)) &&& (2^n - 1) :=
  step_eq n t s

/-- the emitted bit is the LSB of the state -/
theorem out_is_lsb (s : Nat) : Gen.Prbs.outBit s = s % 2 := outBit_eq s

/-! ### shift register structure and the linear recurrence -/

/-- bit j+1 of the next state is bit j of the current one (j+1 < n) -/
theorem shift_register_shift (n t s j : Nat) (hj : j + 1 < n) :
    (Prbs.step n n t s).testBit (j+1) = s.testBit j := by
  rw [step_eq]
  simp only [PrbsCert.step, Nat.testBit_and, Nat.testBit_or, Nat.testBit_shiftLeft,
    Nat.testBit_two_pow_sub_one]
  have h1 : (1:Nat).testBit (j+1) = false := by
    cases h : (1:Nat).testBit (j+1)
    · rfl
    · exact absurd (Nat.testBit_one_eq_true_iff_self_eq_zero.mp h) (by omega)
  simp [h1, hj]

/-- bit 0 of the next state is the feedback bit (n-1) xor bit (t-1) -/
theorem shift_register_feedback (n t s : Nat) (hn : 1 ≤ n) :
    (Prbs.step n n t s).testBit 0 = (s.testBit (n-1) ^^ s.testBit (t-1)) := by
  rw [step_eq]
  simp only [PrbsCert.step, Nat.testBit_and, Nat.testBit_or, Nat.testBit_shiftLeft,
    Nat.testBit_two_pow_sub_one, Nat.testBit_xor, Nat.testBit_shiftRight]
  have : 0 < n := hn
  simp [this]

/-- the output sequence extended to the `n` virtual predecessors given by the seed's bits:
    `a s m` for m ≥ 0 is the m-th emitted bit, `a s (-j)` is bit j of the seed -/
def a (n t s : Nat) (m : Int) : Bool :=
  if 0 ≤ m then ((Prbs.step n n t)^[m.toNat] s).testBit 0 else s.testBit (-m).toNat

/-- bit j of the state after m steps is the (extended) output j steps earlier -/
theorem state_bit (n t s : Nat) (m j : Nat) (hj : j < n) :
    ((Prbs.step n n t)^[m] s).testBit j = a n t s ((m : Int) - j) := by
  induction j generalizing m with
  | zero => simp [a]
  | succ j ih =>
    cases m with
    | zero =>
      have : ¬ (0 : Int) ≤ ((0:Nat):Int) - ((j+1 : Nat) : Int) := by omega
      simp only [a, this, if_false, Function.iterate_zero, id]
      congr 1
    | succ m =>
      rw [Function.iterate_succ_apply', shift_register_shift n t _ j hj, ih m (by omega)]
      congr 1; omega

/-- **the linear recurrence** `a[m] = a[m-n] xor a[m-t]` for every m ≥ 1 (1 ≤ t ≤ n), the seed's bits
    being the n virtual predecessors; `a[0]` is the seed's LSB. -/
theorem recurrence (n t s : Nat) (hn : 1 ≤ n) (ht : 1 ≤ t) (htn : t ≤ n) (m : Nat) (hm : 1 ≤ m) :
    a n t s m = (a n t s ((m:Int) - n) ^^ a n t s ((m:Int) - t)) := by
  obtain ⟨k, rfl⟩ : ∃ k, m = k + 1 := ⟨m - 1, by omega⟩
  have h0 : a n t s ((k+1 : Nat) : Int) = ((Prbs.step n n t)^[k+1] s).testBit 0 := by
    unfold a
    rw [if_pos (Int.natCast_nonneg _), Int.toNat_natCast]
  rw [h0, Function.iterate_succ_apply', shift_register_feedback n t _ hn,
    state_bit n t s k (n-1) (by omega), state_bit n t s k (t-1) (by omega)]
  congr 2 <;> omega

theorem first_output_is_seed_lsb (n t s : Nat) : a n t s 0 = s.testBit 0 := by simp [a]

theorem predecessors_are_seed_bits (n t s j : Nat) (hj : 1 ≤ j) : a n t s (-(j:Int)) = s.testBit j := by
  have : ¬ (0:Int) ≤ -(j:Int) := by omega
  unfold a
  rw [if_neg this]
  simp

/-- the bits returned by the loop are a[0], a[1], … -/
theorem run_bits (n t L s : Nat) :
    (Prbs.run n n t L s).1 = (List.range L).map (fun i : Nat => (a n t s (i : Int)).toNat) := by
  rw [run_fst]
  apply List.map_congr_left
  intro i _
  simp only [a, outBit_eq, Int.natCast_nonneg, if_true, Int.toNat_natCast]
  rw [Nat.testBit_zero]
  rcases Nat.mod_two_eq_zero_or_one ((Prbs.step n n t)^[i] s) with h | h <;> simp [h]

/-! ### maximal period (kernel-checked certificates) -/

theorem pr (q : Nat) (h : q ∈ [127,7,73,23,89,31,151,3,5,11,41,47,178481,2147483647]) : q.Prime :=
  PrbsCert.isPrimeB_sound q (List.all_eq_true.mp factors_prime q h)

theorem mem_of_prime_dvd_prod (p : ℕ) (hp : p.Prime) (l : List ℕ) (hl : ∀ q ∈ l, q.Prime)
    (h : p ∣ l.prod) : p ∈ l := by
  induction l with
  | nil => simp at h; exact absurd h hp.one_lt.ne'
  | cons x xs ih =>
    rw [List.prod_cons] at h
    rcases (Nat.Prime.dvd_mul hp).mp h with h | h
    · have := (Nat.prime_dvd_prime_iff_eq hp (hl x (by simp))).mp h
      simp [this]
    · exact List.mem_cons_of_mem _ (ih (fun q hq => hl q (List.mem_cons_of_mem _ hq)) h)

/-- the factor lists used in the certificates contain every prime divisor of 2^n - 1 -/
theorem primes_complete (n : Nat) (qs : List Nat)
    (h : (n, qs) ∈ [(7,[127]),(9,[7,73]),(11,[23,89]),(15,[7,31,151]),(20,[3,5,11,31,41]),
                     (23,[47,178481]),(31,[2147483647])]) :
    ∀ p, p.Prime → p ∣ 2^n - 1 → p ∈ qs := by
  intro p hp hd
  simp only [List.mem_cons, Prod.mk.injEq, List.not_mem_nil, or_false] at h
  rcases h with ⟨rfl, rfl⟩ | ⟨rfl, rfl⟩ | ⟨rfl, rfl⟩ | ⟨rfl, rfl⟩ | ⟨rfl, rfl⟩ | ⟨rfl, rfl⟩ | ⟨rfl, rfl⟩
  · exact mem_of_prime_dvd_prod p hp [127] (fun q hq => pr q (by simp only [List.mem_cons, List.not_mem_nil, or_false] at hq ⊢; omega)) (by norm_num at hd ⊢; exact hd)
  · exact mem_of_prime_dvd_prod p hp [7,73] (fun q hq => pr q (by simp only [List.mem_cons, List.not_mem_nil, or_false] at hq ⊢; omega)) (by norm_num at hd ⊢; exact hd)
  · exact mem_of_prime_dvd_prod p hp [23,89] (fun q hq => pr q (by simp only [List.mem_cons, List.not_mem_nil, or_false] at hq ⊢; omega)) (by norm_num at hd ⊢; exact hd)
  · exact mem_of_prime_dvd_prod p hp [7,31,151] (fun q hq => pr q (by simp only [List.mem_cons, List.not_mem_nil, or_false] at hq ⊢; omega)) (by norm_num at hd ⊢; exact hd)
  · have := mem_of_prime_dvd_prod p hp [3,5,5,11,31,41] (fun q hq => pr q (by simp only [List.mem_cons, List.not_mem_nil, or_false] at hq ⊢; omega)) (by norm_num at hd ⊢; exact hd)
    simp_all
  · exact mem_of_prime_dvd_prod p hp [47,178481] (fun q hq => pr q (by simp only [List.mem_cons, List.not_mem_nil, or_false] at hq ⊢; omega)) (by norm_num at hd ⊢; exact hd)
  · exact mem_of_prime_dvd_prod p hp [2147483647] (fun q hq => pr q (by simp only [List.mem_cons, List.not_mem_nil, or_false] at hq ⊢; omega)) (by norm_num at hd ⊢; exact hd)

theorem period_doc (n t : Nat) (h : (n, t) ∈ documented) (s : Nat) (hs0 : s ≠ 0) (hs : s < 2^n) :
    minimalPeriod (PrbsCert.step n t) s = 2^n - 1 := by
  simp only [documented, List.mem_cons, Prod.mk.injEq, List.not_mem_nil, or_false] at h
  rcases h with ⟨rfl, rfl⟩ | ⟨rfl, rfl⟩ | ⟨rfl, rfl⟩ | ⟨rfl, rfl⟩ | ⟨rfl, rfl⟩ | ⟨rfl, rfl⟩ | ⟨rfl, rfl⟩
  · exact PrbsCert.max_period_of_cert _ _ _ cert7 (primes_complete _ _ (by simp)) s hs0 hs
  · exact PrbsCert.max_period_of_cert _ _ _ cert9 (primes_complete _ _ (by simp)) s hs0 hs
  · exact PrbsCert.max_period_of_cert _ _ _ cert11 (primes_complete _ _ (by simp)) s hs0 hs
  · exact PrbsCert.max_period_of_cert _ _ _ cert15 (primes_complete _ _ (by simp)) s hs0 hs
  · exact PrbsCert.max_period_of_cert _ _ _ cert20 (primes_complete _ _ (by simp)) s hs0 hs
  · exact PrbsCert.max_period_of_cert _ _ _ cert23 (primes_complete _ _ (by simp)) s hs0 hs
  · exact PrbsCert.max_period_of_cert _ _ _ cert31 (primes_complete _ _ (by simp)) s hs0 hs

theorem doc_pos (n t : Nat) (h : (n, t) ∈ documented) : 1 ≤ n ∧ 1 ≤ t ∧ t ≤ n := by
  simp only [documented, List.mem_cons, Prod.mk.injEq, List.not_mem_nil, or_false] at h
  rcases h with ⟨rfl, rfl⟩ | ⟨rfl, rfl⟩ | ⟨rfl, rfl⟩ | ⟨rfl, rfl⟩ | ⟨rfl, rfl⟩ | ⟨rfl, rfl⟩ | ⟨rfl, rfl⟩ <;> omega

/-- **maximal period**: for each of the seven orders in the source's tap table, from *every* non-zero
    state the generator's state sequence has minimal period exactly 2^n - 1 (all 2^31-1 states of PRBS31
    included — by certificate, not enumeration). -/
theorem max_period (n a b : Nat) (h : lookup n = some (a, b)) (s : Nat) (hs0 : s ≠ 0) (hs : s < 2^n) :
    minimalPeriod (Prbs.step n a b) s = 2^n - 1 := by
  obtain ⟨rfl, hd⟩ := lookup_some_documented n a b h
  rw [step_eq_fun]
  exact period_doc _ b hd s hs0 hs

/-- the generator visits all non-zero states in one cycle -/
theorem visits_all (n a b : Nat) (h : lookup n = some (a, b)) (s : Nat) (hs0 : s ≠ 0) (hs : s < 2^n) :
    (Finset.range (2^n - 1)).image (fun i => (Prbs.step n a b)^[i] s) = Finset.Ioo 0 (2^n) := by
  obtain ⟨rfl, hd⟩ := lookup_some_documented n a b h
  rw [step_eq_fun]
  exact PrbsCert.orbit_eq_states _ b s (period_doc _ b hd s hs0 hs) hs0 hs

/-- 2^(n-1) ones per period -/
theorem ones_per_period (n a b : Nat) (h : lookup n = some (a, b)) (s : Nat) (hs0 : s ≠ 0) (hs : s < 2^n) :
    ((Prbs.run n a b (2^n - 1) s).1.filter (· = 1)).length = 2^(n-1) := by
  obtain ⟨rfl, hd⟩ := lookup_some_documented n a b h
  rw [run_fst, step_eq_fun]
  have := PrbsCert.ones_per_period _ b s (doc_pos _ b hd).1 (period_doc _ b hd s hs0 hs) hs0 hs
  rw [← this, List.filter_map, List.length_map, Finset.card_def, Finset.filter_val, Finset.range_val,
    Multiset.range, Multiset.filter_coe, Multiset.coe_card]
  congr 1
  apply List.filter_congr
  intro i _
  simp [outBit_eq]

/-- the emitted values are bits, for every length, order, taps and state -/
theorem run_emits_bits (n a b L s : Nat) : ∀ x ∈ (Prbs.run n a b L s).1, x = 0 ∨ x = 1 := by
  intro x hx
  rw [run_fst] at hx
  obtain ⟨i, _, rfl⟩ := List.mem_map.mp hx
  rw [outBit_eq]
  omega

/-- **balance**: one period holds `2^(n-1) − 1` zeros — exactly one fewer than ones (the m-sequence balance property) -/
theorem zeros_per_period (n a b : Nat) (h : lookup n = some (a, b)) (s : Nat) (hs0 : s ≠ 0) (hs : s < 2^n) :
    ((Prbs.run n a b (2^n - 1) s).1.filter (· = 0)).length = 2^(n-1) - 1 := by
  have h1 := ones_per_period n a b h s hs0 hs
  have hbits := run_emits_bits n a b (2^n - 1) s
  have hlen : (Prbs.run n a b (2^n - 1) s).1.length = 2^n - 1 := by rw [run_fst]; simp
  have hsplit : ∀ l : List Nat, (∀ x ∈ l, x = 0 ∨ x = 1) →
      (l.filter (· = 0)).length + (l.filter (· = 1)).length = l.length := by
    intro l hl
    induction l with
    | nil => rfl
    | cons x xs ih =>
      have := ih (fun y hy => hl y (List.mem_cons_of_mem _ hy))
      rcases hl x (by simp) with rfl | rfl <;> simp <;> omega
  have := hsplit _ hbits
  have hn := (doc_pos n b (lookup_some_documented n a b h).2).1
  have hp : 2 ^ n = 2 * 2 ^ (n - 1) := by
    obtain ⟨k, rfl⟩ : ∃ k, n = k + 1 := ⟨n - 1, by omega⟩
    simp [pow_succ, Nat.mul_comm]
  omega

/-- the output bit sequence itself is periodic with period 2^n-1 and no shorter state period exists -/
theorem output_periodic (n a b : Nat) (h : lookup n = some (a, b)) (s : Nat) (hs0 : s ≠ 0) (hs : s < 2^n) (i : Nat) :
    (Prbs.step n a b)^[i + (2^n - 1)] s = (Prbs.step n a b)^[i] s := by
  have hp := max_period n a b h s hs0 hs
  have := isPeriodicPt_minimalPeriod (Prbs.step n a b) s
  rw [hp] at this
  rw [Function.iterate_add_apply, this]

/-! ### seeds, validation, resumption -/

/-- seed normalisation: reduction mod 2^n (Python `%`: non-negative also for negative seeds),
    replaced by 1 with a warning iff congruent to 0 -/
theorem normSeed_some (n : Nat) (v : Int) :
    normSeed n (some v) = if v % 2^n = 0 then (1, true) else ((v % 2^n).toNat, false) := by
  simp only [normSeed, Gen.Prbs.seedMod]
  have hnn : 0 ≤ v % 2^n := Int.emod_nonneg _ (by positivity)
  by_cases h : v % 2^n = 0
  · simp [h]
  · have : (v % 2^n).toNat ≠ 0 := by omega
    simp [h, this]

theorem normSeed_none (n : Nat) (hn : 1 ≤ n) : normSeed n none = (2^n - 1, false) := by
  simp only [normSeed, Gen.Prbs.seedDefault, Nat.one_shiftLeft]
  have : 2 ≤ 2^n := by
    calc 2 = 2^1 := by norm_num
      _ ≤ 2^n := Nat.pow_le_pow_right (by norm_num) hn
  have : 2^n - 1 ≠ 0 := by omega
  simp [this]

/-- the initial state is always a non-zero n-bit state -/
theorem normSeed_range (n : Nat) (hn : 1 ≤ n) (seed : Option Int) :
    (normSeed n seed).1 ≠ 0 ∧ (normSeed n seed).1 < 2^n := by
  have h2 : 2 ≤ 2^n := by
    calc 2 = 2^1 := by norm_num
      _ ≤ 2^n := Nat.pow_le_pow_right (by norm_num) hn
  cases seed with
  | none => rw [normSeed_none n hn]; simp; omega
  | some v =>
    rw [normSeed_some]
    have hnn : 0 ≤ v % 2^n := Int.emod_nonneg _ (by positivity)
    have hlt : v % 2^n < 2^n := Int.emod_lt_of_pos _ (by positivity)
    split
    · simp; omega
    · next h =>
      refine ⟨by simp; omega, ?_⟩
      simp only
      have : ((v % 2^n).toNat : Int) < ((2^n : Nat) : Int) := by
        rw [Int.toNat_of_nonneg hnn]; exact_mod_cast hlt
      exact_mod_cast this

/-- a state already in range is taken as it is, without warning -/
theorem normSeed_of_state (n s : Nat) (hs0 : s ≠ 0) (hs : s < 2^n) : normSeed n (some (s:Int)) = (s, false) := by
  rw [normSeed_some]
  have : (s:Int) % 2^n = s := Int.emod_eq_of_lt (by positivity) (by exact_mod_cast hs)
  rw [this]
  have : (s:Int) ≠ 0 := by exact_mod_cast hs0
  rw [if_neg this]
  simp

/-- validation: unsupported order or non-positive len ⇒ ValueError (and nothing else is rejected) -/
theorem validate_spec (n : Nat) (len seed : Option Int) :
    (prbs n len seed = .error .ValueError ↔ (lookup n = none ∨ ∃ l, len = some l ∧ l ≤ 0)) ∧
    (∀ e, prbs n len seed = .error e → e = .ValueError) := by
  unfold prbs
  rcases hseed : normSeed n seed with ⟨s, w⟩
  simp only
  cases len with
  | none =>
    simp only [prbs.body]
    cases hl : lookup n with
    | none => simp
    | some ab => obtain ⟨a, b⟩ := ab; simp
  | some l =>
    by_cases hle : l ≤ 0
    · simp [hle]
    · simp only [hle, if_false, prbs.body]
      cases hl : lookup n with
      | none => simp
      | some ab => obtain ⟨a, b⟩ := ab; simp [hle]

/-- accepted request: the bits are `len` iterations of the loop from the normalised seed -/
theorem prbs_ok (n a b : Nat) (h : lookup n = some (a, b)) (l : Int) (hl : 0 < l) (seed : Option Int) :
    prbs n (some l) seed = .ok ⟨(run n a b l.toNat (normSeed n seed).1).1,
                               (run n a b l.toNat (normSeed n seed).1).2, (normSeed n seed).2⟩ := by
  unfold prbs
  rcases hseed : normSeed n seed with ⟨s, w⟩
  have : ¬ l ≤ 0 := by omega
  simp [this, prbs.body, h]

/-- every reachable state is again a non-zero n-bit state -/
theorem state_range (n a b : Nat) (h : lookup n = some (a, b)) (s : Nat) (hs0 : s ≠ 0) (hs : s < 2^n) (k : Nat) :
    (Prbs.step n a b)^[k] s ≠ 0 ∧ (Prbs.step n a b)^[k] s < 2^n := by
  have hv := visits_all n a b h s hs0 hs
  have hmem : (Prbs.step n a b)^[k % (2^n - 1)] s ∈ Finset.Ioo 0 (2^n) := by
    rw [← hv]
    apply Finset.mem_image_of_mem
    have : 0 < 2^n - 1 := by
      have : 1 < 2^n := by
        obtain ⟨rfl, hd⟩ := lookup_some_documented n a b h
        have := (doc_pos _ b hd).1
        calc 1 < 2^1 := by norm_num
          _ ≤ 2^a := Nat.pow_le_pow_right (by norm_num) this
      omega
    exact Finset.mem_range.mpr (Nat.mod_lt _ this)
  have hper := isPeriodicPt_minimalPeriod (Prbs.step n a b) s
  rw [max_period n a b h s hs0 hs] at hper
  have : (Prbs.step n a b)^[k] s = (Prbs.step n a b)^[k % (2^n - 1)] s := by
    conv_lhs => rw [← Nat.mod_add_div k (2^n - 1)]
    rw [Function.iterate_add_apply, (hper.mul_const _).eq]
  rw [this]
  simp only [Finset.mem_Ioo] at hmem
  exact ⟨by omega, hmem.2⟩

/-- **resumption**: generating l1+l2 bits in two calls, the second seeded with the state returned by the
    first, equals generating them in one call — for any split, any seed; no warning on resumption. -/
theorem resume (n a b : Nat) (h : lookup n = some (a, b)) (l1 l2 : Int) (h1 : 0 < l1) (h2 : 0 < l2)
    (seed : Option Int) (r1 r2 : Result)
    (e1 : prbs n (some l1) seed = .ok r1) (e2 : prbs n (some l2) (some (r1.state : Int)) = .ok r2) :
    prbs n (some (l1 + l2)) seed = .ok ⟨r1.bits ++ r2.bits, r2.state, r1.warned⟩ ∧ r2.warned = false := by
  have hn : 1 ≤ n := by
    obtain ⟨rfl, hd⟩ := lookup_some_documented n a b h
    exact (doc_pos _ b hd).1
  rw [prbs_ok n a b h l1 h1] at e1
  injection e1 with e1
  subst e1
  obtain ⟨hs0, hs⟩ := normSeed_range n hn seed
  have hst := state_range n a b h _ hs0 hs l1.toNat
  rw [prbs_ok n a b h l2 h2] at e2
  injection e2 with e2
  subst e2
  simp only [run_snd] at *
  rw [normSeed_of_state n _ hst.1 hst.2]
  rw [prbs_ok n a b h (l1 + l2) (by omega)]
  have : (l1 + l2).toNat = l1.toNat + l2.toNat := by omega
  rw [this, run_add]
  simp [run_snd]

/-! ### non-vacuity -/

example : lookup 7 = some (7, 6) := by decide
example : (prbs 7 (some 10) none).toOption.map (·.bits) = some [1,0,0,0,0,0,0,1,0,0] := by decide
example : (prbs 7 (some 10) (some 124)).toOption.map (·.bits) = some [0,0,0,0,0,1,0,0,0,0] := by decide
example : ∃ r1 r2, prbs 7 (some 3) (some 5) = .ok r1 ∧ prbs 7 (some 4) (some (r1.state : Int)) = .ok r2 :=
  ⟨_, _, rfl, rfl⟩

end OptiVerif.Props.C04
