/-
C14 — the global grid `gv` stays consistent over any history of `gv(...)` / `gv.clean()` calls; custom attributes persist
until `clean()`; no public function of devices / ppm / ook / utils writes to `gv` (static table).
Property theorems only (helper lemmas live in Lemmas/Gv.lean).  The model (`Gv.call`, `Gv.clean`, `Gv.run`) uses the
defaults of `Gen/Gv.lean`; `Gen/GvWriters.lean` is the translator's scan — both regenerated from the source on every run.

NOT theorems (runtime monitors of the harness, labelled partial): devices leave gv and their operands' sample data
unchanged at run time, seeded re-runs are bit-identical, results never alias arguments, order independence.
-/
import Mathlib.Analysis.SpecialFunctions.Trigonometric.Basic
import OptiVerif.Lemmas.Gv
import OptiVerif.Gen.GvWriters

namespace OptiVerif.Props.C14
open OptiVerif OptiVerif.Gv

/-! ### the translated defaults are the documented ones -/

theorem defaults_documented :
    Gen.Gv.initSps = 16 ∧ Gen.Gv.initR = 1000000000 ∧ Gen.Gv.initWavelength = 1550 / 1000000000 ∧
    Gen.Gv.cleanSps = 16 ∧ Gen.Gv.cleanR = 1000000000 ∧ Gen.Gv.cleanWavelength = 1550 / 1000000000 ∧
    Gen.Gv.callWavelength = 1550 / 1000000000 ∧
    Gen.Gv.cleanKeeps = ["sps", "R", "fs", "dt", "wavelength", "f0", "N", "t", "w", "dw"] := by
  refine ⟨rfl, ?_, ?_, rfl, ?_, ?_, ?_, rfl⟩ <;>
    norm_num [Gen.Gv.initR, Gen.Gv.initWavelength, Gen.Gv.cleanR, Gen.Gv.cleanWavelength, Gen.Gv.callWavelength]

/-! ### the invariant: the statement's grid consistency -/

/-- `fs = R·sps` (sps is an integer by its type), `dt = 1/fs` -/
def RateInv (s : State) : Prop := s.fs = s.R * s.sps ∧ s.fs ≠ 0 ∧ s.dt = 1 / s.fs

/-- `f0 = c / wavelength` -/
def WlInv (s : State) : Prop := s.wavelength ≠ 0 ∧ s.f0 = cLight / s.wavelength

/-- whenever a slot count `N` is in effect, `t`, `dw`, `w` are the grids of `N·sps` points computed from the values NOW in
    force (`t = linspace(0, N·sps·dt, N·sps)`, `dw = 2π·fs/(N·sps)`, `w = 2π·fftshift(fftfreq(N·sps))·fs`, the last two stored as
    coefficients of π); without a slot count there is no (stale) grid -/
def GridInv (s : State) : Prop :=
  match s.N with
  | none => s.t = none ∧ s.dwPi = none ∧ s.wPi = none
  | some n =>
    0 < n * s.sps ∧
    s.t = some (linspace (((n * s.sps : ℤ) : ℚ) * s.dt) (n * s.sps).toNat) ∧
    s.dwPi = some (2 * s.fs / ((n * s.sps : ℤ) : ℚ)) ∧
    s.wPi = some (wgrid (n * s.sps).toNat s.fs)

def Inv (s : State) : Prop := RateInv s ∧ WlInv s ∧ GridInv s

/-- what `Inv` says about the grids in the statement's words: `t` and `w` have `N·sps` points -/
theorem inv_grid_points {s : State} {n : ℤ} (h : Inv s) (hN : s.N = some n) :
    ∃ t w, s.t = some t ∧ s.wPi = some w ∧ (t.length : ℤ) = n * s.sps ∧ (w.length : ℤ) = n * s.sps := by
  obtain ⟨_, _, hg⟩ := h
  unfold GridInv at hg
  rw [hN] at hg
  obtain ⟨hpos, ht, _, hw⟩ := hg
  refine ⟨_, _, ht, hw, ?_, ?_⟩
  · rw [length_linspace]; exact Int.toNat_of_nonneg hpos.le
  · rw [length_wgrid]; exact Int.toNat_of_nonneg hpos.le

/-- … `t` starts at 0 and ends at `N·sps·dt` (numpy's `linspace(…, endpoint=True)` convention of the library) -/
theorem inv_t_ends {s : State} {n : ℤ} (h : Inv s) (hN : s.N = some n) (h2 : 2 ≤ n * s.sps) :
    ∃ t, s.t = some t ∧ t[0]? = some 0 ∧ t[(n * s.sps).toNat - 1]? = some (((n * s.sps : ℤ) : ℚ) * s.dt) := by
  obtain ⟨_, _, hg⟩ := h
  unfold GridInv at hg
  rw [hN] at hg
  obtain ⟨_, ht, _, _⟩ := hg
  have := linspace_ends (((n * s.sps : ℤ) : ℚ) * s.dt) (n * s.sps).toNat (by omega)
  exact ⟨_, ht, this.1, this.2⟩

/-- … and `dw = 2π·fs/(N·sps)` with the real number π -/
theorem inv_dw_real {s : State} {n : ℤ} (h : Inv s) (hN : s.N = some n) :
    ∃ c : ℚ, s.dwPi = some c ∧ (c : ℝ) * Real.pi = 2 * Real.pi * (s.fs : ℝ) / ((n : ℝ) * (s.sps : ℝ)) := by
  obtain ⟨_, _, hg⟩ := h
  unfold GridInv at hg
  rw [hN] at hg
  obtain ⟨_, _, hd, _⟩ := hg
  refine ⟨_, hd, ?_⟩
  push_cast
  ring

/-- … and `w[k] = 2π·(k − N·sps//2)/(N·sps)·fs`, i.e. `2π·fftshift(fftfreq(N·sps))·fs` on the CURRENT `fs` -/
theorem inv_w_real {s : State} {n : ℤ} (h : Inv s) (hN : s.N = some n) (k : ℕ) (hk : (k : ℤ) < n * s.sps) :
    ∃ w c, s.wPi = some w ∧ w[k]? = some c ∧
      (c : ℝ) * Real.pi =
        2 * Real.pi * (((k : ℤ) - (((n * s.sps).toNat / 2 : ℕ) : ℤ) : ℤ) : ℝ) / (((n * s.sps).toNat : ℕ) : ℝ) * (s.fs : ℝ) := by
  obtain ⟨_, _, hg⟩ := h
  unfold GridInv at hg
  rw [hN] at hg
  obtain ⟨hpos, _, _, hw⟩ := hg
  have hk' : k < (n * s.sps).toNat := by omega
  refine ⟨_, _, hw, getElem?_wgrid _ _ k hk', ?_⟩
  push_cast
  ring

/-! ### init and clean -/

theorem inv_init : Inv init := by
  obtain ⟨h1, h2, h3, -⟩ := defaults_documented
  refine ⟨⟨rfl, ?_, rfl⟩, ⟨?_, rfl⟩, ⟨rfl, rfl, rfl⟩⟩
  · show Gen.Gv.initR * Gen.Gv.initSps ≠ 0
    rw [h1, h2]; norm_num
  · show Gen.Gv.initWavelength ≠ 0
    rw [h3]; norm_num

theorem inv_clean (s : State) : Inv (clean s) := by
  obtain ⟨-, -, -, h1, h2, h3, -⟩ := defaults_documented
  refine ⟨⟨rfl, ?_, rfl⟩, ⟨?_, rfl⟩, ⟨rfl, rfl, rfl⟩⟩
  · show Gen.Gv.cleanR * Gen.Gv.cleanSps ≠ 0
    rw [h1, h2]; norm_num
  · show Gen.Gv.cleanWavelength ≠ 0
    rw [h3]; norm_num

/-- the numbers: 16 samples per slot, 1 GHz, 16 GSa/s, 62.5 ps, 1550 nm -/
theorem init_values :
    init.sps = 16 ∧ init.R = 1000000000 ∧ init.fs = 16000000000 ∧ init.dt = 1 / 16000000000 ∧
    init.wavelength = 1550 / 1000000000 ∧ init.f0 = 299792458 / (1550 / 1000000000) ∧ init.N = none := by
  obtain ⟨h1, h2, h3, -⟩ := defaults_documented
  simp only [init, h1, h2, h3, cLight]
  norm_num

/-- no custom attribute survives `clean()`: its keep list is exactly the ten standard attributes -/
theorem survives_false (kv : String × Val) : survives kv = false := by
  unfold survives
  rw [defaults_documented.2.2.2.2.2.2.2]
  exact Bool.and_not_self _

/-- **clean() restores every default**, whatever was stored before (callable values and `__…` names included) -/
theorem clean_restores_defaults (s : State) : clean s = init := by
  obtain ⟨h1, h2, h3, h4, h5, h6, -⟩ := defaults_documented
  have hc : s.custom.filter survives = [] := by
    rw [List.filter_eq_nil_iff]
    intro kv _
    simp [survives_false kv]
  simp only [clean, init, hc, h1, h2, h3, h4, h5, h6]

/-- FULL clause of the statement, now a theorem (it was refuted on the model of the code before the `fix:` commit that makes
    `clean()` delete every non-standard name of `vars(self)`) -/
theorem C14_full_clean : ∀ s : State, clean s = init := clean_restores_defaults

theorem clean_custom (s : State) : (clean s).custom = [] := by rw [clean_restores_defaults]; rfl

/-- after `clean()` every custom attribute is gone -/
theorem clean_forgets (s : State) (k : String) : lookup (clean s).custom k = none := by
  rw [clean_custom]; rfl

/-! ### one call -/

/-- the rates of a call are commensurate: when `sps` has to be derived from `fs` and `R` (because `sps` is not given), `fs`
    is an integer multiple of the slot rate in force -/
def Commensurate (s : State) (a : Args) : Prop :=
  truthy a.sps = none →
    (∀ r f, truthy a.R = some r → truthy a.fs = some f → ∃ k : ℤ, f = r * k) ∧
    (∀ f, truthy a.R = none → truthy a.fs = some f → ∃ k : ℤ, f = s.R * k)

theorem rates_ok {s : State} {a : Args} {k : ℤ} {r f : ℚ} (hc : Commensurate s a) (hs : s.fs = s.R * s.sps)
    (h : rates s a = .ok (k, r, f)) : f = r * k := by
  unfold rates at h
  unfold Commensurate at hc
  cases hsp : truthy a.sps with
  | some sp =>
    rw [hsp] at h
    simp only at h
    cases hR : truthy a.R with
    | some r' =>
      rw [hR] at h
      simp only [Except.ok.injEq, Prod.mk.injEq] at h
      obtain ⟨rfl, rfl, rfl⟩ := h; rfl
    | none =>
      rw [hR] at h
      simp only at h
      cases hf : truthy a.fs with
      | some f' =>
        rw [hf] at h
        simp only at h
        split at h
        · simp at h
        · rename_i hk
          simp only [Except.ok.injEq, Prod.mk.injEq] at h
          obtain ⟨rfl, rfl, rfl⟩ := h
          have : ((roundHalfEven sp : ℤ) : ℚ) ≠ 0 := by exact_mod_cast hk
          field_simp
      | none =>
        rw [hf] at h
        simp only [Except.ok.injEq, Prod.mk.injEq] at h
        obtain ⟨rfl, rfl, rfl⟩ := h; rfl
  | none =>
    rw [hsp] at h
    simp only at h
    obtain ⟨hc1, hc2⟩ := hc hsp
    cases hR : truthy a.R with
    | some r' =>
      rw [hR] at h
      simp only at h
      cases hf : truthy a.fs with
      | some f' =>
        rw [hf] at h
        simp only [Except.ok.injEq, Prod.mk.injEq] at h
        obtain ⟨rfl, rfl, rfl⟩ := h
        obtain ⟨K, hK⟩ := hc1 _ _ hR hf
        have hr : r' ≠ 0 := (truthy_some hR).2
        have : f' / r' = (K : ℚ) := by rw [hK]; field_simp
        rw [this, roundHalfEven_intCast, hK]
      | none =>
        rw [hf] at h
        simp only [Except.ok.injEq, Prod.mk.injEq] at h
        obtain ⟨rfl, rfl, rfl⟩ := h; rfl
    | none =>
      rw [hR] at h
      simp only at h
      cases hf : truthy a.fs with
      | some f' =>
        rw [hf] at h
        simp only at h
        split at h
        · simp at h
        · rename_i hR0
          simp only [Except.ok.injEq, Prod.mk.injEq] at h
          obtain ⟨rfl, rfl, rfl⟩ := h
          obtain ⟨K, hK⟩ := hc2 _ hR hf
          have : f' / s.R = (K : ℚ) := by rw [hK]; field_simp
          rw [this, roundHalfEven_intCast, hK]
      | none =>
        rw [hf] at h
        simp only [Except.ok.injEq, Prod.mk.injEq] at h
        obtain ⟨rfl, rfl, rfl⟩ := h
        exact hs

/-- inversion of a successful call: the three stages of `__call__` -/
theorem call_ok {s s' : State} {a : Args} (h : call s a = .ok s') :
    ∃ k r f s2 s3, rates s a = .ok (k, r, f) ∧ f ≠ 0 ∧
      withGrid { s with sps := k, R := r, fs := f, dt := 1 / f } (match a.N with | some n => some n | none => s.N) = .ok s2 ∧
      withWavelength s2 (match a.wavelength with | some w => w | none => Gen.Gv.callWavelength) = .ok s3 ∧
      s' = { s3 with custom := a.kw.foldl setKw s3.custom } := by
  unfold call at h
  simp only [bind, Except.bind, pure, Except.pure, throw, throwThe, MonadExceptOf.throw] at h
  split at h
  · simp at h
  · rename_i h0
    split at h
    · simp at h
    · rename_i krf hr
      obtain ⟨k, r, f⟩ := krf
      simp only at h
      split at h
      · simp at h
      · rename_i hf0
        split at h
        · simp at h
        · rename_i s2 hg
          split at h
          · simp at h
          · rename_i s3 hw
            simp only [Except.ok.injEq] at h
            refine ⟨k, r, f, s2, s3, hr, ?_, hg, hw, h.symm⟩
            intro hf
            rw [hf] at hf0
            simp at hf0

theorem withGrid_ok {s1 s2 : State} {N : Option ℤ} (h : withGrid s1 N = .ok s2)
    (hnone : N = none → GridInv s1) :
    GridInv s2 ∧ s2.sps = s1.sps ∧ s2.R = s1.R ∧ s2.fs = s1.fs ∧ s2.dt = s1.dt ∧ s2.wavelength = s1.wavelength ∧
      s2.f0 = s1.f0 ∧ s2.custom = s1.custom := by
  unfold withGrid at h
  cases N with
  | none =>
    simp only [Except.ok.injEq] at h
    subst h
    exact ⟨hnone rfl, rfl, rfl, rfl, rfl, rfl, rfl, rfl⟩
  | some n =>
    simp only at h
    split at h
    · simp at h
    · rename_i h1
      split at h
      · simp at h
      · rename_i h2
        simp only [Except.ok.injEq] at h
        subst h
        refine ⟨?_, rfl, rfl, rfl, rfl, rfl, rfl, rfl⟩
        unfold GridInv
        refine ⟨?_, rfl, rfl, rfl⟩
        show 0 < n * s1.sps
        omega

theorem withGrid_custom {s1 s2 : State} {N : Option ℤ} (h : withGrid s1 N = .ok s2) : s2.custom = s1.custom := by
  unfold withGrid at h
  cases N with
  | none => simp only [Except.ok.injEq] at h; subst h; rfl
  | some n =>
    dsimp only at h
    split at h
    · simp at h
    · split at h
      · simp at h
      · simp only [Except.ok.injEq] at h; subst h; rfl

theorem withWavelength_ok {s2 s3 : State} {wl : ℚ} (h : withWavelength s2 wl = .ok s3) :
    WlInv s3 ∧ s3.sps = s2.sps ∧ s3.R = s2.R ∧ s3.fs = s2.fs ∧ s3.dt = s2.dt ∧ s3.N = s2.N ∧ s3.t = s2.t ∧
      s3.dwPi = s2.dwPi ∧ s3.wPi = s2.wPi ∧ s3.custom = s2.custom := by
  unfold withWavelength at h
  split at h
  · simp at h
  · rename_i hw
    simp only [Except.ok.injEq] at h
    subst h
    exact ⟨⟨hw, rfl⟩, rfl, rfl, rfl, rfl, rfl, rfl, rfl, rfl, rfl⟩

/-- **inv_call**: a successful `gv(...)` with commensurate rates leaves the grid consistent — including the calls that omit
    `N` while a slot count is in force (`t`, `dw`, `w` then follow the new rates) and the calls that pass only custom keywords -/
theorem inv_call {s s' : State} {a : Args} (hc : Commensurate s a) (hi : Inv s) (h : call s a = .ok s') : Inv s' := by
  obtain ⟨k, r, f, s2, s3, hr, hf, hg, hw, rfl⟩ := call_ok h
  have hfr := rates_ok hc hi.1.1 hr
  have hnone : (match a.N with | some n => some n | none => s.N) = none →
      GridInv { s with sps := k, R := r, fs := f, dt := 1 / f } := by
    intro hn
    have hsN : s.N = none := by
      cases haN : a.N with
      | some n => rw [haN] at hn; simp at hn
      | none => rw [haN] at hn; exact hn
    have := hi.2.2
    unfold GridInv at this ⊢
    rw [hsN] at this
    simp only [hsN]
    exact this
  obtain ⟨g2, e1, e2, e3, e4, -, -, -⟩ := withGrid_ok hg hnone
  obtain ⟨w3, d1, d2, d3, d4, d5, d6, d7, d8, -⟩ := withWavelength_ok hw
  refine ⟨⟨?_, ?_, ?_⟩, w3, ?_⟩
  · show s3.fs = s3.R * s3.sps
    rw [d3, d2, d1, e3, e2, e1]; exact hfr
  · show s3.fs ≠ 0
    rw [d3, e3]; exact hf
  · show s3.dt = 1 / s3.fs
    rw [d4, d3, e4, e3]
  · unfold GridInv at g2 ⊢
    show match s3.N with
      | none => s3.t = none ∧ s3.dwPi = none ∧ s3.wPi = none
      | some n => 0 < n * s3.sps ∧ s3.t = some (linspace (((n * s3.sps : ℤ) : ℚ) * s3.dt) (n * s3.sps).toNat) ∧
          s3.dwPi = some (2 * s3.fs / ((n * s3.sps : ℤ) : ℚ)) ∧ s3.wPi = some (wgrid (n * s3.sps).toNat s3.fs)
    rw [d5, d6, d7, d8, d1, d3, d4]
    exact g2

/-! ### any history -/

/-- every call of the history is commensurate with the state it meets -/
def CommHist : State → List Op → Prop
  | _, [] => True
  | s, .clean :: ops => CommHist (clean s) ops
  | s, .call a :: ops => Commensurate s a ∧ ∀ s', call s a = .ok s' → CommHist s' ops

/-- **inv_history**: after ANY finite sequence of `gv(...)` and `gv.clean()` calls with commensurate rates that ran without
    an exception, the grid is consistent (induction over the op list; no bound on its length) -/
theorem inv_history (ops : List Op) : ∀ s, Inv s → CommHist s ops → ∀ s', run s ops = .ok s' → Inv s' := by
  induction ops with
  | nil =>
    intro s hi _ s' h
    simp only [run, Except.ok.injEq] at h
    subst h; exact hi
  | cons op ops ih =>
    intro s hi hc s' h
    cases op with
    | clean =>
      simp only [run, step] at h
      exact ih (clean s) (inv_clean s) hc s' h
    | call a =>
      simp only [run, step] at h
      obtain ⟨hc1, hc2⟩ := hc
      cases hcall : call s a with
      | error e => rw [hcall] at h; simp at h
      | ok s1 =>
        rw [hcall] at h
        exact ih s1 (inv_call hc1 hi hcall) (hc2 s1 hcall) s' h

/-- … in particular from the freshly imported library -/
theorem inv_history_from_init (ops : List Op) (hc : CommHist init ops) (s' : State) (h : run init ops = .ok s') : Inv s' :=
  inv_history ops init inv_init hc s' h

/-- a history may end with `clean()`: everything is back to the defaults, whatever the history stored -/
theorem history_then_clean (ops : List Op) (s s' : State) (h : run s (ops ++ [.clean]) = .ok s') : s' = init := by
  induction ops generalizing s with
  | nil =>
    simp only [List.nil_append, run, step, Except.ok.injEq] at h
    subst h
    exact clean_restores_defaults s
  | cons op ops ih =>
    simp only [List.cons_append, run] at h
    cases hst : step s op with
    | error e => rw [hst] at h; simp at h
    | ok s1 =>
      rw [hst] at h
      exact ih s1 h

/-! ### custom attributes -/

/-- a custom attribute not mentioned by a call keeps its value (and the standard fields are never touched by keywords) -/
theorem custom_persist_call {s s' : State} {a : Args} (h : call s a = .ok s') (k : String)
    (hk : ∀ kv ∈ a.kw, kv.1 ≠ k) : lookup s'.custom k = lookup s.custom k := by
  obtain ⟨k0, r, f, s2, s3, _, _, hg, hw, rfl⟩ := call_ok h
  have e := withWavelength_ok hw
  show lookup (a.kw.foldl setKw s3.custom) k = _
  rw [lookup_foldl_setKw_other _ _ _ hk, e.2.2.2.2.2.2.2.2.2, withGrid_custom hg]

/-- a keyword sets the attribute (the last occurrence wins) -/
theorem custom_set_call {s s' : State} {a : Args} (h : call s a = .ok s') (k : String) (v : Val)
    (pre post : List (String × Val)) (hkw : a.kw = pre ++ (k, v) :: post) (hpost : ∀ kv ∈ post, kv.1 ≠ k) :
    lookup s'.custom k = some v := by
  obtain ⟨k0, r, f, s2, s3, _, _, _, _, rfl⟩ := call_ok h
  show lookup (a.kw.foldl setKw s3.custom) k = _
  rw [hkw, List.foldl_append, List.foldl_cons, lookup_foldl_setKw_other _ _ _ hpost, lookup_setKw_same]

/-- **custom attributes persist until clean()**: over any history of calls that do not mention the name -/
theorem custom_persist_history (k : String) (ops : List Op) :
    ∀ s s', (∀ op ∈ ops, ∃ a, op = .call a ∧ ∀ kv ∈ a.kw, kv.1 ≠ k) → run s ops = .ok s' →
      lookup s'.custom k = lookup s.custom k := by
  induction ops with
  | nil =>
    intro s s' _ h
    simp only [run, Except.ok.injEq] at h
    subst h; rfl
  | cons op ops ih =>
    intro s s' hall h
    obtain ⟨a, rfl, ha⟩ := hall op (List.mem_cons_self)
    simp only [run, step] at h
    cases hcall : call s a with
    | error e => rw [hcall] at h; simp at h
    | ok s1 =>
      rw [hcall] at h
      rw [ih s1 s' (fun o ho => hall o (List.mem_cons_of_mem _ ho)) h, custom_persist_call hcall k ha]

/-! ### rounding used by the ladder -/

/-- `int(np.round(q))`: nearest integer … -/
theorem round_nearest (q : ℚ) : |q - roundHalfEven q| ≤ 1 / 2 := roundHalfEven_close q

/-- … an integer is kept … -/
theorem round_int (k : ℤ) : roundHalfEven (k : ℚ) = k := roundHalfEven_intCast k

/-- … and ties go to the even neighbour (8.5 → 8, 9.5 → 10, −0.5 → 0) -/
theorem round_ties (k : ℤ) : roundHalfEven ((k : ℚ) + 1 / 2) = if k % 2 = 0 then k else k + 1 := by
  unfold roundHalfEven
  have hf : ((k : ℚ) + 1 / 2).floor = k := by
    rw [floor_eq_intFloor, Int.floor_eq_iff]
    constructor <;> linarith
  simp only [hf]
  rw [if_neg (by norm_num), if_neg (by norm_num)]

/-! ### nobody else writes to gv (static table produced by the translator) -/

/-- the scan of devices.py, ppm.py, ook.py, utils.py (every function, nested function, method and module-level statement)
    found no assignment / deletion / in-place change of a `gv` attribute, no `gv(...)`, `gv.clean()`, `setattr(gv, …)`,
    `gv.__dict__`, rebinding or escape of the object -/
theorem no_writers : Gen.GvWriters.writers = [] := rfl

/-- … and the scan did cover the four modules and found public functions and reads of `gv` in them (not vacuous) -/
theorem scan_covers :
    Gen.GvWriters.scanned.map (·.1) = ["devices", "ppm", "ook", "utils"] ∧
    (∀ r ∈ Gen.GvWriters.scanned, 0 < r.2.2.1) ∧
    0 < (Gen.GvWriters.scanned.map (·.2.2.2)).sum := by
  decide

/-! ### concrete instances (tests, not theorems) -/

/-- the history of DESIGN.md §5 "seen while reading": a later call that omits `N` — the grid follows the new rates -/
example : (run init [.call { sps := some 8, R := some 1000000000, N := some 10 },
                     .call { sps := some 16, R := some 1000000000 }]).map
    (fun s => (s.sps, s.N, s.t.map List.length, s.wPi.map List.length, s.dwPi)) =
    .ok (16, some 10, some 160, some 160, some 200000000) := by decide +kernel

/-- a callable custom attribute and a `__…` name are stored by a call and removed by `clean()` -/
example : (run init [.call { kw := [("shape", .callable), ("__x", .num 5)] }]).map (fun s => s.custom.length) = .ok 2 := by
  decide +kernel
example : run init [.call { kw := [("shape", .callable), ("__x", .num 5)] }, .clean] = .ok init := by decide +kernel

/-- a non-commensurate call really breaks `fs = R·sps` (so the hypothesis of `inv_call` is needed): fs/R = 8.5 → sps = 8 -/
example : (run init [.call { R := some 1000000000, fs := some 8500000000 }]).map (fun s => (s.sps, decide (s.fs = s.R * (s.sps : ℚ)))) =
    .ok (8, false) := by decide +kernel

example : Commensurate init { fs := some 32000000000 } := by
  intro _
  constructor
  · intro r f h; simp [truthy] at h
  · intro f _ h
    simp only [truthy] at h
    split at h
    · simp at h
    · simp only [Option.some.injEq] at h
      subst h
      exact ⟨32, by simp only [init_values.2.1]; norm_num⟩

end OptiVerif.Props.C14
