/-
C18 — ADC is a true n-bit quantiser; shortest_int returns a shortest covering interval.
Property theorems only (helper lemmas: Lemmas/Quant.lean).  Models: `Quant.shortestIntP` / `Quant.shortestInt`,
`Quant.quantise` / `Quant.adc` (Model/Quant.lean, exact `Rat`), with the literals of the source
(`100`, the relative tie tolerance `1e-10`, `//2`, `99.99`) translated into `Gen/Quant.lean` on every run.

The ADC theorems carry the explicit guard `V_min < V_max`: a constant record has no full-scale range
(the code divides 0 by 0 there); it is an excluded point (`quantise_degenerate`).
-/
import OptiVerif.Lemmas.Quant
import OptiVerif.Lemmas.QuantMono
import OptiVerif.Lemmas.QuantAffine

namespace OptiVerif.Props.C18
open OptiVerif OptiVerif.Quant

/-! ### the translated constants -/

theorem constants_documented :
    Gen.Quant.percentDivisor = 100 ∧ Gen.Quant.tieTol = 1 / 10 ^ 10 ∧ Gen.Quant.centralDivisor = 2 ∧
    Gen.Quant.adcPercent = 9999 / 100 := by
  refine ⟨rfl, ?_, rfl, rfl⟩
  unfold Gen.Quant.tieTol; norm_num

/-! ### shortest_int -/

/-- `np.sort`: the working array is sorted and a rearrangement of the data -/
theorem sort_is_sorted_perm (data : List Rat) : (sort data).Pairwise (· ≤ ·) ∧ (sort data).Perm data :=
  ⟨sort_sorted data, sort_perm data⟩

/-- `lag = ⌊p·n/100⌋` for `p ≥ 0` -/
theorem lag_is_floor (n : Nat) (p : Rat) (hp : 0 ≤ p) :
    ((lagOf Gen.Quant.percentDivisor n p : Nat) : Int) = ⌊(n : Rat) * p / 100⌋ := by
  unfold lagOf
  have h100 : Gen.Quant.percentDivisor = 100 := rfl
  rw [h100]
  have hnn : 0 ≤ (n : Rat) * p / 100 := by positivity
  have hfl : (0 : Int) ≤ ⌊(n : Rat) * p / 100⌋ := Int.floor_nonneg.mpr hnn
  have e : ((n : Rat) * p / 100).floor = ⌊(n : Rat) * p / 100⌋ := rfl
  rw [e]
  omega

/-- **shortest_is_order_pair**: the returned values are the order statistics `i` and `i + lag` of the data,
    so `lo ≤ hi` -/
theorem shortest_is_order_pair (div tol : Rat) (cdiv : Nat) (p : Rat) (data : List Rat) (lo hi : Rat)
    (h : shortestIntP div tol cdiv p data = .ok (lo, hi)) :
    ∃ i, ∃ h' : i + lagOf div data.length p < (sort data).length,
      lo = (sort data)[i]'(by omega) ∧ hi = (sort data)[i + lagOf div data.length p] ∧ lo ≤ hi := by
  obtain ⟨i, hi', h1, h2, _⟩ := pick_spec tol cdiv _ _ lo hi (shortestIntP_ok h).1
  refine ⟨i, hi', h1, h2, ?_⟩
  rw [h1, h2]
  exact sorted_getElem_le (sort_sorted data) i _ (by omega) _

/-- **shortest_minimal**: no other pair of order statistics `lag` apart is closer together by more than the RELATIVE
    tie tolerance: `hi − lo ≤ (1 + tol) · w` for the width `w` of every such pair (`tol = 1e-10` in the source) -/
theorem shortest_minimal (div tol : Rat) (cdiv : Nat) (p : Rat) (data : List Rat) (lo hi : Rat) (htol : 0 ≤ tol)
    (h : shortestIntP div tol cdiv p data = .ok (lo, hi)) (j : Nat)
    (hj : j + lagOf div data.length p < (sort data).length) :
    hi - lo ≤ (1 + tol) * ((sort data)[j + lagOf div data.length p] - (sort data)[j]'(by omega)) := by
  obtain ⟨i, hi', h1, h2, m, ⟨k, hk, hmk⟩, hmin, hclose⟩ := pick_spec tol cdiv _ _ lo hi (shortestIntP_ok h).1
  have hm0 : 0 ≤ m := by
    rw [hmk]
    have := sorted_getElem_le (sort_sorted data) k (k + lagOf div data.length p) (by omega) hk
    linarith
  rw [abs_of_nonneg hm0] at hclose
  have hj' := hmin j hj
  rw [h1, h2]
  calc (sort data)[i + lagOf div data.length p] - (sort data)[i]'(by omega) ≤ m + tol * m := hclose
    _ = (1 + tol) * m := by ring
    _ ≤ (1 + tol) * _ := mul_le_mul_of_nonneg_left hj' (by linarith)

/-- when some pair of order statistics `lag` apart coincides (width 0, e.g. heavy ties), the returned width is 0 too:
    ties are exact at zero width -/
theorem shortest_minimal_zero (div tol : Rat) (cdiv : Nat) (p : Rat) (data : List Rat) (lo hi : Rat) (htol : 0 ≤ tol)
    (h : shortestIntP div tol cdiv p data = .ok (lo, hi)) (j : Nat)
    (hj : j + lagOf div data.length p < (sort data).length)
    (hz : (sort data)[j + lagOf div data.length p] = (sort data)[j]'(by omega)) : hi = lo := by
  have hmin := shortest_minimal div tol cdiv p data lo hi htol h j hj
  obtain ⟨_, _, _, _, hle⟩ := shortest_is_order_pair div tol cdiv p data lo hi h
  rw [hz, sub_self, mul_zero] at hmin
  linarith

/-- when no other width lies strictly within the relative tolerance above the returned one, the returned width is the
    minimum -/
theorem shortest_minimal_exact (div tol : Rat) (cdiv : Nat) (p : Rat) (data : List Rat) (lo hi : Rat) (htol : 0 ≤ tol)
    (h : shortestIntP div tol cdiv p data = .ok (lo, hi)) (j : Nat)
    (hj : j + lagOf div data.length p < (sort data).length)
    (hgap : ∀ w, w = (sort data)[j + lagOf div data.length p] - (sort data)[j]'(by omega) →
      hi - lo ≤ w ∨ tol * w < hi - lo - w) :
    hi - lo ≤ (sort data)[j + lagOf div data.length p] - (sort data)[j]'(by omega) := by
  have := shortest_minimal div tol cdiv p data lo hi htol h j hj
  rcases hgap _ rfl with h' | h'
  · exact h'
  · linarith

/-- **shortest_covers**: the closed interval `[lo, hi]` contains at least `lag + 1` of the samples -/
theorem shortest_covers (div tol : Rat) (cdiv : Nat) (p : Rat) (data : List Rat) (lo hi : Rat)
    (h : shortestIntP div tol cdiv p data = .ok (lo, hi)) :
    lagOf div data.length p + 1 ≤ data.countP (fun x => decide (lo ≤ x ∧ x ≤ hi)) := by
  obtain ⟨i, hi', h1, h2, _⟩ := shortest_is_order_pair div tol cdiv p data lo hi h
  rw [← (sort_perm data).countP_eq, h1, h2]
  exact count_between (sort_sorted data) i _ hi'

/-- the call succeeds for every percentage `p ≥ 0` with `lag < len(data)` (non-negative tolerance, central index `//2`) -/
theorem shortest_succeeds (div tol : Rat) (cdiv : Nat) (p : Rat) (data : List Rat) (hp : 0 ≤ p) (htol : 0 ≤ tol)
    (hc : 2 ≤ cdiv) (hl : lagOf div data.length p < data.length) :
    ∃ r, shortestIntP div tol cdiv p data = .ok r := by
  unfold shortestIntP
  rw [if_neg (not_lt.mpr hp)]
  simp only [sort_length]
  rw [if_neg (by omega)]
  exact pick_ok tol cdiv _ _ htol hc (by rw [sort_length]; exact hl)

/-- with the constants of the source -/
theorem shortestInt_succeeds (p : Rat) (data : List Rat) (hp : 0 ≤ p)
    (hl : lagOf Gen.Quant.percentDivisor data.length p < data.length) : ∃ r, shortestInt p data = .ok r :=
  shortest_succeeds _ _ _ p data hp (by unfold Gen.Quant.tieTol; norm_num) (by decide) hl

/-- `lag ≥ len(data)` (p = 100, or empty data): numpy raises ValueError -/
theorem shortest_rejects (div tol : Rat) (cdiv : Nat) (p : Rat) (data : List Rat) (hp : 0 ≤ p)
    (hl : data.length ≤ lagOf div data.length p) : shortestIntP div tol cdiv p data = .error .ValueError := by
  unfold shortestIntP
  rw [if_neg (not_lt.mpr hp)]
  simp only [sort_length]
  rw [if_pos (by omega)]

/-- non-vacuity, and the tie pattern of the repaired defect: nine samples, 25 % -/
example : ∃ r, shortestInt 25 [0, 0, 0, 5, 6, 7, 9, 9, 9] = .ok r :=
  shortestInt_succeeds 25 _ (by norm_num) (by decide +kernel)
example : pick Gen.Quant.tieTol Gen.Quant.centralDivisor [0, 0, 0, 5, 6, 7, 9, 9, 9] 2 = .ok (9, 9) := by decide +kernel

/-! ### ADC -/

/-- the range estimate of `ADC` is `shortest_int(signal, 99.99)`, and the rest is the quantiser -/
theorem adc_is_quantise (signal : List Rat) (n : Nat) (ot : OType) (r : AdcOut) (h : adc signal n ot = .ok r) :
    ∃ vmin vmax, shortestInt Gen.Quant.adcPercent signal = .ok (vmin, vmax) ∧ vmin ≤ vmax ∧
      quantise vmin vmax n ot signal = .ok r := by
  unfold adc adcWith at h
  cases hs : shortestInt Gen.Quant.adcPercent signal with
  | error e => rw [hs] at h; cases h
  | ok v =>
    rw [hs] at h
    obtain ⟨vmin, vmax⟩ := v
    refine ⟨vmin, vmax, rfl, ?_, h⟩
    obtain ⟨i, _, h1, h2, hle⟩ := shortest_is_order_pair _ _ _ _ signal vmin vmax hs
    exact hle

/-- the excluded point: a degenerate range is not quantised (0/0 in the code) -/
theorem quantise_degenerate (v : Rat) (n : Nat) (ot : OType) (signal : List Rat) (ho : ot ≠ .other) :
    quantise v v n ot signal = .error .Other := by
  unfold quantise
  rw [if_neg ho, if_pos rfl]

/-- an accepted call returns the codes of the samples, as codes (`'n'`) or as levels (`'v'`) -/
theorem quantise_ok (vmin vmax : Rat) (n : Nat) (ot : OType) (signal : List Rat) (r : AdcOut)
    (h : quantise vmin vmax n ot signal = .ok r) :
    r.vmin = vmin ∧ r.vmax = vmax ∧ r.codes = signal.map (code vmin vmax n) ∧
    ((ot = .n ∧ r.out = r.codes.map (fun (c : Int) => (c : Rat))) ∨
     (ot = .v ∧ 1 ≤ n ∧ r.out = r.codes.map (level vmin vmax n))) := by
  unfold quantise at h
  cases ot with
  | other => simp at h
  | n =>
    by_cases h2 : vmax = vmin
    · simp [h2] at h
    · simp only [reduceCtorEq, if_false, h2] at h
      injection h with h; subst h
      exact ⟨rfl, rfl, rfl, Or.inl ⟨rfl, rfl⟩⟩
  | v =>
    by_cases h2 : vmax = vmin
    · simp [h2] at h
    · by_cases h3 : n = 0
      · simp [h2, h3] at h
      · simp only [reduceCtorEq, if_false, h2, h3] at h
        injection h with h; subst h
        exact ⟨rfl, rfl, rfl, Or.inr ⟨rfl, by omega, rfl⟩⟩

/-- **adc_len**: one output sample per input sample -/
theorem adc_len (vmin vmax : Rat) (n : Nat) (ot : OType) (signal : List Rat) (r : AdcOut)
    (h : quantise vmin vmax n ot signal = .ok r) : r.out.length = signal.length ∧ r.codes.length = signal.length := by
  obtain ⟨_, _, hc, ho⟩ := quantise_ok vmin vmax n ot signal r h
  rcases ho with ⟨_, ho⟩ | ⟨_, _, ho⟩ <;> simp [ho, hc]

/-- **adc_codes_range**: every code is an integer in `[0, 2ⁿ − 1]` -/
theorem adc_codes_range (vmin vmax : Rat) (n : Nat) (ot : OType) (signal : List Rat) (r : AdcOut)
    (h : quantise vmin vmax n ot signal = .ok r) : ∀ c ∈ r.codes, 0 ≤ c ∧ c ≤ 2 ^ n - 1 := by
  obtain ⟨_, _, hc, _⟩ := quantise_ok vmin vmax n ot signal r h
  intro c hcm
  rw [hc] at hcm
  obtain ⟨s, _, rfl⟩ := List.mem_map.mp hcm
  exact code_range vmin vmax n s

/-- **adc_levels**: at most `2ⁿ` distinct output values (both output types) -/
theorem adc_levels (vmin vmax : Rat) (n : Nat) (ot : OType) (signal : List Rat) (r : AdcOut)
    (h : quantise vmin vmax n ot signal = .ok r) : r.out.toFinset.card ≤ 2 ^ n := by
  have hr := adc_codes_range vmin vmax n ot signal r h
  have hc := distinct_codes_le n r.codes hr
  obtain ⟨_, _, _, ho⟩ := quantise_ok vmin vmax n ot signal r h
  rcases ho with ⟨_, ho⟩ | ⟨_, _, ho⟩ <;> rw [ho] <;> exact le_trans (distinct_map_le _ _) hc

/-- **adc_within_fullscale**: with `otype='v'` every output lies in `[V_min, V_max]` -/
theorem adc_within_fullscale (vmin vmax : Rat) (n : Nat) (signal : List Rat) (r : AdcOut) (hr : vmin < vmax)
    (h : quantise vmin vmax n .v signal = .ok r) : ∀ y ∈ r.out, vmin ≤ y ∧ y ≤ vmax := by
  obtain ⟨_, _, hc, ho⟩ := quantise_ok vmin vmax n .v signal r h
  rcases ho with ⟨hn, _⟩ | ⟨_, hn, ho⟩
  · cases hn
  · intro y hy
    rw [ho] at hy
    obtain ⟨c, hcm, rfl⟩ := List.mem_map.mp hy
    have := adc_codes_range vmin vmax n .v signal r h c hcm
    exact level_within vmin vmax n hn hr c this.1 this.2

/-- **adc_in_range_half_step** (`'v'`): a sample inside `[V_min, V_max]` moves by at most half a quantisation step -/
theorem adc_in_range_half_step (vmin vmax : Rat) (n : Nat) (signal : List Rat) (r : AdcOut) (hr : vmin < vmax)
    (h : quantise vmin vmax n .v signal = .ok r) (k : Nat) (hk : k < signal.length)
    (h1 : vmin ≤ signal[k]) (h2 : signal[k] ≤ vmax) :
    ∃ hk' : k < r.out.length, |r.out[k] - signal[k]| ≤ (vmax - vmin) / ((2 ^ n - 1 : Int) : Rat) / 2 := by
  obtain ⟨_, _, hc, ho⟩ := quantise_ok vmin vmax n .v signal r h
  rcases ho with ⟨hn, _⟩ | ⟨_, hn, ho⟩
  · cases hn
  · have hlen := (adc_len vmin vmax n .v signal r h).1
    refine ⟨by omega, ?_⟩
    have : r.out[k]'(by omega) = level vmin vmax n (code vmin vmax n signal[k]) := by
      simp [ho, hc]
    rw [this]
    exact level_code_close vmin vmax n hn _ hr h1 h2

/-- the same on the codes (`'n'`): the code is within one half of the sample's exact position in the code scale -/
theorem adc_in_range_half_code (vmin vmax : Rat) (n : Nat) (s : Rat) (hr : vmin < vmax) (h1 : vmin ≤ s) (h2 : s ≤ vmax) :
    |((code vmin vmax n s : Int) : Rat) - (s - vmin) / (vmax - vmin) * ((2 ^ n - 1 : Int) : Rat)| ≤ 1 / 2 := by
  rw [code_inside vmin vmax n s hr h1 h2]
  exact roundHalfEven_close _

/-- **adc_saturates**: samples below the range get code 0 (level `V_min`), samples above it code `2ⁿ − 1` (level `V_max`) -/
theorem adc_saturates (vmin vmax : Rat) (n : Nat) (s : Rat) (hr : vmin < vmax) :
    (s < vmin → code vmin vmax n s = 0 ∧ level vmin vmax n (code vmin vmax n s) = vmin) ∧
    (vmax < s → code vmin vmax n s = 2 ^ n - 1 ∧ (1 ≤ n → level vmin vmax n (code vmin vmax n s) = vmax)) := by
  constructor
  · intro hs
    rw [code_low vmin vmax n s hr hs]
    exact ⟨rfl, level_zero vmin vmax n⟩
  · intro hs
    rw [code_high vmin vmax n s hr hs]
    exact ⟨rfl, fun hn => level_top vmin vmax n hn⟩

/-! ### the quantiser as an order-preserving, idempotent, unit-free map -/

/-- **adc_monotone**: the quantiser preserves order — a larger sample never receives a smaller code, nor (for `'v'`)
    a smaller level.  Holds for every sample, inside or outside the full-scale range. -/
theorem adc_monotone (vmin vmax : Rat) (n : Nat) (hr : vmin < vmax) (s s' : Rat) (h : s ≤ s') :
    code vmin vmax n s ≤ code vmin vmax n s' ∧
    (1 ≤ n → level vmin vmax n (code vmin vmax n s) ≤ level vmin vmax n (code vmin vmax n s')) := by
  have hc := code_mono vmin vmax n hr h
  refine ⟨hc, fun hn => ?_⟩
  have htop : (0 : Rat) < ((top n : Int) : Rat) := by exact_mod_cast top_pos n hn
  have hcq : ((code vmin vmax n s : Int) : Rat) ≤ ((code vmin vmax n s' : Int) : Rat) := by exact_mod_cast hc
  have hd : 0 < vmax - vmin := by linarith
  unfold level
  have : ((code vmin vmax n s : Int) : Rat) / ((top n : Int) : Rat) ≤ ((code vmin vmax n s' : Int) : Rat) / ((top n : Int) : Rat) :=
    div_le_div_of_nonneg_right hcq htop.le
  nlinarith

/-- the same over a whole record: the code sequence is ordered like the sample sequence -/
theorem adc_monotone_record (vmin vmax : Rat) (n : Nat) (ot : OType) (signal : List Rat) (r : AdcOut) (hr : vmin < vmax)
    (h : quantise vmin vmax n ot signal = .ok r) (j k : Nat) (hj : j < signal.length) (hk : k < signal.length)
    (hjk : signal[j] ≤ signal[k]) :
    ∃ (hj' : j < r.codes.length) (hk' : k < r.codes.length), r.codes[j] ≤ r.codes[k] := by
  obtain ⟨_, _, hc, _⟩ := quantise_ok vmin vmax n ot signal r h
  have hl : r.codes.length = signal.length := by rw [hc]; simp
  refine ⟨by omega, by omega, ?_⟩
  simp only [hc, List.getElem_map]
  exact code_mono vmin vmax n hr hjk

/-- **adc_requantise_fixed**: every one of the `2ⁿ` codes is attained — by its own level — and a level is a fixed point
    of the quantiser: converting an already converted sample again (same full scale) changes nothing. -/
theorem adc_requantise_fixed (vmin vmax : Rat) (n : Nat) (hn : 1 ≤ n) (hr : vmin < vmax) :
    (∀ c : Int, 0 ≤ c → c ≤ 2 ^ n - 1 → code vmin vmax n (level vmin vmax n c) = c) ∧
    (∀ s : Rat, level vmin vmax n (code vmin vmax n (level vmin vmax n (code vmin vmax n s))) =
      level vmin vmax n (code vmin vmax n s)) := by
  refine ⟨fun c h0 h1 => code_level vmin vmax n hn hr c h0 h1, fun s => ?_⟩
  have := code_range vmin vmax n s
  rw [code_level vmin vmax n hn hr _ this.1 this.2]

/-- the same over a whole record (`'v'`): quantising the output of the quantiser returns the same codes and levels -/
theorem adc_requantise_record (vmin vmax : Rat) (n : Nat) (signal : List Rat) (r : AdcOut) (hr : vmin < vmax)
    (h : quantise vmin vmax n .v signal = .ok r) :
    ∃ r', quantise vmin vmax n .v r.out = .ok r' ∧ r'.codes = r.codes ∧ r'.out = r.out := by
  obtain ⟨_, _, hc, ho⟩ := quantise_ok vmin vmax n .v signal r h
  rcases ho with ⟨hn, _⟩ | ⟨_, hn, ho⟩
  · cases hn
  · have hn0 : n ≠ 0 := by omega
    have hne : vmax ≠ vmin := ne_of_gt hr
    have hfix : r.out.map (code vmin vmax n) = r.codes := by
      rw [ho, List.map_map]
      conv_rhs => rw [← List.map_id r.codes]
      apply List.map_congr_left
      intro c hcm
      have := adc_codes_range vmin vmax n .v signal r h c hcm
      simpa using code_level vmin vmax n hn hr c this.1 this.2
    refine ⟨⟨vmin, vmax, r.out.map (code vmin vmax n), (r.out.map (code vmin vmax n)).map (level vmin vmax n)⟩, ?_, hfix, ?_⟩
    · simp [quantise, hne, hn0]
    · simp only [hfix]; exact ho.symm

/-- **adc_unit_free**: a change of units `x ↦ a·x + b` (`a > 0`) applied to the samples and to the full-scale range
    leaves every code unchanged, and maps every level accordingly -/
theorem adc_unit_free (vmin vmax : Rat) (n : Nat) (a b : Rat) (ha : 0 < a) (hr : vmin < vmax) (s : Rat) :
    code (a * vmin + b) (a * vmax + b) n (a * s + b) = code vmin vmax n s ∧
    (1 ≤ n → level (a * vmin + b) (a * vmax + b) n (code (a * vmin + b) (a * vmax + b) n (a * s + b)) =
      a * level vmin vmax n (code vmin vmax n s) + b) := by
  have hcode : code (a * vmin + b) (a * vmax + b) n (a * s + b) = code vmin vmax n s := by
    rw [code_eq, code_eq, pos_affine vmin vmax n a b ha hr]
  exact ⟨hcode, fun hn => by rw [hcode, level_affine vmin vmax n a b _ hn]⟩

/-- **shortest_unit_free**: `shortest_int` commutes with a change of units `x ↦ a·x + b`, `a > 0` — same acceptance, and the
    interval of the converted data is the converted interval (sorting, the lag, the RELATIVE tie test and the central pick are
    all preserved).  This is what makes the eye estimator's levels (C17) and the ADC's range unit-independent. -/
theorem shortest_unit_free (p a b : Rat) (ha : 0 < a) (data : List Rat) :
    shortestInt p (data.map (fun x => a * x + b)) =
      (shortestInt p data).map (fun r => (a * r.1 + b, a * r.2 + b)) :=
  shortestIntP_map_aff _ _ _ p a b ha data

/-- **shortest_order_free**: `shortest_int` depends only on the multiset of samples — any reordering of the record (a time
    reversal, a roll, a shuffle) gives the same interval and the same acceptance.  With `adc_is_quantise`, the ADC's full-scale
    range is therefore a function of the amplitude histogram alone. -/
theorem shortest_order_free (p : Rat) (data data' : List Rat) (h : data.Perm data') :
    shortestInt p data = shortestInt p data' :=
  shortestIntP_perm _ _ _ p h

/-- non-vacuity: a record and its reversal -/
example : shortestInt 50 [3, 1, 2, 10, 4, 5] = shortestInt 50 [5, 4, 10, 2, 1, 3] :=
  shortest_order_free 50 _ _ (List.reverse_perm _).symm

/-- **adc_unit_free_record**: the whole converter is unit-free — `ADC(a·x + b, otype='n')` returns the codes of `ADC(x)`,
    with the full-scale range converted (`a > 0`, any record with `V_min < V_max`) -/
theorem adc_unit_free_record (signal : List Rat) (n : Nat) (a b : Rat) (ha : 0 < a) (r : AdcOut)
    (h : adc signal n .n = .ok r) (hr : r.vmin < r.vmax) :
    ∃ r', adc (signal.map (fun x => a * x + b)) n .n = .ok r' ∧ r'.codes = r.codes ∧ r'.out = r.out ∧
      r'.vmin = a * r.vmin + b ∧ r'.vmax = a * r.vmax + b := by
  obtain ⟨vmin, vmax, hs, _, hq⟩ := adc_is_quantise signal n .n r h
  obtain ⟨h1, h2, hc, ho⟩ := quantise_ok vmin vmax n .n signal r hq
  rw [h1, h2] at hr
  have hs' := shortest_unit_free Gen.Quant.adcPercent a b ha signal
  rw [hs] at hs'
  have hne : a * vmax + b ≠ a * vmin + b := by
    intro he
    have : a * (vmax - vmin) = 0 := by linarith
    rcases mul_eq_zero.mp this with h0 | h0
    · exact absurd h0 ha.ne'
    · linarith
  have hcodes : (signal.map (fun x => a * x + b)).map (code (a * vmin + b) (a * vmax + b) n) = r.codes := by
    rw [hc, List.map_map]
    apply List.map_congr_left
    intro s _
    exact (adc_unit_free vmin vmax n a b ha hr s).1
  refine ⟨⟨a * vmin + b, a * vmax + b, r.codes, r.codes.map (fun (c : Int) => (c : Rat))⟩, ?_, rfl, ?_, by rw [h1], by rw [h2]⟩
  · unfold adc adcWith
    rw [hs']
    simp only [Except.map, bind, Except.bind, quantise, reduceCtorEq, if_false, hne, hcodes]
  · rcases ho with ⟨_, ho⟩ | ⟨hv, _⟩
    · exact ho.symm
    · cases hv

/-- non-vacuity of `shortest_unit_free`: an accepted tied record, in volts and in millivolts + 5 -/
example : ∃ r, shortestInt 50 [3, 1, 2, 10, 4, 5] = .ok r ∧
    shortestInt 50 ([3, 1, 2, 10, 4, 5].map (fun x => 1000 * x + 5)) = .ok (1000 * r.1 + 5, 1000 * r.2 + 5) := by
  obtain ⟨r, hr⟩ := shortestInt_succeeds 50 [3, 1, 2, 10, 4, 5] (by norm_num) (by decide +kernel)
  exact ⟨r, hr, by rw [shortest_unit_free 50 1000 5 (by norm_num), hr]; rfl⟩

/-- non-vacuity: order preserved, levels are fixed points, volts ↦ millivolts + offset keeps the codes (3 bits) -/
example : (quantise 0 7 3 .n [-1, 0, 1/3, 1/2, 5/2, 7/2, 7, 9]).map (·.codes) = .ok [0, 0, 0, 0, 2, 4, 7, 7] ∧
    (quantise 5 7005 3 .n ([-1, 0, 1/3, 1/2, 5/2, 7/2, 7, 9].map (fun x => 1000 * x + 5))).map (·.codes)
      = .ok [0, 0, 0, 0, 2, 4, 7, 7] ∧
    (quantise 0 7 3 .v [0, 1, 2, 3, 4, 5, 6, 7]).map (·.out) = .ok [0, 1, 2, 3, 4, 5, 6, 7] := by
  decide +kernel

/-- rounding is half-to-even (`np.round`): ties go to the even code -/
example : roundHalfEven (1/2) = 0 ∧ roundHalfEven (3/2) = 2 ∧ roundHalfEven (5/2) = 2 ∧ roundHalfEven (-1/2) = 0 := by
  decide +kernel

/-- non-vacuity: a 3-bit conversion of 0…8 (`V_min = 0 < V_max = 8`) -/
example : (quantise 0 8 3 .n [0, 1, 2, 3, 4, 5, 6, 7, 8]).map (·.codes) = .ok [0, 1, 2, 3, 4, 4, 5, 6, 7] := by
  decide +kernel

end OptiVerif.Props.C18
