/-
C11 — LPF and BPF are linear zero-phase filters with unit DC gain and −6 dB at cut-off.

Theorems about `Model/Filter.lean` at ℝ (the driver runs the same definitions at Float against LPF / BPF).
The second-order sections `secs` (rows of scipy's SOS array with their `sosfilt_zi` rows) and the pad length `edge`
are PARAMETERS: every theorem holds for ANY sections / `zi` / `edge` (linearity, length, rows), or under the explicit
hypothesis `SteadyState secs 1 ∧ gainProd secs = 1` (DC gain) which the harness evaluates on the coefficients scipy
actually returned, on every case of every run.  No bound on the signal length or on the number of sections.

`retH` (LPF's optional second result) is modelled as the product of the section responses B_i(z⁻¹)/A_i(z⁻¹) on the N-point
FFT grid, fftshift-ed: length, un-shifting (odd N included), DC value (= Π Σb/Σa, the very quantity of `dc_gain`),
Hermitian symmetry, and its meaning for the recursion (a steady-state exponential is scaled by H per pass, by |H|²
forward–backward) are theorems.

NOT theorems (they depend on scipy's Bessel design, which is not modelled): −6.0 dB at cut-off, monotone
attenuation, zero delay / symmetric pulse response, "never increases the power of a tone" — oracle only.
-/
import OptiVerif.Lemmas.FilterResp

namespace OptiVerif.Props.C11
open OptiVerif OptiVerif.Filter OptiVerif.Fourier

/-! ### length, and scipy's length check -/

/-- a row longer than the padding is accepted and keeps its length -/
theorem filt_len (secs : List (Sec ℝ)) (e : ℕ) (xs : List ℝ) (h : e < xs.length) :
    ∃ ys, filtfilt secs e xs = .ok ys ∧ ys.length = xs.length :=
  ⟨filtCore secs e xs, by simp [filtfilt, Nat.not_le.mpr h], length_filtCore secs e xs h⟩

theorem filt_len_cx (secs : List (Sec ℝ)) (e : ℕ) (zs : List (Cx ℝ)) (h : e < zs.length) :
    ∃ ys, filtfiltCx secs e zs = .ok ys ∧ ys.length = zs.length :=
  ⟨filtCoreCx secs e zs, by simp [filtfiltCx, Nat.not_le.mpr h], length_filtCoreCx secs e zs h⟩

/-- a row not longer than the padding is rejected (`ValueError`), whatever the filter -/
theorem filt_short (secs : List (Sec ℝ)) (e : ℕ) (xs : List ℝ) (h : xs.length ≤ e) :
    filtfilt secs e xs = .error .ValueError := by
  simp [filtfilt, h]

/-! ### linearity -/

/-- F(a·x + b·y) = a·F x + b·F y on real rows of equal length: through the odd extension, the `zi·x₀` initial
    conditions of both passes, every section, both reversals and the trimming -/
theorem filt_linear (secs : List (Sec ℝ)) (e : ℕ) (a b : ℝ) (xs ys : List ℝ)
    (h : xs.length = ys.length) (he : e < xs.length) :
    ∃ fx fy, filtfilt secs e xs = .ok fx ∧ filtfilt secs e ys = .ok fy ∧
      filtfilt secs e (lin a b xs ys) = .ok (lin a b fx fy) := by
  refine ⟨filtCore secs e xs, filtCore secs e ys, ?_, ?_, ?_⟩
  · simp [filtfilt, Nat.not_le.mpr he]
  · simp [filtfilt, Nat.not_le.mpr (h ▸ he)]
  · have : ¬ (lin a b xs ys).length ≤ e := by simp [← h]; omega
    rw [filtfilt, if_neg this, filtCore_lin secs e a b xs ys h]

/-- the same with complex rows and COMPLEX scalars (BPF on the complex envelope) -/
theorem filt_linear_cx (secs : List (Sec ℝ)) (e : ℕ) (a b : Cx ℝ) (zs ws : List (Cx ℝ))
    (h : zs.length = ws.length) (he : e < zs.length) :
    ∃ fz fw, filtfiltCx secs e zs = .ok fz ∧ filtfiltCx secs e ws = .ok fw ∧
      filtfiltCx secs e (linCx a b zs ws) = .ok (linCx a b fz fw) := by
  refine ⟨filtCoreCx secs e zs, filtCoreCx secs e ws, ?_, ?_, ?_⟩
  · simp [filtfiltCx, Nat.not_le.mpr he]
  · simp [filtfiltCx, Nat.not_le.mpr (h ▸ he)]
  · have : ¬ (linCx a b zs ws).length ≤ e := by simp [linCx, ← h]; omega
    rw [filtfiltCx, if_neg this, filtCoreCx_lin secs e a b zs ws h]

/-- linearity without the length guard: the total version is linear on equal-length rows, even short ones -/
theorem filtCore_linear (secs : List (Sec ℝ)) (e : ℕ) (a b : ℝ) (xs ys : List ℝ) (h : xs.length = ys.length) :
    filtCore secs e (lin a b xs ys) = lin a b (filtCore secs e xs) (filtCore secs e ys) :=
  filtCore_lin secs e a b xs ys h

/-- LPF returns `.real`: its output is the filtered real part; the imaginary part of the input has no influence -/
theorem lpf_row_real (secs : List (Sec ℝ)) (e : ℕ) (zs : List (Cx ℝ)) (he : e < zs.length) :
    lpfRow secs e zs = .ok (filtCore secs e (zs.map Cx.re)) := by
  have hl : (filtCore secs e (zs.map Cx.re)).length = (filtCore secs e (zs.map Cx.im)).length :=
    length_filtCore_congr secs e _ _ (by simp)
  simp [lpfRow, filtfiltCx, Nat.not_le.mpr he, filtCoreCx, Except.map, map_re_zipWith_mk _ _ hl]

/-- LPF is linear (real scalars) in the real parts of its input rows -/
theorem lpf_linear (secs : List (Sec ℝ)) (e : ℕ) (a b : ℝ) (zs ws cs : List (Cx ℝ))
    (h : zs.length = ws.length) (he : e < zs.length) (hc : cs.map Cx.re = lin a b (zs.map Cx.re) (ws.map Cx.re)) :
    ∃ fz fw, lpfRow secs e zs = .ok fz ∧ lpfRow secs e ws = .ok fw ∧ lpfRow secs e cs = .ok (lin a b fz fw) := by
  have hcl : cs.length = zs.length := by
    have := congrArg List.length hc
    simpa [← h] using this
  refine ⟨_, _, lpf_row_real secs e zs he, lpf_row_real secs e ws (h ▸ he), ?_⟩
  rw [lpf_row_real secs e cs (hcl ▸ he), hc, filtCore_lin secs e a b _ _ (by simp [h])]

/-! ### rows: signal, noise and each polarisation are filtered independently and alike -/

/-- BPF: every polarisation row of the signal and of the noise goes through the SAME filter, separately -/
theorem filt_rows_bpf (secs : List (Sec ℝ)) (e : ℕ) (s : Sig (Cx ℝ))
    (hs : ∀ r ∈ s.rows, e < r.length) (hn : ∀ nz, s.noise = some nz → ∀ r ∈ nz, e < r.length) :
    bpf secs e s = .ok ⟨s.rows.map (filtCoreCx secs e), s.noise.map (fun nz => nz.map (filtCoreCx secs e))⟩ := by
  apply applyRows_ok
  · intro r hr; simp [filtfiltCx, Nat.not_le.mpr (hs r hr)]
  · intro nz h r hr; simp [filtfiltCx, Nat.not_le.mpr (hn nz h r hr)]

/-- LPF: the same for the (real parts of the) signal and noise rows -/
theorem filt_rows_lpf (secs : List (Sec ℝ)) (e : ℕ) (s : Sig (Cx ℝ))
    (hs : ∀ r ∈ s.rows, e < r.length) (hn : ∀ nz, s.noise = some nz → ∀ r ∈ nz, e < r.length) :
    lpf secs e s = .ok ⟨s.rows.map (fun r => filtCore secs e (r.map Cx.re)),
                        s.noise.map (fun nz => nz.map (fun r => filtCore secs e (r.map Cx.re)))⟩ := by
  apply applyRows_ok
  · intro r hr; exact lpf_row_real secs e r (hs r hr)
  · intro nz h r hr; exact lpf_row_real secs e r (hn nz h r hr)

/-- exchanging the roles of signal and noise exchanges the outputs (they are treated alike) -/
theorem filt_rows_swap (secs : List (Sec ℝ)) (e : ℕ) (sg nz : List (List (Cx ℝ)))
    (hs : ∀ r ∈ sg, e < r.length) (hn : ∀ r ∈ nz, e < r.length) :
    ∃ fs fn, bpf secs e ⟨sg, some nz⟩ = .ok ⟨fs, some fn⟩ ∧ bpf secs e ⟨nz, some sg⟩ = .ok ⟨fn, some fs⟩ := by
  refine ⟨sg.map (filtCoreCx secs e), nz.map (filtCoreCx secs e), ?_, ?_⟩
  · rw [filt_rows_bpf secs e ⟨sg, some nz⟩ hs (by intro n h; cases h; exact hn)]; rfl
  · rw [filt_rows_bpf secs e ⟨nz, some sg⟩ hn (by intro n h; cases h; exact hs)]; rfl

/-- the filtered signal does not depend on the noise (nor on its presence) -/
theorem filt_rows_signal_indep (secs : List (Sec ℝ)) (e : ℕ) (sg nz : List (List (Cx ℝ)))
    (hs : ∀ r ∈ sg, e < r.length) (hn : ∀ r ∈ nz, e < r.length) :
    ∃ fs fn, bpf secs e ⟨sg, none⟩ = .ok ⟨fs, none⟩ ∧ bpf secs e ⟨sg, some nz⟩ = .ok ⟨fs, some fn⟩ := by
  refine ⟨sg.map (filtCoreCx secs e), nz.map (filtCoreCx secs e), ?_, ?_⟩
  · rw [filt_rows_bpf secs e ⟨sg, none⟩ hs (by intro n h; cases h)]; rfl
  · rw [filt_rows_bpf secs e ⟨sg, some nz⟩ hs (by intro n h; cases h; exact hn)]; rfl

/-- the two polarisations are filtered alike: exchanging them exchanges the outputs -/
theorem filt_rows_swap_pol (secs : List (Sec ℝ)) (e : ℕ) (x y : List (Cx ℝ)) (hx : e < x.length) (hy : e < y.length) :
    ∃ fx fy, bpf secs e ⟨[x, y], none⟩ = .ok ⟨[fx, fy], none⟩ ∧ bpf secs e ⟨[y, x], none⟩ = .ok ⟨[fy, fx], none⟩ := by
  refine ⟨filtCoreCx secs e x, filtCoreCx secs e y, ?_, ?_⟩
  · rw [filt_rows_bpf secs e ⟨[x, y], none⟩ (by simp [hx, hy]) (by intro n h; cases h)]; rfl
  · rw [filt_rows_bpf secs e ⟨[y, x], none⟩ (by simp [hx, hy]) (by intro n h; cases h)]; rfl

/-! ### DC gain -/

/-- division-free form: if every section sits in the steady state of its step input and the cascade takes level 1 to
    level 1, a constant row of ANY length > edge and ANY height comes back unchanged -/
theorem dc_gain_chain (secs : List (Sec ℝ)) (h : SteadyChain secs 1 1) (e n : ℕ) (c : ℝ) (hn : e < n) :
    filtfilt secs e (List.replicate n c) = .ok (List.replicate n c) := by
  simp [filtfilt, Nat.not_le.mpr hn, filtCore_const secs h e n c hn]

/-- the form the harness evaluates on scipy's coefficients: `zi` follows the `sosfilt_zi` recipe with the section DC
    gains `Σb/Σa` (none of the `Σa` vanishing) and the product of the gains is 1  ⇒  F(const c) = const c -/
theorem dc_gain (secs : List (Sec ℝ)) (hz : SteadyState secs 1) (hg : gainProd secs = 1) (e n : ℕ) (c : ℝ) (hn : e < n) :
    filtfilt secs e (List.replicate n c) = .ok (List.replicate n c) := by
  have := steadyChain_of_steadyState secs 1 hz
  rw [hg, one_mul] at this
  exact dc_gain_chain secs this e n c hn

/-- complex constants (BPF passes a CW carrier of any phase unchanged) -/
theorem dc_gain_cx (secs : List (Sec ℝ)) (hz : SteadyState secs 1) (hg : gainProd secs = 1) (e n : ℕ) (c : Cx ℝ) (hn : e < n) :
    filtfiltCx secs e (List.replicate n c) = .ok (List.replicate n c) := by
  have h1 := steadyChain_of_steadyState secs 1 hz
  rw [hg, one_mul] at h1
  simp [filtfiltCx, Nat.not_le.mpr hn, filtCoreCx, List.map_replicate, filtCore_const secs h1 e n _ hn]

/-- the DC gain that results when the product of the section gains is G instead of 1: G² (two passes) -/
theorem dc_gain_sq (secs : List (Sec ℝ)) (hz : SteadyState secs 1) (e n : ℕ) (c : ℝ) (hn : e < n) :
    filtfilt secs e (List.replicate n c) = .ok (List.replicate n (gainProd secs * (gainProd secs * c))) := by
  have h1 := steadyChain_of_steadyState secs 1 hz
  rw [one_mul] at h1
  cases n with
  | zero => omega
  | succ m =>
    have e1 : filtCore secs e (List.replicate (m + 1) c)
        = fbCore secs e (oddExt e c (last1 c (List.replicate m c)) (List.replicate (m + 1) c)) := by
      simp [List.replicate_succ, filtCore]
    simp only [filtfilt, List.length_replicate, Nat.not_le.mpr hn, if_false, e1, last1_replicate,
      oddExt_replicate e (m + 1) c hn, fbCore, pass_const secs _ h1, List.reverse_replicate, trim_replicate]

/-! ### retH: the single-pass response on the signal's frequency grid -/

/-- N points for a record of N samples -/
theorem retH_len (secs : List (Sec ℝ)) (n : ℕ) : (retH secs n).length = n := length_retH secs n

/-- the returned array is the fftshift of the grid-ordered response: numpy's `ifftshift` recovers grid order
    k = 0..N-1 for EVERY N, odd included -/
theorem retH_shift (secs : List (Sec ℝ)) (n : ℕ) : ifftshift (retH secs n) = respGrid secs n := by
  simp [retH, ifftshift_fftshift]

/-- which frequency sits where: position i holds the response at z⁻¹ = e^{-j2πk/N}, k = (i + N − N/2) mod N -/
theorem retH_grid (secs : List (Sec ℝ)) (n i : ℕ) (h : i < (retH secs n).length) :
    (retH secs n)[i] = sosResp secs (gridW n ((i + (n - n / 2)) % n)) := getElem_retH secs n i h

/-- at DC (centre N/2 of the shifted array) the response is Π Σb/Σa -/
theorem retH_dc (secs : List (Sec ℝ)) (n : ℕ) (hn : 0 < n) (hd : ∀ c ∈ secs, 1 + c.a1 + c.a2 ≠ 0) :
    (retH secs n)[n / 2]? = some ⟨gainProd secs, 0⟩ := by
  have hlt : n / 2 < (retH secs n).length := by simp; omega
  have e : n / 2 + (n - n / 2) = n := by omega
  rw [List.getElem?_eq_getElem hlt, getElem_retH, e, Nat.mod_self, gridW_zero, sosResp_one secs hd]

/-- under the hypotheses of `dc_gain` (checked on scipy's coefficients every run) the returned response is 1 at DC:
    the frequency-domain face of F(const c) = const c -/
theorem retH_dc_one (secs : List (Sec ℝ)) (n : ℕ) (hn : 0 < n) (hz : SteadyState secs 1) (hg : gainProd secs = 1) :
    (retH secs n)[n / 2]? = some ⟨1, 0⟩ := by
  rw [retH_dc secs n hn (den_ne_zero_of_steadyState secs 1 hz), hg]

/-- H(−ω) = conj H(ω) on the grid, because the coefficients are real -/
theorem retH_hermitian_grid (secs : List (Sec ℝ)) (n k : ℕ) (hn : 0 < n) (hk : k ≤ n) :
    sosResp secs (gridW n (n - k)) = Cx.conj (sosResp secs (gridW n k)) := by
  rw [gridW_mirror n k hn hk, sosResp_conj]

/-- the same on the returned (shifted) array: the entries j bins either side of the centre are conjugates -/
theorem retH_hermitian (secs : List (Sec ℝ)) (n j : ℕ) (hj : 0 < j) (h1 : n / 2 + j < n) :
    ∃ a b, (retH secs n)[n / 2 + j]? = some a ∧ (retH secs n)[n / 2 - j]? = some b ∧ b = Cx.conj a := by
  have l1 : n / 2 + j < (retH secs n).length := by simpa using h1
  have l2 : n / 2 - j < (retH secs n).length := by simp; omega
  have e1 : n / 2 + j + (n - n / 2) = n + j := by omega
  have e2 : n / 2 - j + (n - n / 2) = n - j := by omega
  refine ⟨_, _, List.getElem?_eq_getElem l1, List.getElem?_eq_getElem l2, ?_⟩
  rw [getElem_retH, getElem_retH, e1, e2, Nat.add_mod_left, Nat.mod_eq_of_lt (by omega : j < n),
    Nat.mod_eq_of_lt (by omega : n - j < n)]
  exact retH_hermitian_grid secs n j (by omega) (by omega)

/-- hence |H| is even about the centre -/
theorem retH_abs_even (secs : List (Sec ℝ)) (n k : ℕ) (hn : 0 < n) (hk : k ≤ n) :
    (sosResp secs (gridW n (n - k))).normSq = (sosResp secs (gridW n k)).normSq := by
  rw [retH_hermitian_grid secs n k hn hk, normSq_conj]

/-- what H means for the recursion (one pass): the cascade of direct-form-II-transposed sections, each in its steady
    state for the complex exponential A·e^{jθm} (complex samples = (re, im) pairs through the real recursion `secRun`),
    returns the exponential multiplied by H = Π B_i/A_i at z⁻¹ = e^{-jθ} — for every record length M -/
theorem single_pass_gain (secs : List (Sec ℝ)) (θ : ℝ) (A : Cx ℝ) (M : ℕ)
    (hd : ∀ c ∈ secs, (secDen c (Cx.cis (-θ))).normSq ≠ 0) :
    cascadeCx (Cx.cis θ) (Cx.cis (-θ)) secs A (expSeq (Cx.cis θ) A M)
      = expSeq (Cx.cis θ) (sosResp secs (Cx.cis (-θ)) * A) M :=
  cascadeCx_exp _ _ (cis_mul_cis_neg θ) M secs A hd

/-- forward–backward (pass, reverse, pass, reverse) in steady state multiplies the exponential by |H(θ)|²: a real,
    non-negative factor — no phase, i.e. no delay at any frequency, whatever the sections -/
theorem two_pass_gain (secs : List (Sec ℝ)) (θ : ℝ) (A : Cx ℝ) (M : ℕ)
    (hd : ∀ c ∈ secs, (secDen c (Cx.cis (-θ))).normSq ≠ 0) :
    (cascadeCx (Cx.cis (-θ)) (Cx.cis θ) secs (sosResp secs (Cx.cis (-θ)) * A * cpow (Cx.cis θ) M)
        (cascadeCx (Cx.cis θ) (Cx.cis (-θ)) secs A (expSeq (Cx.cis θ) A (M + 1))).reverse).reverse
      = expSeq (Cx.cis θ) (Cx.smul (sosResp secs (Cx.cis (-θ))).normSq A) (M + 1) := by
  have hu : ∀ c ∈ secs, (secDen c (Cx.cis θ)).normSq ≠ 0 := by
    intro c hc
    have := hd c hc
    rwa [cis_neg_eq_conj, secDen_conj, normSq_conj] at this
  rw [two_pass_exp _ _ (cis_mul_cis_neg θ) secs M A hd hu]
  congr 1
  have : sosResp secs (Cx.cis θ) = Cx.conj (sosResp secs (Cx.cis (-θ))) := by
    rw [← sosResp_conj, cis_neg_eq_conj, conj_conj]
  rw [this, conj_mul_self]
  apply cx_ext <;> simp [Cx.smul]

/-! ### non-vacuity: a concrete one-section filter  y[n] = (x[n] + x[n−1])/4 + y[n−1]/2 -/

/-- b = [1/4, 1/4, 0], a = [1, −1/2, 0], zi = [3/4, 0] (what `sosfilt_zi` gives for it) -/
noncomputable def sec0 : Sec ℝ := ⟨1/4, 1/4, 0, -1/2, 0, 3/4, 0⟩
/-- a second section with DC gain 2·(1/2): b = [1/2, 0, 0], a = [1, -1/2, 0] → G = 1, zi = [1/2, 0] -/
noncomputable def sec1 : Sec ℝ := ⟨1/2, 0, 0, -1/2, 0, 1/2, 0⟩

theorem sec0_steady : SteadyState [sec0] 1 ∧ gainProd [sec0] = 1 := by
  norm_num [SteadyState, gainProd, dcGain, sec0]

theorem sec01_steady : SteadyState [sec0, sec1] 1 ∧ gainProd [sec0, sec1] = 1 := by
  norm_num [SteadyState, gainProd, dcGain, sec0, sec1]

example : filtfilt [sec0] 3 (List.replicate 7 (5 : ℝ)) = .ok (List.replicate 7 5) :=
  dc_gain _ sec0_steady.1 sec0_steady.2 3 7 5 (by decide)

example : filtfiltCx [sec0, sec1] 6 (List.replicate 40 ⟨2, -3⟩) = .ok (List.replicate 40 ⟨2, -3⟩) :=
  dc_gain_cx _ sec01_steady.1 sec01_steady.2 6 40 _ (by decide)

/-- the filter is not the identity: a step [0, 1] with one padding sample comes back as [3/128, 31/64]
    (same values as the exact-rational replay of scipy's algorithm) — evaluation, a test rather than a theorem -/
example : filtfilt [sec0] 1 [0, 1] = .ok [3/128, 31/64] := by
  norm_num [filtfilt, filtCore, fbCore, oddExt, pass, sosfilt, secRun, secStep, trim, last1, sec0]

/-- the hypotheses of `filt_linear` are met by unequal, non-constant rows -/
example : ∃ fx fy, filtfilt [sec0] 1 [0, 1, 4] = .ok fx ∧ filtfilt [sec0] 1 [2, -1, 0] = .ok fy ∧
    filtfilt [sec0] 1 (lin 3 (-2) [0, 1, 4] [2, -1, 0]) = .ok (lin 3 (-2) fx fy) :=
  filt_linear _ 1 3 (-2) _ _ rfl (by decide)

/-- the hypothesis of `single_pass_gain` / `two_pass_gain` holds for the concrete section at Nyquist (θ = π) -/
example : ∀ c ∈ [sec0], (secDen c (Cx.cis (-Real.pi))).normSq ≠ 0 := by
  intro c hc
  simp only [List.mem_singleton] at hc
  subst hc
  simp [secDen, sec0, cone_eq, Cx.cis, Cx.smul, Cx.normSq]
  norm_num

/-- and `retH_dc_one` gives a concrete value: the centre of a 5-point retH of the concrete filter is 1 -/
example : (retH [sec0] 5)[2]? = some ⟨1, 0⟩ := retH_dc_one _ 5 (by decide) sec0_steady.1 sec0_steady.2

end OptiVerif.Props.C11
