/-
C06 — MZM obeys its passive transfer function; PM / laser phase terms are pure rotations.
Property theorems only (helper lemmas: `Lemmas/Modulators.lean`, `Lemmas/NumExtra.lean`).
The objects are the generic definitions of `Model/Modulators.lean` (the ones the driver runs at `Float`
against the real `MZM`, `PM`, `LASER`), read at `R := ℝ`.  All statements are for ALL real parameters,
all lengths, both polarisation layouts, with or without noise; hypotheses are the statement's own
(`ER_dB ≥ 0`, `loss_dB ≥ 0`, `Vpi ≠ 0`) and the shape invariant of `optical_signal` (`Field.WF`).
-/
import OptiVerif.Lemmas.Modulators
import OptiVerif.Lemmas.ModulatorsSpectrum
import OptiVerif.Lemmas.ModulatorsFilter
import OptiVerif.Props.C11

set_option linter.unusedVariables false
set_option linter.unnecessarySeqFocus false

namespace OptiVerif.Props.C06
open OptiVerif OptiVerif.Modulators OptiVerif.Wire
open OptiVerif.Gen.OptDev (lit pow10 idb idbm mzmLoss mzmEta mzmG laserPhaseSigma laserRinSigma)

/-! ### the formulas found in the source (Gen/OptDev.lean, regenerated from /repo on every run) are the documented ones -/

/-- `utils.idb(x) = 10^(x/10)`, `utils.idbm(x) = 10^(x/10 − 3)` -/
theorem db_helpers_documented (x : ℝ) : (idb x : ℝ) = (10 : ℝ) ^ (x / 10) ∧ (idbm x : ℝ) = (10 : ℝ) ^ (x / 10 - 3) :=
  ⟨idb_real x, idbm_real x⟩

/-- `loss = 10^(−loss_dB/10)` and `θ = π(u+bias)/(2Vπ)` -/
theorem mzm_loss_theta_documented (ld Vpi bias u : ℝ) :
    (mzmLoss ld : ℝ) = (10 : ℝ) ^ (-ld / 10) ∧ (mzmG Vpi bias u : ℝ) = Real.pi * (u + bias) / (2 * Vpi) := by
  refine ⟨mzmLoss_real ld, ?_⟩
  simp only [mzmG, lit_real, Transc.pi_real]; push_cast; ring

/-- the PM phase is `π·u/Vπ`, and the source uses the same expression for `.noise` as for `.signal` -/
theorem pm_phase_documented (Vpi u : ℝ) (us : List ℝ) :
    (pmPhase Vpi u : ℝ) = Real.pi * u / Vpi ∧ (pmRowsNoise Vpi us : Rows (Cx ℝ) → _) = pmRows Vpi us := by
  refine ⟨?_, pmRowsNoise_eq Vpi us⟩
  rw [pmPhase_real]; ring

/-- LASER: the scales handed to the Gaussian generator, the offset / phase-noise exponents, the two rejection limits -/
theorem laser_formulas_documented (lw dt rin fs df t φ : ℝ) :
    (laserPhaseSigma lw dt : ℝ) = Real.sqrt (2 * Real.pi * lw * dt) ∧
    (laserRinSigma rin fs : ℝ) = Real.sqrt ((10 : ℝ) ^ (rin / 10) * fs) ∧
    (Gen.OptDev.laserOffsetArg df t : ℝ) = 2 * Real.pi * df * t ∧
    (Gen.OptDev.laserPhaseArg φ : ℝ) = φ ∧
    (Gen.OptDev.laserNyquist fs : ℝ) = fs / 2 ∧
    (Gen.OptDev.laserRinFloor : ℝ) = -1 := by
  refine ⟨?_, ?_, ?_, rfl, ?_, ?_⟩
  · simp only [laserPhaseSigma, lit_real, Transc.sqrt_real, Transc.pi_real]; push_cast; rfl
  · simp only [laserRinSigma, idb_real, Transc.sqrt_real]
  · simp only [Gen.OptDev.laserOffsetArg, lit_real, Transc.pi_real]; push_cast; rfl
  · simp only [Gen.OptDev.laserNyquist, lit_real]; push_cast; rfl
  · simp only [Gen.OptDev.laserRinFloor, lit_real]; push_cast; rfl

/-! ### the transfer function is the documented one -/

/-- `h = sqrt(loss)·(cos θ + j·10^(−ER/20)·sin θ)`, `θ = π(u+bias)/(2Vπ)`, `loss = 10^(−loss_dB/10)`, in ℂ -/
theorem mzm_transfer (ld er Vpi bias u : ℝ) :
    (mzmHu ld er Vpi bias u).toC =
      (Real.sqrt ((10 : ℝ) ^ (-ld / 10)) : ℂ) *
        ((Real.cos (Real.pi * (u + bias) / (2 * Vpi)) : ℂ)
          + Complex.I * (((10 : ℝ) ^ (-er / 20) : ℝ) : ℂ) * (Real.sin (Real.pi * (u + bias) / (2 * Vpi)) : ℂ)) := by
  have hg : (mzmG Vpi bias u : ℝ) = Real.pi * (u + bias) / (2 * Vpi) := by
    simp only [mzmG, lit_real, Transc.pi_real]; push_cast; ring
  have hL : (mzmHu ld er Vpi bias u : Cx ℝ) =
      ⟨Real.sqrt ((10 : ℝ) ^ (-ld / 10)) * Real.cos (Real.pi * (u + bias) / (2 * Vpi)),
       Real.sqrt ((10 : ℝ) ^ (-ld / 10)) * ((10 : ℝ) ^ (-er / 20) * Real.sin (Real.pi * (u + bias) / (2 * Vpi)))⟩ := by
    simp only [mzmHu_def, mzmH, hg, mzmLoss_real, mzmK_real, Transc.sqrt_real, Transc.cos_real, Transc.sin_real]
  rw [hL]
  generalize Real.cos (Real.pi * (u + bias) / (2 * Vpi)) = c
  generalize Real.sin (Real.pi * (u + bias) / (2 * Vpi)) = sn
  generalize Real.sqrt ((10 : ℝ) ^ (-ld / 10)) = sl
  generalize (10 : ℝ) ^ (-er / 20) = k
  apply Complex.ext <;> simp [Cx.toC]

/-- the code's `eta/2` with `eta = 2*sqrt(idb(-ER))` is `10^(−ER/20)` -/
theorem mzm_k_documented (er : ℝ) : (mzmK er : ℝ) = (10 : ℝ) ^ (-er / 20) := mzmK_real er

/-! ### passivity -/

/-- the factor never exceeds `loss` in power (0 ≤ k ≤ 1, loss ≥ 0) -/
theorem mzmH_passive (loss k g : ℝ) (hl : 0 ≤ loss) (hk0 : 0 ≤ k) (hk1 : k ≤ 1) :
    (mzmH loss k g).normSq ≤ loss := Modulators.mzmH_passive loss k g hl hk0 hk1

example : (mzmH (1/2 : ℝ) (1/20) 1).normSq ≤ 1/2 := mzmH_passive _ _ _ (by norm_num) (by norm_num) (by norm_num)

/-- one sample: `|a·h|² ≤ loss·|a|²` -/
theorem mzm_sample_passive (ld er Vpi bias u : ℝ) (her : 0 ≤ er) (a : Cx ℝ) :
    (a * mzmHu ld er Vpi bias u).normSq ≤ (10 : ℝ) ^ (-ld / 10) * a.normSq := by
  rw [Cx.normSq_mul, ← mzmLoss_real]
  have h := Modulators.mzmH_passive (mzmLoss ld) (mzmK er) (mzmG Vpi bias u) (mzmLoss_pos ld).le
    (mzmK_pos er).le (mzmK_le_one her)
  have := Cx.normSq_nonneg a
  simp only [mzmHu_def]
  nlinarith

/-- **MZM never amplifies**: every sample of every row of signal and noise of the output has power
    `≤ loss·|in|²` (blanked rows included), for every drive form, both `pol`, every bias/Vπ, `ER_dB ≥ 0`. -/
theorem mzm_passive (pol : PolSel) (bias Vpi ld er : ℝ) (her : 0 ≤ er) (d : Drive ℝ) (x out : Modulators.Field (Cx ℝ))
    (hx : x.WF) (h : mzm pol bias Vpi ld er d x = .ok out) :
    FieldRel (fun o i => o.normSq ≤ (10 : ℝ) ^ (-ld / 10) * i.normSq) out x := by
  obtain ⟨hlen, hpol, rfl⟩ := mzm_ok_inv h
  have hl := mzmHs_length bias Vpi ld er x.sig.len d hlen
  have key : ∀ r : Rows (Cx ℝ), r.Shaped x.sig.len →
      RowsRel (fun o i => o.normSq ≤ (10 : ℝ) ^ (-ld / 10) * i.normSq)
        (mzmRows pol (mzmHs bias Vpi ld er x.sig.len d) r) r := by
    intro r hr
    apply rowsRel_mzmRows
    · rw [hl]; exact hr
    · intro a hh hm
      obtain ⟨u, _, rfl⟩ := List.mem_map.mp hm
      exact mzm_sample_passive ld er Vpi bias u her a
    · intro a
      rw [normSq_czero]
      have := Cx.normSq_nonneg a
      have : (0:ℝ) < (10 : ℝ) ^ (-ld / 10) := Real.rpow_pos_of_pos (by norm_num) _
      positivity
  refine ⟨key x.sig hx.1, ?_⟩
  cases hn : x.noise with
  | none => simp
  | some nz => simpa using key nz (hx.noise_shaped hn)

/-- with `loss_dB ≥ 0` the output power never exceeds the input power, sample by sample -/
theorem mzm_never_amplifies (pol : PolSel) (bias Vpi ld er : ℝ) (hld : 0 ≤ ld) (her : 0 ≤ er) (d : Drive ℝ)
    (x out : Modulators.Field (Cx ℝ)) (hx : x.WF) (h : mzm pol bias Vpi ld er d x = .ok out) :
    FieldRel (fun o i => o.normSq ≤ i.normSq) out x := by
  have hp := mzm_passive pol bias Vpi ld er her d x out hx h
  have hl : (10 : ℝ) ^ (-ld / 10) ≤ 1 := by
    have := mzmLoss_le_one hld; rwa [mzmLoss_real] at this
  have mono : ∀ o i : Cx ℝ, o.normSq ≤ (10 : ℝ) ^ (-ld / 10) * i.normSq → o.normSq ≤ i.normSq := by
    intro o i hoi
    have := Cx.normSq_nonneg i
    nlinarith
  have lift : ∀ a b : Rows (Cx ℝ), RowsRel (fun o i => o.normSq ≤ (10 : ℝ) ^ (-ld / 10) * i.normSq) a b →
      RowsRel (fun o i => o.normSq ≤ i.normSq) a b := by
    intro a b hab
    cases a <;> cases b <;> simp only [RowsRel] at *
    · exact hab.imp mono
    · exact ⟨hab.1.imp mono, hab.2.imp mono⟩
  refine ⟨lift _ _ hp.1, ?_⟩
  have h2 := hp.2
  revert h2
  cases out.noise <;> cases x.noise <;> simp <;> exact lift _ _

/-- non-vacuity: a two-polarisation noisy input, array drive -/
example : ∃ out, mzm (R := ℝ) .x 1 5 2 26 (.array [0, 3]) ⟨.two [⟨1, 2⟩, ⟨0, 1⟩] [⟨3, 0⟩, ⟨1, 1⟩],
    some (.two [⟨1, 0⟩, ⟨0, 0⟩] [⟨0, 1⟩, ⟨1, 1⟩])⟩ = .ok out :=
  ⟨_, mzm_eq_ok (Or.inl rfl) (by decide)⟩

/-! ### extinction ratio -/

/-- on/off power ratio of the factor: `|h(θ=0)|² / |h(θ=π/2)|² = 10^(ER/10)` -/
theorem mzm_er (ld er Vpi bias uon uoff : ℝ) (hV : Vpi ≠ 0) (hon : uon + bias = 0) (hoff : uoff + bias = Vpi) :
    (mzmHu ld er Vpi bias uon).normSq / (mzmHu ld er Vpi bias uoff).normSq = (10 : ℝ) ^ (er / 10) := by
  have g0 : (mzmG Vpi bias uon : ℝ) = 0 := by simp [mzmG, hon]
  have g1 : (mzmG Vpi bias uoff : ℝ) = Real.pi / 2 := by
    simp only [mzmG, hoff, lit_real, Transc.pi_real]; push_cast; field_simp
  have hl := mzmLoss_pos ld
  simp only [mzmHu_def]
  rw [mzmH_normSq _ _ _ hl.le, mzmH_normSq _ _ _ hl.le, g0, g1]
  simp only [Real.cos_zero, Real.sin_zero, Real.cos_pi_div_two, Real.sin_pi_div_two, mzmK_sq]
  have hpos : (0:ℝ) < (10 : ℝ) ^ (-er / 10) := Real.rpow_pos_of_pos (by norm_num) _
  have hinv : (10 : ℝ) ^ (er / 10) = ((10 : ℝ) ^ (-er / 10))⁻¹ := by
    rw [← Real.rpow_neg (by norm_num)]; congr 1; ring
  rw [hinv]
  field_simp
  ring

/-- the same at the output: for a non-zero input sample the on/off output power ratio is `10^(ER/10)` -/
theorem mzm_er_output (ld er Vpi bias uon uoff : ℝ) (hV : Vpi ≠ 0) (hon : uon + bias = 0) (hoff : uoff + bias = Vpi)
    (a : Cx ℝ) (ha : a.normSq ≠ 0) :
    (a * mzmHu ld er Vpi bias uon).normSq / (a * mzmHu ld er Vpi bias uoff).normSq = (10 : ℝ) ^ (er / 10) := by
  rw [Cx.normSq_mul, Cx.normSq_mul, mul_div_mul_left _ _ ha]
  exact mzm_er ld er Vpi bias uon uoff hV hon hoff

example : (mzmHu (2:ℝ) 30 5 (5/2) (-5/2)).normSq / (mzmHu (2:ℝ) 30 5 (5/2) (5/2)).normSq = (10:ℝ) ^ ((30:ℝ) / 10) :=
  mzm_er 2 30 5 (5/2) (-5/2) (5/2) (by norm_num) (by norm_num) (by norm_num)

/-! ### 2·Vπ periodicity -/

/-- shifting the drive by `2Vπ` negates the factor … -/
theorem mzm_period_neg (ld er Vpi bias u : ℝ) (hV : Vpi ≠ 0) :
    mzmHu ld er Vpi bias (u + 2 * Vpi) = -mzmHu ld er Vpi bias u := by
  simp only [mzmHu_def, mzmG_shift Vpi bias u hV, mzmH_add_pi]

/-- … hence leaves the output power of every sample unchanged -/
theorem mzm_sample_periodic (ld er Vpi bias u : ℝ) (hV : Vpi ≠ 0) (a : Cx ℝ) :
    (a * mzmHu ld er Vpi bias (u + 2 * Vpi)).normSq = (a * mzmHu ld er Vpi bias u).normSq := by
  rw [mzm_period_neg ld er Vpi bias u hV, Cx.xmul_neg, Cx.normSq_neg]

/-- the drive with `c` added to every sample (container kind kept) -/
def shiftDrive (c : ℝ) : Drive ℝ → Drive ℝ
  | .scalar v => .scalar (v + c)
  | .array vs => .array (vs.map (· + c))
  | .seq vs => .seq (vs.map (· + c))
  | .esig vs nz => .esig (vs.map (· + c)) nz

/-- **output power is 2Vπ-periodic in the drive**: whole-device statement, every drive form, signal and noise,
    every sample of every row -/
theorem mzm_periodic (pol : PolSel) (bias Vpi ld er : ℝ) (hV : Vpi ≠ 0) (d : Drive ℝ) (x out : Modulators.Field (Cx ℝ))
    (hx : x.WF) (h : mzm pol bias Vpi ld er d x = .ok out) :
    ∃ out', mzm pol bias Vpi ld er (shiftDrive (2 * Vpi) d) x = .ok out' ∧
      FieldRel (fun o o' => o.normSq = o'.normSq) out out' := by
  obtain ⟨hlen, hpol, rfl⟩ := mzm_ok_inv h
  have hs : (shiftDrive (2 * Vpi) d).samples = d.samples.map (· + 2 * Vpi) := by
    cases d <;> simp [shiftDrive, Drive.samples]
  have hlen' : (shiftDrive (2 * Vpi) d).samples.length = x.sig.len ∨ (shiftDrive (2 * Vpi) d).samples.length = 1 := by
    rw [hs]; simpa using hlen
  refine ⟨_, mzm_eq_ok hlen' hpol, ?_⟩
  have hl := mzmHs_length bias Vpi ld er x.sig.len d hlen
  have hh : List.Forall₂ (fun h h' : Cx ℝ => h' = -h) (mzmHs bias Vpi ld er x.sig.len d)
      (mzmHs bias Vpi ld er x.sig.len (shiftDrive (2 * Vpi) d)) := by
    simp only [mzmHs, hs, expand_map, List.map_map]
    rw [List.forall₂_map_left_iff, List.forall₂_map_right_iff]
    apply List.forall₂_same.mpr
    intro u _
    exact mzm_period_neg ld er Vpi bias u hV
  have key : ∀ r : Rows (Cx ℝ), r.Shaped x.sig.len →
      RowsRel (fun o o' => o.normSq = o'.normSq)
        (mzmRows pol (mzmHs bias Vpi ld er x.sig.len d) r)
        (mzmRows pol (mzmHs bias Vpi ld er x.sig.len (shiftDrive (2 * Vpi) d)) r) := by
    intro r hr
    apply rowsRel_mzmRows₂ (Q := fun h h' : Cx ℝ => h' = -h) (P := fun o o' : Cx ℝ => o.normSq = o'.normSq) _ rfl pol _ _ hh r
      (by rw [hl]; exact hr)
    intro a h h' e
    rw [e, Cx.xmul_neg, Cx.normSq_neg]
  refine ⟨key x.sig hx.1, ?_⟩
  cases hn : x.noise with
  | none => simp
  | some nz => simpa using key nz (hx.noise_shaped hn)

/-! ### noise is modulated exactly like the signal -/

/-- the noise part of the output is what the device makes of a noise-free input whose signal is that noise -/
theorem mzm_noise_alike (pol : PolSel) (bias Vpi ld er : ℝ) (d : Drive ℝ) (s nz : Rows (Cx ℝ)) (out : Modulators.Field (Cx ℝ))
    (hn : nz.len = s.len) (h : mzm pol bias Vpi ld er d ⟨s, some nz⟩ = .ok out) :
    ∃ o', mzm pol bias Vpi ld er d ⟨nz, none⟩ = .ok o' ∧ out.noise = some o'.sig := by
  obtain ⟨hlen, hpol, rfl⟩ := mzm_ok_inv h
  have hlen' : d.samples.length = (⟨nz, none⟩ : Modulators.Field (Cx ℝ)).sig.len ∨ d.samples.length = 1 := by
    simpa [hn] using hlen
  refine ⟨_, mzm_eq_ok hlen' hpol, ?_⟩
  simp [hn]

/-- the signal part does not depend on the noise part, and no noise appears from nowhere -/
theorem mzm_signal_indep_noise (pol : PolSel) (bias Vpi ld er : ℝ) (d : Drive ℝ) (s : Rows (Cx ℝ))
    (nz : Option (Rows (Cx ℝ))) (out : Modulators.Field (Cx ℝ)) (h : mzm pol bias Vpi ld er d ⟨s, nz⟩ = .ok out) :
    mzm pol bias Vpi ld er d ⟨s, none⟩ = .ok ⟨out.sig, none⟩ ∧ (out.noise.isSome ↔ nz.isSome) := by
  obtain ⟨hlen, hpol, rfl⟩ := mzm_ok_inv h
  refine ⟨by rw [mzm_eq_ok (x := ⟨s, none⟩) hlen hpol]; rfl, ?_⟩
  cases nz <;> simp

/-! ### the unselected polarisation is extinguished, the selected one is treated as a single-polarisation input -/

theorem mzm_blank_x (bias Vpi ld er : ℝ) (d : Drive ℝ) (a b : List (Cx ℝ)) (nz : Option (Rows (Cx ℝ)))
    (out : Modulators.Field (Cx ℝ)) (h : mzm .x bias Vpi ld er d ⟨.two a b, nz⟩ = .ok out) :
    (∃ a' y', out.sig = .two a' y' ∧ (∀ z ∈ y', z = czero) ∧
        mzm .x bias Vpi ld er d ⟨.one a, none⟩ = .ok ⟨.one a', none⟩) ∧
      ∀ na nb, nz = some (.two na nb) → ∃ na' ny', out.noise = some (.two na' ny') ∧ ∀ z ∈ ny', z = czero := by
  obtain ⟨hlen, hpol, rfl⟩ := mzm_ok_inv h
  refine ⟨⟨_, _, rfl, by simp, ?_⟩, ?_⟩
  · rw [mzm_eq_ok (x := ⟨.one a, none⟩) hlen hpol]; rfl
  · rintro na nb rfl
    exact ⟨_, _, rfl, by simp⟩

theorem mzm_blank_y (bias Vpi ld er : ℝ) (d : Drive ℝ) (a b : List (Cx ℝ)) (nz : Option (Rows (Cx ℝ)))
    (out : Modulators.Field (Cx ℝ)) (hab : a.length = b.length) (h : mzm .y bias Vpi ld er d ⟨.two a b, nz⟩ = .ok out) :
    (∃ x' b', out.sig = .two x' b' ∧ (∀ z ∈ x', z = czero) ∧
        mzm .y bias Vpi ld er d ⟨.one b, none⟩ = .ok ⟨.one b', none⟩) ∧
      ∀ na nb, nz = some (.two na nb) → ∃ nx' nb', out.noise = some (.two nx' nb') ∧ ∀ z ∈ nx', z = czero := by
  obtain ⟨hlen, hpol, rfl⟩ := mzm_ok_inv h
  have hlen' : d.samples.length = (⟨.one b, none⟩ : Modulators.Field (Cx ℝ)).sig.len ∨ d.samples.length = 1 := by
    simpa [Rows.len, hab] using hlen
  refine ⟨⟨_, _, rfl, by simp, ?_⟩, ?_⟩
  · rw [mzm_eq_ok (x := ⟨.one b, none⟩) hlen' hpol]
    simp [Rows.len, hab, mzmRows, blank, Rows.map]
  · rintro na nb rfl
    exact ⟨_, _, rfl, by simp⟩

/-- a one-polarisation input is never blanked: both `pol` settings give the same result -/
theorem mzm_onepol_pol_irrelevant (bias Vpi ld er : ℝ) (d : Drive ℝ) (a : List (Cx ℝ)) (nz : Option (List (Cx ℝ))) :
    mzm .x bias Vpi ld er d ⟨.one a, nz.map .one⟩ = mzm .y bias Vpi ld er d ⟨.one a, nz.map .one⟩ := by
  by_cases hlen : d.samples.length = (⟨.one a, nz.map .one⟩ : Modulators.Field (Cx ℝ)).sig.len ∨ d.samples.length = 1
  · rw [mzm_eq_ok hlen (by decide), mzm_eq_ok hlen (by decide)]
    cases nz <;> simp [mzmRows, blank, Rows.map]
  · have : d.samples.length ≠ (⟨.one a, nz.map .one⟩ : Modulators.Field (Cx ℝ)).sig.len ∧ d.samples.length ≠ 1 :=
      ⟨fun e => hlen (Or.inl e), fun e => hlen (Or.inr e)⟩
    simp [mzm, this]

/-! ### drive container forms -/

/-- ndarray, list/tuple/str and electrical_signal drives (with or without a noise part of their own) with the same
    samples give the same result -/
theorem mzm_drive_forms (pol : PolSel) (bias Vpi ld er : ℝ) (us : List ℝ) (dn : Option (List ℝ)) (x : Modulators.Field (Cx ℝ)) :
    mzm pol bias Vpi ld er (.seq us) x = mzm pol bias Vpi ld er (.array us) x ∧
      mzm pol bias Vpi ld er (.esig us dn) x = mzm pol bias Vpi ld er (.array us) x := ⟨rfl, rfl⟩

/-- a scalar drive is the constant waveform (and equals the length-1 array, which numpy broadcasts) -/
theorem mzm_drive_scalar (pol : PolSel) (bias Vpi ld er : ℝ) (v : ℝ) (x : Modulators.Field (Cx ℝ)) :
    mzm pol bias Vpi ld er (.scalar v) x = mzm pol bias Vpi ld er (.array (List.replicate x.sig.len v)) x ∧
      mzm pol bias Vpi ld er (.scalar v) x = mzm pol bias Vpi ld er (.array [v]) x := by
  refine ⟨?_, rfl⟩
  by_cases hpol : pol = .other
  · subst hpol
    simp [mzm, Drive.samples]
  · rw [mzm_eq_ok (d := .scalar v) (Or.inr rfl) hpol,
      mzm_eq_ok (d := .array (List.replicate x.sig.len v)) (Or.inl (by simp [Drive.samples])) hpol]
    simp [mzmHs, Drive.samples, expand_singleton, expand_replicate]

/-- every drive of matching length (or length 1) is accepted for `pol ∈ {x, y}` -/
theorem mzm_accepts (pol : PolSel) (bias Vpi ld er : ℝ) (d : Drive ℝ) (x : Modulators.Field (Cx ℝ)) (hpol : pol ≠ .other)
    (hlen : d.samples.length = x.sig.len ∨ d.samples.length = 1) : ∃ out, mzm pol bias Vpi ld er d x = .ok out :=
  ⟨_, mzm_eq_ok hlen hpol⟩

/-- mismatched lengths raise `ValueError` -/
theorem mzm_length_mismatch (pol : PolSel) (bias Vpi ld er : ℝ) (d : Drive ℝ) (x : Modulators.Field (Cx ℝ))
    (h1 : d.samples.length ≠ x.sig.len) (h2 : d.samples.length ≠ 1) :
    mzm pol bias Vpi ld er d x = .error .ValueError := by
  simp [mzm, h1, h2]

/-- the only failure of the model is `ValueError`, exactly for a length mismatch or an invalid `pol` -/
theorem mzm_error_iff (pol : PolSel) (bias Vpi ld er : ℝ) (d : Drive ℝ) (x : Modulators.Field (Cx ℝ)) (e : Err) :
    mzm pol bias Vpi ld er d x = .error e ↔
      e = .ValueError ∧ ((d.samples.length ≠ x.sig.len ∧ d.samples.length ≠ 1) ∨ pol = .other) := by
  by_cases h1 : d.samples.length ≠ x.sig.len ∧ d.samples.length ≠ 1
  · have he : mzm pol bias Vpi ld er d x = .error .ValueError := by simp [mzm, h1]
    rw [he]
    constructor
    · intro h; cases h; exact ⟨rfl, Or.inl h1⟩
    · rintro ⟨rfl, _⟩; rfl
  by_cases h2 : pol = .other
  · have he : mzm pol bias Vpi ld er d x = .error .ValueError := by simp [mzm, h1, h2]
    rw [he]
    constructor
    · intro h; cases h; exact ⟨rfl, Or.inr h2⟩
    · rintro ⟨rfl, _⟩; rfl
  have hlen : d.samples.length = x.sig.len ∨ d.samples.length = 1 := by
    by_contra hc
    exact h1 ⟨fun e => hc (Or.inl e), fun e => hc (Or.inr e)⟩
  rw [mzm_eq_ok hlen h2]
  constructor
  · intro h; cases h
  · rintro ⟨_, h | h⟩
    · exact absurd h h1
    · exact absurd h h2

/-! ### optional BW: the optical filter of C11 applied to the modulated field -/

/-- with `BW` the result is, by definition, `BPF` (model `Filter.bpf` with the spied sections) of the modulated field;
    the checks of `MZM` come first -/
theorem mzm_bw_is_bpf_after_mzm (pol : PolSel) (bias Vpi ld er : ℝ) (d : Drive ℝ) (secs : List (Filter.Sec ℝ)) (e : ℕ)
    (x : Modulators.Field (Cx ℝ)) :
    mzmBW pol bias Vpi ld er d secs e x =
      match mzm pol bias Vpi ld er d x with
      | .error err => .error err
      | .ok y => Filter.bpf secs e y.toSig := by
  unfold mzmBW
  cases mzm pol bias Vpi ld er d x <;> rfl

/-- signal and noise rows are filtered alike (C11 `filt_rows_bpf`) and **the length is preserved**: every output row is
    `filtCoreCx secs e` of the corresponding modulated row -/
theorem mzm_bw_rows (pol : PolSel) (bias Vpi ld er : ℝ) (d : Drive ℝ) (secs : List (Filter.Sec ℝ)) (e : ℕ)
    (x y : Modulators.Field (Cx ℝ)) (hx : x.WF) (he : e < x.sig.len) (h : mzm pol bias Vpi ld er d x = .ok y) :
    ∃ o, mzmBW pol bias Vpi ld er d secs e x = .ok o ∧
      o.rows = y.sig.toList.map (Filter.filtCoreCx secs e) ∧
      o.noise = y.noise.map (fun r => r.toList.map (Filter.filtCoreCx secs e)) ∧
      (∀ row ∈ o.rows, row.length = x.sig.len) ∧ ∀ nz, o.noise = some nz → ∀ row ∈ nz, row.length = x.sig.len := by
  obtain ⟨hlen, hpol, rfl⟩ := mzm_ok_inv h
  have hl := mzmHs_length bias Vpi ld er x.sig.len d hlen
  have hok := mzmBW_ok (secs := secs) (bias := bias) (Vpi := Vpi) (ld := ld) (er := er) hpol rfl hx.1
    (fun r hr => hx.noise_shaped hr) hlen he
  refine ⟨_, hok, rfl, by cases x.noise <;> rfl, ?_, ?_⟩
  · intro row hrow
    obtain ⟨r0, hr0, rfl⟩ := List.mem_map.mp hrow
    have := mem_toList_length (shaped_mzmRows pol _ x.sig (by rw [hl]; exact hx.1)) r0 hr0
    rw [Filter.length_filtCoreCx _ _ _ (by rw [this, hl]; exact he), this, hl]
  · intro nz hnz row hrow
    simp only [Option.map_eq_some_iff] at hnz
    obtain ⟨r, hr, rfl⟩ := hnz
    obtain ⟨r0, hr0, rfl⟩ := List.mem_map.mp hrow
    have := mem_toList_length (shaped_mzmRows pol _ r (by rw [hl]; exact hx.noise_shaped hr)) r0 hr0
    rw [Filter.length_filtCoreCx _ _ _ (by rw [this, hl]; exact he), this, hl]

/-- **`MZM(·, u, …, BW)` is linear in the optical field**: for two fields of the same layout (same polarisation count and
    length, noise on both or on neither) and complex `a`, `b`, the device applied to `a·x₁ + b·x₂` gives
    `a·MZM(x₁) + b·MZM(x₂)`, rows of signal and of noise alike — the sample-wise product with `h_t` and the blanking are
    linear (`mzmRows_lin`) and so is the forward-backward filter (C11 `filt_linear_cx`, through `filtCoreCx_lin`) -/
theorem mzm_bw_linear (pol : PolSel) (hpol : pol ≠ .other) (bias Vpi ld er : ℝ) (d : Drive ℝ)
    (secs : List (Filter.Sec ℝ)) (e : ℕ) (a b : Cx ℝ) (x1 x2 : Modulators.Field (Cx ℝ)) (hx1 : x1.WF) (hx2 : x2.WF)
    (hs : RowsRel (fun _ _ => True) x1.sig x2.sig)
    (hn : match x1.noise, x2.noise with
      | some n1, some n2 => RowsRel (fun _ _ => True) n1 n2
      | none, none => True
      | _, _ => False)
    (hd : d.samples.length = x1.sig.len ∨ d.samples.length = 1) (he : e < x1.sig.len) :
    ∃ o1 o2, mzmBW pol bias Vpi ld er d secs e x1 = .ok o1 ∧ mzmBW pol bias Vpi ld er d secs e x2 = .ok o2 ∧
      mzmBW pol bias Vpi ld er d secs e (Field.lin a b x1 x2) = .ok (sigLin a b o1 o2) := by
  have s1 := hx1.1
  have s2 : x2.sig.Shaped x1.sig.len := by
    have := hx2.1
    have hl : x2.sig.len = x1.sig.len := by
      cases h1 : x1.sig <;> cases h2 : x2.sig <;> rw [h1, h2] at hs <;> simp only [RowsRel] at hs
      · exact hs.length_eq.symm
      · exact hs.1.length_eq.symm
    rwa [hl] at this
  have l2 : x2.sig.len = x1.sig.len := Rows.len_of_shaped s2
  have hl := mzmHs_length bias Vpi ld er x1.sig.len d hd
  have n1s : ∀ r, x1.noise = some r → r.Shaped x1.sig.len := fun r hr => hx1.noise_shaped hr
  have n2s : ∀ r, x2.noise = some r → r.Shaped x1.sig.len := fun r hr => by
    have := hx2.noise_shaped hr; rwa [l2] at this
  have sl := shaped_lin a b s1 s2 hs
  have ok1 := mzmBW_ok (secs := secs) (bias := bias) (Vpi := Vpi) (ld := ld) (er := er) (d := d) hpol rfl s1 n1s hd he
  have ok2 := mzmBW_ok (secs := secs) (bias := bias) (Vpi := Vpi) (ld := ld) (er := er) (d := d) (x := x2) hpol l2 s2 n2s hd he
  have ok3 := mzmBW_ok (secs := secs) (bias := bias) (Vpi := Vpi) (ld := ld) (er := er) (d := d)
    (x := Field.lin a b x1 x2) (n := x1.sig.len) hpol (Rows.len_of_shaped sl) sl
    (by
      intro r hr
      simp only [Field.lin] at hr
      revert hn hr
      cases h1 : x1.noise <;> cases h2 : x2.noise <;> simp
      intro hrel hr
      rw [← hr]
      exact shaped_lin a b (n1s _ h1) (n2s _ h2) hrel) hd he
  refine ⟨_, _, ok1, ok2, ?_⟩
  rw [ok3]
  -- rows of the signal part, then of the noise part
  have key : ∀ r1 r2 : Rows (Cx ℝ), r1.Shaped x1.sig.len → r2.Shaped x1.sig.len → RowsRel (fun _ _ => True) r1 r2 →
      (mzmRows pol (mzmHs bias Vpi ld er x1.sig.len d) (Rows.lin a b r1 r2)).toList.map (Filter.filtCoreCx secs e)
        = List.zipWith (Filter.linCx a b)
            ((mzmRows pol (mzmHs bias Vpi ld er x1.sig.len d) r1).toList.map (Filter.filtCoreCx secs e))
            ((mzmRows pol (mzmHs bias Vpi ld er x1.sig.len d) r2).toList.map (Filter.filtCoreCx secs e)) := by
    intro r1 r2 h1 h2 hrel
    have hrel' := rowsRel_true_mzmRows pol _ r1 r2 _ hl h1 h2 hrel
    rw [mzmRows_lin pol _ a b r1 r2 hrel, toList_lin a b _ _ hrel',
      map_filt_zipWith_lin secs e a b _ _ (forall₂_len_toList hrel')]
  simp only [sigLin, Field.lin]
  congr 2
  · exact key _ _ s1 s2 hs
  · cases h1 : x1.noise with
    | none =>
      cases h2 : x2.noise with
      | none => rfl
      | some n2 => rw [h1, h2] at hn; exact hn.elim
    | some n1 =>
      cases h2 : x2.noise with
      | none => rw [h1, h2] at hn; exact hn.elim
      | some n2 =>
        rw [h1, h2] at hn
        simp only [Option.map_some]
        exact congrArg some (key _ _ (n1s _ h1) (n2s _ h2) hn)

/-- a field not longer than the filter's padding is rejected with `ValueError` (scipy's `sosfiltfilt` length check) -/
theorem mzm_bw_short (pol : PolSel) (bias Vpi ld er : ℝ) (d : Drive ℝ) (secs : List (Filter.Sec ℝ)) (e : ℕ)
    (x y : Modulators.Field (Cx ℝ)) (hx : x.WF) (he : x.sig.len ≤ e) (h : mzm pol bias Vpi ld er d x = .ok y) :
    mzmBW pol bias Vpi ld er d secs e x = .error .ValueError := by
  obtain ⟨hlen, hpol, rfl⟩ := mzm_ok_inv h
  have hl := mzmHs_length bias Vpi ld er x.sig.len d hlen
  have hsh := shaped_mzmRows pol _ x.sig (by rw [hl]; exact hx.1)
  rw [mzm_bw_is_bpf_after_mzm, h]
  simp only [Filter.bpf, Filter.applyRows, Field.toSig]
  revert hsh
  cases mzmRows pol (mzmHs bias Vpi ld er x.sig.len d) x.sig <;>
    simp only [Rows.Shaped, Rows.toList, Filter.mapE, Filter.filtfiltCx] <;> intro hsh
  · simp [hsh, hl, he]
  · simp [hsh.1, hl, he]

/-- non-vacuity of `mzm_bw_linear` / `mzm_bw_rows`: two-polarisation noisy fields of 3 samples, one section, padding 1 -/
example : ∃ o1 o2, mzmBW (R := ℝ) .x 0 5 0 26 (.scalar 1) [⟨1, 0, 0, 0, 0, 0, 0⟩] 1
      ⟨.two [⟨1, 0⟩, ⟨0, 1⟩, ⟨2, 2⟩] [⟨0, 0⟩, ⟨1, 1⟩, ⟨3, 0⟩], some (.two [⟨1, 1⟩, ⟨0, 0⟩, ⟨1, 0⟩] [⟨0, 1⟩, ⟨0, 1⟩, ⟨0, 1⟩])⟩ = .ok o1 ∧
    mzmBW (R := ℝ) .x 0 5 0 26 (.scalar 1) [⟨1, 0, 0, 0, 0, 0, 0⟩] 1
      ⟨.two [⟨0, 0⟩, ⟨5, 1⟩, ⟨1, 2⟩] [⟨1, 0⟩, ⟨1, 0⟩, ⟨0, 0⟩], some (.two [⟨2, 1⟩, ⟨0, 3⟩, ⟨1, 0⟩] [⟨0, 0⟩, ⟨0, 1⟩, ⟨1, 1⟩])⟩ = .ok o2 ∧
    mzmBW (R := ℝ) .x 0 5 0 26 (.scalar 1) [⟨1, 0, 0, 0, 0, 0, 0⟩] 1
      (Field.lin ⟨2, 1⟩ ⟨0, -1⟩
        ⟨.two [⟨1, 0⟩, ⟨0, 1⟩, ⟨2, 2⟩] [⟨0, 0⟩, ⟨1, 1⟩, ⟨3, 0⟩], some (.two [⟨1, 1⟩, ⟨0, 0⟩, ⟨1, 0⟩] [⟨0, 1⟩, ⟨0, 1⟩, ⟨0, 1⟩])⟩
        ⟨.two [⟨0, 0⟩, ⟨5, 1⟩, ⟨1, 2⟩] [⟨1, 0⟩, ⟨1, 0⟩, ⟨0, 0⟩], some (.two [⟨2, 1⟩, ⟨0, 3⟩, ⟨1, 0⟩] [⟨0, 0⟩, ⟨0, 1⟩, ⟨1, 1⟩])⟩)
      = .ok (sigLin ⟨2, 1⟩ ⟨0, -1⟩ o1 o2) :=
  mzm_bw_linear .x (by decide) 0 5 0 26 (.scalar 1) _ 1 _ _ _ _
    ⟨⟨rfl, rfl⟩, by intro r hr; cases hr; exact ⟨by simp, by simp⟩⟩
    ⟨⟨rfl, rfl⟩, by intro r hr; cases hr; exact ⟨by simp, by simp⟩⟩
    ⟨by simp, by simp⟩ ⟨by simp, by simp⟩ (Or.inr rfl) (by decide)

/-! ### PM: a pure rotation of the total field -/

/-- the rotation factor is `exp(j·π·u/Vπ)` -/
theorem pm_phase (Vpi u : ℝ) (a : Cx ℝ) :
    (a * pmRot Vpi u).toC = a.toC * Complex.exp (((Real.pi * u / Vpi : ℝ) : ℂ) * Complex.I) := by
  have e : (pmPhase Vpi u : ℝ) = Real.pi * u / Vpi := by
    rw [pmPhase_real]; ring
  rw [Cx.toC_mul, pmRot, Cx.toC_cis, e]

/-- every output sample (signal and noise, every row) is the input sample times `exp(jπu_k/Vπ)` -/
theorem pm_rows (Vpi : ℝ) (d : Drive ℝ) (x out : Modulators.Field (Cx ℝ)) (h : pm Vpi d x = .ok out) :
    ∃ us, pmDrive x.sig.len d = .ok us ∧ us.length = x.sig.len ∧
      out.sig = x.sig.map (fun row => List.zipWith (fun a u => a * pmRot Vpi u) row us) ∧
      out.noise = x.noise.map (fun r => r.map (fun row => List.zipWith (fun a u => a * pmRot Vpi u) row us)) := by
  obtain ⟨us, hus, hl, rfl⟩ := pm_ok_inv h
  refine ⟨us, hus, hl, ?_, ?_⟩
  · cases x.sig <;> simp [pmRows, Rows.map, modRow, List.zipWith_map_right]
  · cases x.noise with
    | none => rfl
    | some r => cases r <;> simp [pmRows, Rows.map, modRow, List.zipWith_map_right]

/-- **PM leaves the instantaneous power of the total field (signal + noise) unchanged**, every sample of every row -/
theorem pm_power (Vpi : ℝ) (d : Drive ℝ) (x out : Modulators.Field (Cx ℝ)) (hx : x.WF) (h : pm Vpi d x = .ok out) :
    RowsRel (fun o i => o.normSq = i.normSq) out.total x.total := by
  obtain ⟨us, hus, hl, rfl⟩ := pm_ok_inv h
  have key : ∀ r : Rows (Cx ℝ), r.Shaped x.sig.len →
      RowsRel (fun o i => o.normSq = i.normSq) (pmRows Vpi us r) r := by
    intro r hr
    apply rowsRel_pmRows Vpi us r (by rw [hl]; exact hr)
    intro a u
    exact Cx.normSq_mul_cis a _
  cases hn : x.noise with
  | none => simpa [Field.total, hn] using key x.sig hx.1
  | some nz =>
    have hrel := hx.2 nz hn
    simp only [Field.total, hn, Option.map_some]
    rw [pmRows_add Vpi us x.sig nz hrel]
    apply key
    -- the total field has the shape of the signal
    have hnz := hx.noise_shaped hn
    have hs := hx.1
    revert hrel hnz hs
    generalize x.sig.len = n
    cases x.sig <;> cases nz <;> simp [RowsRel, Rows.Shaped, Rows.add] <;> intros <;> simp_all

/-- power of signal and of noise separately is unchanged as well -/
theorem pm_power_parts (Vpi : ℝ) (d : Drive ℝ) (x out : Modulators.Field (Cx ℝ)) (hx : x.WF) (h : pm Vpi d x = .ok out) :
    FieldRel (fun o i => o.normSq = i.normSq) out x := by
  obtain ⟨us, hus, hl, rfl⟩ := pm_ok_inv h
  have key : ∀ r : Rows (Cx ℝ), r.Shaped x.sig.len →
      RowsRel (fun o i => o.normSq = i.normSq) (pmRows Vpi us r) r := by
    intro r hr
    apply rowsRel_pmRows Vpi us r (by rw [hl]; exact hr)
    intro a u
    exact Cx.normSq_mul_cis a _
  refine ⟨key x.sig hx.1, ?_⟩
  cases hn : x.noise with
  | none => simp
  | some nz => simpa using key nz (hx.noise_shaped hn)

/-- **PM composes additively**, general form: whatever containers carry the drives `a`, `b` and `a+b` -/
theorem pm_add (Vpi : ℝ) (d1 d2 d3 : Drive ℝ) (x y : Modulators.Field (Cx ℝ)) (as bs : List ℝ) (hx : x.WF)
    (h1 : pmDrive x.sig.len d1 = .ok as) (h2 : pmDrive x.sig.len d2 = .ok bs)
    (h3 : pmDrive x.sig.len d3 = .ok (List.zipWith (· + ·) as bs))
    (hy : pm Vpi d1 x = .ok y) : pm Vpi d2 y = pm Vpi d3 x := by
  rw [pm_eq_ok h1] at hy
  cases hy
  have hl := pmDrive_length h1
  have hlen : (pmRows Vpi as x.sig).len = x.sig.len := len_pmRows Vpi as x.sig (by rw [hl]; exact hx.1)
  rw [pm_eq_ok (x := ⟨pmRows Vpi as x.sig, _⟩) (us := bs) (by simpa [hlen] using h2), pm_eq_ok h3]
  simp only [pmRows_pmRows, Option.map_map]
  cases x.noise <;> simp [pmRows_pmRows]

/-- scalars: `PM(PM(x, a), b) = PM(x, a + b)` -/
theorem pm_add_scalar (Vpi a b : ℝ) (x y : Modulators.Field (Cx ℝ)) (hx : x.WF) (hy : pm Vpi (.scalar a) x = .ok y) :
    pm Vpi (.scalar b) y = pm Vpi (.scalar (a + b)) x :=
  pm_add Vpi (.scalar a) (.scalar b) (.scalar (a + b)) x y _ _ hx rfl rfl
    (by simp only [pmDrive, zipWith_add_replicate]) hy

/-- waveforms (ndarray or electrical_signal, mixed freely): `PM(PM(x, a), b) = PM(x, a + b)` -/
theorem pm_add_array (Vpi : ℝ) (as bs : List ℝ) (na nb : Option (List ℝ)) (x y : Modulators.Field (Cx ℝ)) (hx : x.WF)
    (ha : as.length = x.sig.len) (hb : bs.length = x.sig.len) (hy : pm Vpi (.array as) x = .ok y) :
    pm Vpi (.esig bs nb) y = pm Vpi (.array (List.zipWith (· + ·) as bs)) x ∧
      pm Vpi (.array bs) y = pm Vpi (.array (List.zipWith (· + ·) as bs)) x := by
  constructor
  · exact pm_add Vpi (.array as) (.esig bs nb) _ x y as bs hx (by simp [pmDrive, ha]) (by simp [pmDrive, hb])
      (by simp [pmDrive, ha, hb]) hy
  · exact pm_add Vpi (.array as) (.array bs) _ x y as bs hx (by simp [pmDrive, ha]) (by simp [pmDrive, hb])
      (by simp [pmDrive, ha, hb]) hy

/-- scalar, ndarray and electrical_signal drives with the same samples give the same result; the noise part of an
    electrical_signal drive is ignored -/
theorem pm_drive_forms (Vpi v : ℝ) (us : List ℝ) (dn : Option (List ℝ)) (x : Modulators.Field (Cx ℝ)) :
    pm Vpi (.esig us dn) x = pm Vpi (.array us) x ∧
      pm Vpi (.scalar v) x = pm Vpi (.array (List.replicate x.sig.len v)) x := by
  constructor
  · simp [pm, pmDrive]
  · simp [pm, pmDrive]

/-- matching lengths are accepted -/
theorem pm_accepts (Vpi : ℝ) (us : List ℝ) (dn : Option (List ℝ)) (v : ℝ) (x : Modulators.Field (Cx ℝ)) (h : us.length = x.sig.len) :
    (∃ o, pm Vpi (.array us) x = .ok o) ∧ (∃ o, pm Vpi (.esig us dn) x = .ok o) ∧ ∃ o, pm Vpi (.scalar v) x = .ok o := by
  refine ⟨⟨_, pm_eq_ok (us := us) (by simp [pmDrive, h])⟩, ⟨_, pm_eq_ok (us := us) (by simp [pmDrive, h])⟩,
    ⟨_, pm_eq_ok (us := List.replicate x.sig.len v) rfl⟩⟩

/-- mismatched lengths raise `ValueError` (ndarray and electrical_signal drives; no broadcasting of length 1 in PM) -/
theorem pm_length_mismatch (Vpi : ℝ) (us : List ℝ) (dn : Option (List ℝ)) (x : Modulators.Field (Cx ℝ)) (h : us.length ≠ x.sig.len) :
    pm Vpi (.array us) x = .error .ValueError ∧ pm Vpi (.esig us dn) x = .error .ValueError := by
  constructor <;> simp [pm, pmDrive, h]

/-! ### LASER -/

/-- **a LASER without RIN has `|E_k|² = P` at every sample**, for all recorded phase draws, every offset, every time grid;
    `P = 10^(p/10 − 3)` W -/
theorem laser_power (p fs : ℝ) (phase : Option (List ℝ)) (df : Option ℝ) (t : List ℝ) (E : List (Cx ℝ))
    (h : laser p phase none df fs t = .ok E) :
    E.length = t.length ∧ ∀ z ∈ E, z.normSq = (10 : ℝ) ^ (p / 10 - 3) := by
  obtain ⟨e1, e2, h1, h2, h3⟩ := laser_ok_inv h
  obtain ⟨l1, p1⟩ := laserStage1_ok h1 (by simp)
  rw [laserStage2_none] at h2
  cases h2
  obtain ⟨l3, p3, _⟩ := laserStage3_ok h3 l1
  exact ⟨l3, p3 _ (p1 _ (laser_e0 p t))⟩

/-- with RIN the power follows the recorded intensity draw exactly: `|E_k|² = P·(1 + r_k)` (phase noise and offset do not
    touch it); the draw is ≥ −1 whenever the call succeeds -/
theorem laser_power_rin (p fs : ℝ) (phase : Option (List ℝ)) (r : List ℝ) (df : Option ℝ) (t : List ℝ) (E : List (Cx ℝ))
    (h : laser p phase (some r) df fs t = .ok E) :
    (∀ v ∈ r, -1 ≤ v) ∧ List.Forall₂ (fun z v => z.normSq = (10 : ℝ) ^ (p / 10 - 3) * (1 + v)) E r := by
  obtain ⟨e1, e2, h1, h2, h3⟩ := laser_ok_inv h
  obtain ⟨l1, p1⟩ := laserStage1_ok h1 (by simp)
  obtain ⟨l2, _, hge, f2⟩ := laserStage2_ok h2 l1 _ (p1 _ (laser_e0 p t))
  obtain ⟨_, _, f3⟩ := laserStage3_ok h3 l2
  exact ⟨hge, f3 r (fun v => (10 : ℝ) ^ (p / 10 - 3) * (1 + v)) f2⟩

/-- **spectral peak at df** (composition with the Fourier model of C02): a LASER without phase noise and without RIN, sampled on
    `t_j = j/fs` (`j < n`) with an on-grid offset `df = k0·fs/n` (`k0` an integer of either sign inside Nyquist), is accepted and
    its DFT (`Fourier.dftAt`, the definition numpy's `fft` is trusted to compute) has `|X_k|² = n²·P` in the single bin
    `k ≡ k0 (mod n)` — bin `k0` for `k0 ≥ 0`, bin `n + k0` for `k0 < 0`, i.e. frequency `df` in `fftfreq` order — and is
    exactly zero in every other bin.  Off-grid offsets and phase noise stay with the oracle (leakage / random walk). -/
theorem laser_spectral_peak (p fs : ℝ) (hfs : 0 < fs) (n : ℕ) (k0 : ℤ) (hk0 : 2 * |k0| < (n : ℤ)) :
    ∃ E, laser p none none (some ((k0 : ℝ) * fs / n)) fs (timeGrid n fs) = .ok E ∧ E.length = n ∧
      ∀ k, k < n → (Fourier.dftAt (Fourier.nth E) n k).normSq =
        if (k : ℤ) = k0 % (n : ℤ) then (n : ℝ) ^ 2 * (10 : ℝ) ^ (p / 10 - 3) else 0 := by
  have hn : (0 : ℝ) < n := by
    have : (0 : ℤ) < n := lt_of_le_of_lt (by positivity) hk0
    exact_mod_cast this
  have hny : |(k0 : ℝ) * fs / n| ≤ fs / 2 := by
    have h1 : (2 * |(k0 : ℝ)| : ℝ) < n := by
      have := hk0
      have h2 : ((2 * |k0| : ℤ) : ℝ) < ((n : ℤ) : ℝ) := by exact_mod_cast this
      simpa using h2
    rw [abs_div, abs_mul, abs_of_pos hfs, abs_of_pos hn, div_le_div_iff₀ hn (by norm_num)]
    nlinarith [abs_nonneg (k0 : ℝ)]
  refine ⟨_, laser_cw_eq p fs _ _ hny, by simp [timeGrid], ?_⟩
  intro k hk
  rw [Cx.toC_normSq, laser_cw_dft p fs hfs n k0 k hk]
  have hamp : (Gen.OptDev.laserAmp p : ℝ) * Gen.OptDev.laserAmp p = (10 : ℝ) ^ (p / 10 - 3) := by
    simp only [Gen.OptDev.laserAmp, Transc.sqrt_real]
    rw [Real.mul_self_sqrt (idbm_pos p).le, idbm_real]
  split
  · rw [Complex.normSq_mul, Complex.normSq_ofReal, Complex.normSq_natCast, hamp]; ring
  · simp

/-- non-vacuity: 8 samples, offset −3 bins: the peak sits in bin 5 -/
example : ∃ E, laser (R := ℝ) 0 none none (some (((-3 : ℤ) : ℝ) * 16 / (8 : ℕ))) 16 (timeGrid 8 16) = .ok E ∧ E.length = 8 ∧
    ∀ k, k < 8 → (Fourier.dftAt (Fourier.nth E) 8 k).normSq =
      if (k : ℤ) = (-3) % ((8 : ℕ) : ℤ) then ((8 : ℕ) : ℝ) ^ 2 * (10 : ℝ) ^ ((0 : ℝ) / 10 - 3) else 0 :=
  laser_spectral_peak 0 16 (by norm_num) 8 (-3) (by decide)

/-- an offset beyond Nyquist is rejected with `ValueError`; inside Nyquist (no RIN) the call succeeds -/
theorem laser_nyquist (p fs f : ℝ) (phase : Option (List ℝ)) (t : List ℝ)
    (hph : ∀ d, phase = some d → d.length = t.length) :
    (fs / 2 < |f| → laser p phase none (some f) fs t = .error .ValueError) ∧
      (|f| ≤ fs / 2 → ∃ E, laser p phase none (some f) fs t = .ok E) := by
  have hs1 : ∃ e1, laserStage1 t.length (t.map fun _ => (Cx.ofReal (Gen.OptDev.laserAmp p) : Cx ℝ)) phase = .ok e1 := by
    cases phase with
    | none => exact ⟨_, rfl⟩
    | some d => exact ⟨_, by simp only [laserStage1, hph d rfl, ne_eq, not_true_eq_false, if_false]; rfl⟩
  obtain ⟨e1, he1⟩ := hs1
  have h2 : (Gen.OptDev.laserNyquist fs : ℝ) = fs / 2 := by
    simp only [Gen.OptDev.laserNyquist, lit_real]; push_cast; rfl
  constructor
  · intro hf
    have : fs / 2 < f ∨ fs / 2 < -f := by
      rcases abs_cases f with ⟨e, _⟩ | ⟨e, _⟩ <;> rw [e] at hf
      · exact Or.inl hf
      · exact Or.inr hf
    simp only [laser, he1, laserStage2, laserStage3, h2, this, if_true]
  · intro hf
    have : ¬ (fs / 2 < f ∨ fs / 2 < -f) := by
      rintro (h | h)
      · exact absurd (le_abs_self f) (by linarith)
      · exact absurd (neg_abs_le f) (by linarith)
    exact ⟨laserOffset e1 f t, by simp only [laser, he1, laserStage2, laserStage3, h2, this, if_false]⟩

/-- non-vacuity: phase noise and an offset inside Nyquist -/
example : ∃ E, laser (R := ℝ) 0 (some [1, -2, 3]) none (some 1) 4 [0, 1, 2] = .ok E :=
  (laser_nyquist 0 4 1 (some [1, -2, 3]) [0, 1, 2] (by intro d hd; cases hd; rfl)).2 (by norm_num)

end OptiVerif.Props.C06
