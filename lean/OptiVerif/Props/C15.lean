/-
C15 — binary_sequence is a closed, immutable-by-operation algebra over {0,1}; electrical_signal >, < comparisons.
Property theorems only (helper lemmas: Lemmas/BinSeq*.lean).  Model: Model/BinSeq.lean (+ Model/BinSeqStr.lean).

A sequence is the list of its stored uint8 values; `Valid l` = every element is 0 or 1.
The model is functional, so "operands are left unchanged" has no content here: it is a runtime monitor of the harness.
-/
import OptiVerif.Lemmas.BinSeq
import OptiVerif.Lemmas.BinSeqStrBits
import OptiVerif.Lemmas.BinSeqStrErr
import OptiVerif.Lemmas.BinSeqCmp

namespace OptiVerif.Props.C15
open OptiVerif OptiVerif.BinSeq OptiVerif.BinSeqStr

/-! ### constructor -/

/-- **mk_valid_iff**: `binary_sequence(data)` (data not a string) is accepted iff `np.array(data)` is 0-D or 1-D and
    every element equals 0 or 1; the stored data are then exactly the elements' bits (a 0-D value becomes length 1). -/
theorem mk_valid_iff (a : Arr) (bits : List Nat) :
    mk (.arr a) = some (.ok bits) ↔
      (∃ c, a = .scalar c ∧ c.bit.isSome ∧ bits = [bitNat c]) ∨
      (∃ cs, a = .vec cs ∧ (∀ c ∈ cs, c.bit.isSome) ∧ bits = cs.map bitNat) := by
  show some (mkArr a) = some (.ok bits) ↔ _
  rw [Option.some_inj]
  cases a with
  | ragged =>
    constructor
    · intro h; cases h
    · rintro (⟨c, h, _⟩ | ⟨cs, h, _⟩) <;> cases h
  | nd d cs =>
    rw [mkArr_nd]
    constructor
    · intro h; cases h
    · rintro (⟨c, h, _⟩ | ⟨cs, h, _⟩) <;> cases h
  | scalar c =>
    rw [mkArr_scalar]
    constructor
    · intro h
      split at h
      · next hc => injection h with h; exact Or.inl ⟨c, rfl, hc, h.symm⟩
      · cases h
    · rintro (⟨c', h, hc, rfl⟩ | ⟨cs, h, _⟩)
      · injection h with h; subst h; rw [if_pos hc]
      · cases h
  | vec cs =>
    rw [mkArr_vec]
    constructor
    · intro h
      split at h
      · next hc => injection h with h; exact Or.inr ⟨cs, rfl, hc, h.symm⟩
      · cases h
    · rintro (⟨c', h, _⟩ | ⟨cs', h, hc, rfl⟩)
      · cases h
      · injection h with h; subst h; rw [if_pos hc]

/-- whatever is accepted (strings included) is stored as a valid sequence: 1-D, every element 0 or 1 -/
theorem mk_closed (d : Data) (bits : List Nat) (h : mk d = some (.ok bits)) : Valid bits := by
  rw [mk_eq] at h
  split at h
  · cases h
  · cases h
  · next a _ =>
    rw [Option.some_inj] at h
    cases a with
    | ragged => cases h
    | nd d cs => rw [mkArr_nd] at h; cases h
    | scalar c =>
      rw [mkArr_scalar] at h
      split at h
      · injection h with h; subst h
        intro x hx
        rw [List.mem_singleton] at hx
        subst hx
        exact bitNat_valid c
      · cases h
    | vec cs =>
      rw [mkArr_vec] at h
      split at h
      · injection h with h; subst h
        exact valid_map_bitNat cs
      · cases h

/-- **every refusal of the constructor is a ValueError** — strings included: the OverflowError that `str2array` raises
    for an integer literal outside the C long range is converted by the constructor -/
theorem mk_error_kind (d : Data) (e : Wire.Err) (h : mk d = some (.error e)) : e = .ValueError := by
  have harr : ∀ a : Arr, mkArr a = .error e → e = .ValueError := by
    intro a h
    cases a with
    | ragged => injection h with h; exact h.symm
    | nd d cs => rw [mkArr_nd] at h; injection h with h; exact h.symm
    | scalar c =>
      rw [mkArr_scalar] at h
      split at h
      · cases h
      · injection h with h; exact h.symm
    | vec cs =>
      rw [mkArr_vec] at h
      split at h
      · cases h
      · injection h with h; exact h.symm
  rw [mk_eq] at h
  split at h
  · cases h
  · next e' he =>
    have : e' = e := by injection h with h; injection h
    subst this
    cases d with
    | arr a => cases he
    | str s =>
      simp only [toArr] at he
      split at he
      · cases he
      · next e0 hs =>
        have hk := str2array_err s e0 hs
        injection he with he
        injection he with he
        rcases hk with rfl | rfl <;> simp at he <;> exact he.symm
      · cases he
  · next a _ =>
    rw [Option.some_inj] at h
    exact harr a h

/-- the same literal as an operand of `+` / reflected `+` is a ValueError too (the operators wrap `str2array` the same way) -/
theorem add_overflow_is_ValueError :
    add [0, 1] (.data (.str [57,57,57,57,57,57,57,57,57,57,57,57,57,57,57,57,57,57,57,57])) = some (.error .ValueError) ∧
    radd [0, 1] (.data (.str [45,57,50,50,51,51,55,50,48,51,54,56,53,52,55,55,53,56,48,57])) = some (.error .ValueError) ∧
    mk (.str [57,57,57,57,57,57,57,57,57,57,57,57,57,57,57,57,57,57,57,57]) = some (.error .ValueError) := by
  decide

/-- container forms agree: a plain bit string (characters `0 1 space comma`, not empty) builds the sequence of its digits -/
theorem mk_str_bits (s : List Nat) (h : Plain s) :
    mk (.str s) = some (.ok ((s.filter keep).map (fun c => c - 48))) ∧
    ∀ c ∈ s.filter keep, c = 48 ∨ c = 49 := by
  have hdig : ∀ c ∈ s.filter keep, c = 48 ∨ c = 49 := by
    intro c hc
    obtain ⟨hcs, hk⟩ := List.mem_filter.mp hc
    rcases h.2 c hcs with rfl | rfl | rfl | rfl
    · exact Or.inl rfl
    · exact Or.inr rfl
    · exact absurd hk (by decide)
    · exact absurd hk (by decide)
  refine ⟨?_, hdig⟩
  simp only [mk, toArr, str2array_plain s h, parsedToArr, Option.map_some]
  show some (mkArr (.vec ((s.filter keep).map cellOf))) = _
  have hok : cellsOK ((s.filter keep).map cellOf) = true := by
    rw [cellsOK, List.all_eq_true]
    intro c hc
    obtain ⟨d, _, rfl⟩ := List.mem_map.mp hc
    unfold cellOf; split <;> rfl
  simp only [mkArr, hok, Bool.not_true, Bool.false_eq_true, if_false, List.map_map]
  congr 2
  apply List.map_congr_left
  intro c hc
  rcases hdig c hc with rfl | rfl <;> rfl

/-! ### closure: every accepted operator result is a valid sequence -/

theorem add_closed (a : List Nat) (o : Operand) (r : List Nat) (h : add a o = some (.ok r)) : Valid r := by
  rw [add_eq] at h
  split at h
  · cases h
  · cases h
  · rw [Option.some_inj] at h
    obtain ⟨rfl, hv⟩ := (revalidate_ok_iff _ _).mp h
    exact hv

theorem radd_closed (a : List Nat) (o : Operand) (r : List Nat) (h : radd a o = some (.ok r)) : Valid r := by
  rw [radd_eq] at h
  split at h
  · cases h
  · cases h
  · rw [Option.some_inj] at h
    obtain ⟨rfl, hv⟩ := (revalidate_ok_iff _ _).mp h
    exact hv

theorem invert_closed (a r : List Nat) (h : invert a = .ok r) : Valid r := by
  obtain ⟨rfl, hv⟩ := (revalidate_ok_iff _ _).mp h
  exact hv

theorem getitem_closed (a : List Nat) (i : Index) (r : List Nat) (h : getitem a i = .ok r) : Valid r := by
  cases i with
  | int j =>
    simp only [getitem, getInt] at h
    split at h
    · cases h
    · split at h
      · obtain ⟨rfl, hv⟩ := (revalidate_ok_iff _ _).mp h
        exact hv
      · cases h
  | slice st sp step =>
    simp only [getitem] at h
    cases hs : span a.length st sp step with
    | error e => rw [hs] at h; cases h
    | ok s =>
      rw [hs] at h
      have h : revalidate _ = .ok r := h
      obtain ⟨rfl, hv⟩ := (revalidate_ok_iff _ _).mp h
      exact hv
  | newaxis => cases h
  | ellipsis =>
    obtain ⟨rfl, hv⟩ := (revalidate_ok_iff _ _).mp h
    exact hv

/-! ### concatenation -/

/-- `a + b` for a sequence operand: the concatenation, always accepted -/
theorem add_bs (a b : List Nat) (ha : Valid a) (hb : Valid b) : add a (.bs b) = some (.ok (a ++ b)) := by
  rw [add_eq]
  show some (revalidate (a ++ b)) = _
  rw [revalidate_of_valid (valid_append ha hb)]

/-- `a + b` for a list / tuple / ndarray operand that is 1-D with all elements 0/1: the concatenation -/
theorem add_vec (a : List Nat) (ha : Valid a) (cs : List Cell) (hc : ∀ c ∈ cs, c.bit.isSome) :
    add a (.data (.arr (.vec cs))) = some (.ok (a ++ cs.map bitNat)) := by
  rw [add_eq, operandBits_arr]
  simp only [if_pos hc]
  rw [revalidate_of_valid (valid_append ha (valid_map_bitNat cs))]

/-- whatever the operand, an accepted `a + o` is `a ++ b` for the bits `b` of the operand -/
theorem add_spec (a : List Nat) (o : Operand) (r : List Nat) (h : add a o = some (.ok r)) :
    ∃ b, operandBits o = some (.ok b) ∧ r = a ++ b := by
  rw [add_eq] at h
  split at h
  · cases h
  · cases h
  · next b hb =>
    rw [Option.some_inj] at h
    exact ⟨b, hb, ((revalidate_ok_iff _ _).mp h).1⟩

/-- reflected `o + a` is `b ++ a` -/
theorem radd_spec (a : List Nat) (o : Operand) (r : List Nat) (h : radd a o = some (.ok r)) :
    ∃ b, operandBits o = some (.ok b) ∧ r = b ++ a := by
  rw [radd_eq] at h
  split at h
  · cases h
  · cases h
  · next b hb =>
    rw [Option.some_inj] at h
    exact ⟨b, hb, ((revalidate_ok_iff _ _).mp h).1⟩

/-- **len_add**: `len(a+b) = len(a) + len(b)` -/
theorem len_add (a : List Nat) (o : Operand) (r : List Nat) (h : add a o = some (.ok r)) :
    ∃ b, operandBits o = some (.ok b) ∧ len r = len a + len b := by
  obtain ⟨b, hb, rfl⟩ := add_spec a o r h
  exact ⟨b, hb, by simp [len]⟩

/-- the same for the reflected operator -/
theorem len_radd (a : List Nat) (o : Operand) (r : List Nat) (h : radd a o = some (.ok r)) :
    ∃ b, operandBits o = some (.ok b) ∧ len r = len b + len a := by
  obtain ⟨b, hb, rfl⟩ := radd_spec a o r h
  exact ⟨b, hb, by simp [len]⟩

/-- **take_add**: `(a+b)[:len(a)] == a`, through the model's own slicing -/
theorem take_add (a : List Nat) (o : Operand) (r : List Nat) (h : add a o = some (.ok r)) :
    getitem r (.slice none (some (len a : Nat)) none) = .ok a := by
  have hv := add_closed a o r h
  obtain ⟨b, _, rfl⟩ := add_spec a o r h
  have ha : Valid a := valid_of_append_left hv
  simp only [getitem, span, Option.getD_none, startOf, stopOf, len]
  have hadj : adjust ((a ++ b).length : Nat) 1 (a.length : Int) = a.length := by
    unfold adjust
    simp only [List.length_append]
    split
    · omega
    · split
      · rename_i h1 h2
        have : b.length = 0 := by push_cast at h2; omega
        simp [this]
      · rfl
  have hcount : countOf 0 (a.length : Int) 1 = a.length := by
    unfold countOf
    rw [if_neg (by omega)]
    split
    · rw [Int.ediv_one]; omega
    · omega
  simp only [show ((1 : Int) = 0) = False by simp, if_false, show ¬ ((1 : Int) < 0) by omega, hadj, hcount]
  show revalidate ((Span.positions ⟨0, 1, a.length⟩).filterMap _) = _
  have hpos : (Span.positions ⟨0, 1, a.length⟩).filterMap
      (fun p => if p < 0 then none else (a ++ b)[p.toNat]?) = a := by
    unfold Span.positions
    rw [List.filterMap_map]
    have : (List.range a.length).filterMap
        ((fun p : Int => if p < 0 then none else (a ++ b)[p.toNat]?) ∘ fun (k : Nat) => (0 : Int) + (k : Int) * 1)
        = (List.range a.length).filterMap (fun k => (a ++ b)[k]?) := by
      apply List.filterMap_congr
      intro k _
      simp only [Function.comp]
      have : ¬ ((0 : Int) + (k : Int) * 1 < 0) := by omega
      rw [if_neg this]
      congr 1
      omega
    rw [this, filterMap_range_take _ _ (by simp)]
    simp
  rw [hpos]
  exact revalidate_of_valid ha

/-! ### inversion and counting -/

/-- `~a` flips every element -/
theorem invert_spec (a : List Nat) : invert a = .ok (a.map flip) :=
  revalidate_of_valid (valid_map_flip a)

/-- **invert_invert**: `~~a == a` -/
theorem invert_invert (a : List Nat) (ha : Valid a) : (invert a).bind invert = .ok a := by
  rw [invert_spec]
  show invert (a.map flip) = _
  rw [invert_spec, List.map_map]
  congr 1
  conv_rhs => rw [← List.map_id a]
  apply List.map_congr_left
  intro x hx
  exact flip_flip (ha x hx)

/-- **ones_add_zeros**: `ones() + zeros() == len()` -/
theorem ones_add_zeros (a : List Nat) (ha : Valid a) : ones a + zeros a = len a := by
  have := ones_le_len ha
  unfold zeros
  omega

/-- **ones_invert**: `ones(~a) == zeros(a)` -/
theorem ones_invert (a r : List Nat) (ha : Valid a) (h : invert a = .ok r) : ones r = zeros a := by
  rw [invert_spec] at h
  injection h with h
  subst h
  have := ones_map_flip ha
  unfold zeros
  omega

/-- `ones` counts the 1s -/
theorem ones_count (a : List Nat) (ha : Valid a) : ones a = a.count 1 := by
  induction a with
  | nil => rfl
  | cons x t ih =>
    have := ih (fun y hy => ha y (List.mem_cons_of_mem _ hy))
    rcases ha x (by simp) with rfl | rfl <;> simp [ones] at this ⊢ <;> omega

/-! ### the algebra of concatenation, inversion and counting -/

/-- **add_assoc**: `(a + b) + c == a + (b + c)` for sequences — both groupings are accepted and give the same bits -/
theorem add_assoc (a b c : List Nat) (ha : Valid a) (hb : Valid b) (hc : Valid c) :
    (add a (.bs b)).bind (fun r => match r with | .ok ab => add ab (.bs c) | .error e => some (.error e)) =
    (add b (.bs c)).bind (fun r => match r with | .ok bc => add a (.bs bc) | .error e => some (.error e)) := by
  rw [add_bs a b ha hb, add_bs b c hb hc]
  simp only [Option.bind_some]
  rw [add_bs (a ++ b) c (valid_append ha hb) hc, add_bs a (b ++ c) ha (valid_append hb hc), List.append_assoc]

/-- **invert_add**: inversion distributes over concatenation, `~(a + b) == ~a + ~b` -/
theorem invert_add (a b : List Nat) :
    invert (a ++ b) = .ok (a.map flip ++ b.map flip) ∧
    add (a.map flip) (.bs (b.map flip)) = some (.ok (a.map flip ++ b.map flip)) := by
  refine ⟨by rw [invert_spec, List.map_append], add_bs _ _ (valid_map_flip a) (valid_map_flip b)⟩

/-- **ones_add**: counting is additive over concatenation: `ones(a+b) = ones(a)+ones(b)`, likewise `zeros` and `len` -/
theorem ones_add (a b : List Nat) (ha : Valid a) (hb : Valid b) :
    ones (a ++ b) = ones a + ones b ∧ zeros (a ++ b) = zeros a + zeros b ∧ len (a ++ b) = len a + len b := by
  have h1 := ones_le_len ha
  have h2 := ones_le_len hb
  have hs : ones (a ++ b) = ones a + ones b := by simp [ones]
  have hl : len (a ++ b) = len a + len b := by simp [len]
  refine ⟨hs, ?_, hl⟩
  unfold zeros
  rw [hs, hl]
  omega

/-- non-vacuity of the three laws on `101`, `0`, `11` -/
example : add [1, 0, 1] (.bs [0]) = some (.ok [1, 0, 1, 0]) ∧ add [1, 0, 1, 0] (.bs [1, 1]) = some (.ok [1, 0, 1, 0, 1, 1]) ∧
    add [1, 0, 1] (.bs [0, 1, 1]) = some (.ok [1, 0, 1, 0, 1, 1]) ∧ invert [1, 0, 1, 0] = .ok [0, 1, 0, 1] ∧
    ones [1, 0, 1, 0] = 2 ∧ zeros [1, 0, 1, 0] = 2 := by decide

/-! ### indexing -/

/-- integer index (negative from the end): a length-1 sequence holding that element; out of range is refused -/
theorem getitem_int (a : List Nat) (ha : Valid a) (i : Int) :
    (0 ≤ i → i < a.length → ∃ x, a[i.toNat]? = some x ∧ getitem a (.int i) = .ok [x]) ∧
    (i < 0 → -(a.length : Int) ≤ i → ∃ x, a[(i + a.length).toNat]? = some x ∧ getitem a (.int i) = .ok [x]) ∧
    ((i < -(a.length : Int) ∨ (a.length : Int) ≤ i) → getitem a (.int i) = .error .Other) := by
  have key : ∀ j : Int, 0 ≤ j → j < a.length → intPos a.length i = j →
      ∃ x, a[j.toNat]? = some x ∧ getitem a (.int i) = .ok [x] := by
    intro j h0 h1 hj
    have hlt : j.toNat < a.length := by omega
    refine ⟨a[j.toNat], List.getElem?_eq_getElem hlt, ?_⟩
    simp only [getitem, getInt, hj]
    rw [if_neg (by omega), List.getElem?_eq_getElem hlt]
    apply revalidate_of_valid
    intro y hy
    rw [List.mem_singleton] at hy
    subst hy
    exact ha _ (List.getElem_mem _)
  refine ⟨?_, ?_, ?_⟩
  · intro h0 h1
    exact key i h0 h1 (by unfold intPos; rw [if_neg (by omega)])
  · intro h0 h1
    exact key (i + a.length) (by omega) (by omega) (by unfold intPos; rw [if_pos h0])
  · intro h
    simp only [getitem, getInt, intPos]
    split
    · rw [if_pos (by omega)]
    · rw [if_pos (by omega)]

/-- **getitem_add**: indexing a concatenation — a non-negative position below `len(a)` reads from `a`, a position from
    `len(a)` on reads from `b` at `i − len(a)`: `(a + b)[i] == a[i]`, `(a + b)[len(a) + j] == b[j]` -/
theorem getitem_add (a b : List Nat) (ha : Valid a) (hb : Valid b) (i : Int) (h0 : 0 ≤ i) :
    (i < a.length → getitem (a ++ b) (.int i) = getitem a (.int i)) ∧
    ((a.length : Int) ≤ i → i < a.length + b.length → getitem (a ++ b) (.int i) = getitem b (.int (i - a.length))) := by
  have hab := valid_append ha hb
  constructor
  · intro hi
    obtain ⟨x, hx, hg⟩ := (getitem_int (a ++ b) hab i).1 h0 (by simp only [List.length_append]; omega)
    obtain ⟨y, hy, hg'⟩ := (getitem_int a ha i).1 h0 hi
    have hlt : i.toNat < a.length := by omega
    rw [List.getElem?_append_left hlt] at hx
    rw [hg, hg']
    rw [hx] at hy
    injection hy with hy
    rw [hy]
  · intro hlo hhi
    obtain ⟨x, hx, hg⟩ := (getitem_int (a ++ b) hab i).1 h0 (by simp only [List.length_append]; omega)
    obtain ⟨y, hy, hg'⟩ := (getitem_int b hb (i - a.length)).1 (by omega) (by omega)
    have hge : a.length ≤ i.toNat := by omega
    rw [List.getElem?_append_right hge] at hx
    have e : i.toNat - a.length = (i - (a.length : Int)).toNat := by omega
    rw [e] at hx
    rw [hg, hg']
    rw [hx] at hy
    injection hy with hy
    rw [hy]

/-- `a[:]` and `a[...]` are `a` -/
theorem getitem_full (a : List Nat) (ha : Valid a) :
    getitem a (.slice none none none) = .ok a ∧ getitem a .ellipsis = .ok a := by
  refine ⟨?_, revalidate_of_valid ha⟩
  have h := take_add a (.bs []) (a ++ []) (by rw [add_bs a [] ha valid_nil])
  simp only [List.append_nil] at h
  -- `a[:len a]` and `a[:]` select the same span
  simp only [getitem, span, Option.getD_none, startOf, stopOf, len] at h ⊢
  have hadj : adjust (a.length : Nat) 1 (a.length : Int) = a.length := by
    unfold adjust
    split
    · omega
    · simp
  simp only [hadj] at h
  simpa using h

/-- **slices**: for every `(start, stop, step)` with `step ≠ 0` the slice is accepted, has the CPython slice length, and
    its `k`-th element is the element of `a` at position `start' + k·step` — a position of `a`; `step = 0` is refused. -/
theorem getitem_slice (a : List Nat) (ha : Valid a) (start stop step : Option Int) :
    (step = some 0 → getitem a (.slice start stop step) = .error .ValueError) ∧
    (step ≠ some 0 → ∃ s r, span a.length start stop step = .ok s ∧ getitem a (.slice start stop step) = .ok r ∧
        r.length = s.count ∧
        ∀ k, k < s.count → 0 ≤ s.start + (k : Int) * s.step ∧ s.start + (k : Int) * s.step < a.length ∧
          r[k]? = a[(s.start + (k : Int) * s.step).toNat]?) := by
  constructor
  · rintro rfl
    simp only [getitem, span, Option.getD_some, if_true]
    rfl
  · intro hstep
    have hst : step.getD 1 ≠ 0 := by
      cases step with
      | none => simp
      | some v => simpa using hstep
    obtain ⟨s, hspan⟩ : ∃ s, span a.length start stop step = .ok s := ⟨_, by simp only [span, if_neg hst]; rfl⟩
    have hr := span_in_range a.length start stop step s hspan
    -- every position is kept by the filter
    have hmap : s.positions.filterMap (fun p => if p < 0 then none else a[p.toNat]?)
        = (List.range s.count).map (fun (k : Nat) => a.getD (s.start + (k : Int) * s.step).toNat 0) := by
      unfold Span.positions
      rw [List.filterMap_map, ← List.filterMap_eq_map]
      apply List.filterMap_congr
      intro k hk
      obtain ⟨h0, h1⟩ := hr k (List.mem_range.mp hk)
      simp only [Function.comp, if_neg (show ¬ s.start + (k : Int) * s.step < 0 by omega)]
      have hlt : (s.start + (k : Int) * s.step).toNat < a.length := by omega
      rw [List.getElem?_eq_getElem hlt]
      simp [List.getD_eq_getElem?_getD, List.getElem?_eq_getElem hlt]
    have hget : getitem a (.slice start stop step)
        = .ok (s.positions.filterMap (fun p => if p < 0 then none else a[p.toNat]?)) := by
      simp only [getitem, hspan]
      exact revalidate_of_valid (fun x hx => ha x (mem_of_mem_filterMap_get a _ x hx))
    rw [hmap] at hget
    refine ⟨s, _, hspan, hget, by simp, ?_⟩
    intro k hk
    obtain ⟨h0, h1⟩ := hr k hk
    refine ⟨h0, h1, ?_⟩
    have hlt : (s.start + (k : Int) * s.step).toNat < a.length := by omega
    rw [List.getElem?_map, List.getElem?_range hk]
    simp [List.getD_eq_getElem?_getD, List.getElem?_eq_getElem hlt]

/-- `a[None]` (a 2-D view) is refused -/
theorem getitem_newaxis (a : List Nat) : getitem a .newaxis = .error .ValueError := rfl

/-! ### operands that are refused -/

/-- conversion errors of a data operand (string or array) are ValueError only -/
theorem toArr_error_kind (d : Data) (e : Wire.Err) (h : toArr d = some (.error e)) : e = .ValueError := by
  cases d with
  | arr a => cases h
  | str s =>
    simp only [toArr] at h
    split at h
    · cases h
    · next e0 hs =>
      have hk := str2array_err s e0 hs
      injection h with h
      injection h with h
      rcases hk with rfl | rfl <;> simp at h <;> exact h.symm
    · cases h

/-- **refused operands**: a non-container, non-string operand is a TypeError; every other refusal of `+` / reflected `+`
    (strings included, out-of-range integer literals included) is a ValueError -/
theorem add_error_kinds (a : List Nat) :
    add a .other = some (.error .TypeError) ∧ radd a .other = some (.error .TypeError) ∧
    ∀ (o : Operand) (e : Wire.Err), o ≠ .other → (add a o = some (.error e) ∨ radd a o = some (.error e)) →
      e = .ValueError := by
  refine ⟨rfl, rfl, ?_⟩
  intro o e ho h
  have hop : ∀ e', operandBits o = some (.error e') → e' = .ValueError := by
    intro e' he'
    cases o with
    | other => exact absurd rfl ho
    | bs b => cases he'
    | data d =>
      simp only [operandBits] at he'
      cases hd : toArr d with
      | none => rw [hd] at he'; cases he'
      | some r =>
        rw [hd] at he'
        cases r with
        | error e0 =>
          have : e0 = e' := by
            simp only [Option.map_some, Except.bind] at he'
            injection he' with he'; injection he'
          exact this ▸ toArr_error_kind d e0 hd
        | ok arr =>
          simp only [Option.map_some, Except.bind, Option.some.injEq] at he'
          cases arr with
          | ragged => injection he' with he'; exact he'.symm
          | scalar c =>
            dsimp only at he'
            by_cases hc : (!cellsOK [c]) = true
            · rw [if_pos hc] at he'; injection he' with he'; exact he'.symm
            · rw [if_neg hc] at he'; injection he' with he'; exact he'.symm
          | nd k cs =>
            dsimp only at he'
            by_cases hc : (!cellsOK cs) = true
            · rw [if_pos hc] at he'; injection he' with he'; exact he'.symm
            · rw [if_neg hc] at he'; injection he' with he'; exact he'.symm
          | vec cs =>
            dsimp only at he'
            by_cases hc : (!cellsOK cs) = true
            · rw [if_pos hc] at he'; injection he' with he'; exact he'.symm
            · rw [if_neg hc] at he'; cases he'
  rw [add_eq, radd_eq] at h
  rcases h with h | h
  · split at h
    · cases h
    · next e' he' => injection h with h; injection h with h; exact h ▸ hop e' he'
    · rw [Option.some_inj] at h; exact revalidate_err _ _ h
  · split at h
    · cases h
    · next e' he' => injection h with h; injection h with h; exact h ▸ hop e' he'
    · rw [Option.some_inj] at h; exact revalidate_err _ _ h

/-! ### `electrical_signal > threshold`, `< threshold` -/

set_option linter.unusedSectionVars false
section cmp
variable {R : Type} [Ring R] [LinearOrder R] [IsStrictOrderedRing R]

/-- **cmp_valid**: an accepted comparison (either operator, real or complex samples, any threshold) is a valid sequence
    of the signal's length — the signal being well formed (noise of the signal's shape) -/
theorem cmp_valid (gt : Bool) (sig : List (R × R)) (noise : Option (List (R × R)))
    (thr : Option (List (R × R) × Option (List (R × R)))) (hwf : WF sig noise)
    (hwt : ∀ t tn, thr = some (t, tn) → WF t tn) (out : List Nat) (h : compare gt sig noise thr = .ok out) :
    Valid out ∧ out.length = sig.length := by
  cases thr with
  | none => cases h
  | some p =>
    obtain ⟨t, tn⟩ := p
    by_cases ht0 : t = []
    · rw [compare_reject gt sig noise t tn (Or.inl ht0)] at h; cases h
    · by_cases ht : t.length = sig.length ∨ t.length = 1
      · rw [compare_eq gt sig noise t tn ht0 ht] at h
        injection h with h
        subst h
        refine ⟨valid_zipWith_cmpBit gt _ _, ?_⟩
        rw [List.length_zipWith, total_length sig noise hwf, bcast_length]
        · simp
        · rw [total_length t tn (hwt t tn rfl)]; exact ht
      · rw [compare_reject gt sig noise t tn (Or.inr ⟨fun h => ht (Or.inl h), fun h => ht (Or.inr h)⟩)] at h
        cases h

/-- a scalar threshold or one of the signal's length is always accepted; an empty one or any other length is a ValueError -/
theorem cmp_accept_iff (gt : Bool) (sig : List (R × R)) (noise : Option (List (R × R))) (t : List (R × R))
    (tn : Option (List (R × R))) :
    (∃ out, compare gt sig noise (some (t, tn)) = .ok out) ↔ (t ≠ [] ∧ (t.length = sig.length ∨ t.length = 1)) := by
  constructor
  · rintro ⟨out, h⟩
    by_contra hc
    have : t = [] ∨ (t.length ≠ sig.length ∧ t.length ≠ 1) := by
      by_cases h0 : t = []
      · exact Or.inl h0
      · right
        constructor
        · intro h1; exact hc ⟨h0, Or.inl h1⟩
        · intro h1; exact hc ⟨h0, Or.inr h1⟩
    rw [compare_reject gt sig noise t tn this] at h
    cases h
  · rintro ⟨h0, h1⟩
    exact ⟨_, compare_eq gt sig noise t tn h0 h1⟩

/-- **gt_spec / lt_spec** (real samples, any sign): element `i` of `signal > thr` is 1 iff `|thr_i| < |signal_i + noise_i|`
    (`<`: the reverse), the threshold being broadcast when it has length 1 -/
theorem cmp_spec_abs (gt : Bool) (s : List R) (n : Option (List R)) (t : List R)
    (ht0 : t ≠ []) (ht : t.length = s.length ∨ t.length = 1) :
    compare gt (s.map re) (n.map (List.map re)) (some (t.map re, none)) =
      .ok (List.zipWith (fun x y => if (if gt then |y| < |x| else |x| < |y|) then 1 else 0) (sumR s n) (bcastR s.length t)) := by
  rw [compare_eq gt _ _ _ _ (by simpa using ht0) (by simpa using ht)]
  have ht' : total (t.map re) (none : Option (List (R × R))) = t.map re := rfl
  rw [total_re, ht', List.length_map, bcast_re, zipWith_cmpBit_re]

/-- **gt_spec**: for non-negative real signal+noise and threshold, `signal > thr` is the element-wise comparison of
    `signal + noise` with the threshold -/
theorem gt_spec (s : List R) (n : Option (List R)) (t : List R) (ht0 : t ≠ []) (ht : t.length = s.length ∨ t.length = 1)
    (hs : ∀ x ∈ sumR s n, 0 ≤ x) (hthr : ∀ y ∈ t, 0 ≤ y) :
    compare true (s.map re) (n.map (List.map re)) (some (t.map re, none)) =
      .ok (List.zipWith (fun x y => if y < x then 1 else 0) (sumR s n) (bcastR s.length t)) := by
  rw [cmp_spec_abs true s n t ht0 ht]
  congr 1
  have hb : ∀ y ∈ bcastR s.length t, 0 ≤ y := by
    intro y hy
    match t, hthr, hy with
    | [], _, hy => simp [bcastR] at hy
    | [x], hthr, hy =>
      simp only [bcastR] at hy
      rw [List.mem_replicate] at hy
      rw [hy.2]; exact hthr x (by simp)
    | x :: z :: r, hthr, hy => exact hthr y hy
  apply zipWith_congr_mem
  intro x hx y hy
  simp [abs_of_nonneg (hs x hx), abs_of_nonneg (hb y hy)]

/-- **lt_spec**: likewise for `<` -/
theorem lt_spec (s : List R) (n : Option (List R)) (t : List R) (ht0 : t ≠ []) (ht : t.length = s.length ∨ t.length = 1)
    (hs : ∀ x ∈ sumR s n, 0 ≤ x) (hthr : ∀ y ∈ t, 0 ≤ y) :
    compare false (s.map re) (n.map (List.map re)) (some (t.map re, none)) =
      .ok (List.zipWith (fun x y => if x < y then 1 else 0) (sumR s n) (bcastR s.length t)) := by
  rw [cmp_spec_abs false s n t ht0 ht]
  congr 1
  have hb : ∀ y ∈ bcastR s.length t, 0 ≤ y := by
    intro y hy
    match t, hthr, hy with
    | [], _, hy => simp [bcastR] at hy
    | [x], hthr, hy =>
      simp only [bcastR] at hy
      rw [List.mem_replicate] at hy
      rw [hy.2]; exact hthr x (by simp)
    | x :: z :: r, hthr, hy => exact hthr y hy
  apply zipWith_congr_mem
  intro x hx y hy
  simp [abs_of_nonneg (hs x hx), abs_of_nonneg (hb y hy)]

end cmp

/-- the model compares squared magnitudes; for real samples that is the comparison of absolute values … -/
theorem abs_lt_iff_sq {R : Type} [Ring R] [LinearOrder R] [IsStrictOrderedRing R] (x y : R) :
    mag2 (re y) < mag2 (re x) ↔ |y| < |x| := mag2_re_lt_iff_abs x y

/-- … and for complex samples the comparison of the moduli that `np.abs` returns -/
theorem norm_lt_iff_sq (z w : ℂ) : mag2 (ofC w) < mag2 (ofC z) ↔ ‖w‖ < ‖z‖ := mag2_ofC_lt_iff_norm z w

/-! ### non-vacuity and samples (tests, not theorems) -/

example : mk (.arr (.vec [Cell.zero, Cell.one, Cell.one])) = some (.ok [0, 1, 1]) := by decide
example : mk (.arr (.vec [Cell.zero, Cell.other])) = some (.error .ValueError) := by decide
example : mk (.arr (.nd 2 [Cell.zero, Cell.one])) = some (.error .ValueError) := by decide
example : mk (.arr (.scalar Cell.one)) = some (.ok [1]) := by decide
example : Plain [48, 32, 49, 44, 49] := ⟨by decide, by decide⟩
example : mk (.str [48, 32, 49, 44, 49]) = some (.ok [0, 1, 1]) := by decide
example : mk (.str [50]) = some (.error .ValueError) := by decide
example : Valid [0, 1, 1, 0] := by intro x hx; simp at hx; omega
example : add [0, 1] (.bs [1, 1]) = some (.ok [0, 1, 1, 1]) := by decide
example : radd [0, 1] (.data (.arr (.vec [Cell.one, Cell.one]))) = some (.ok [1, 1, 0, 1]) := by decide
example : getitem [0, 1, 1, 0, 1] (.slice none none (some (-2))) = .ok [1, 1, 0] := by decide
example : getitem [0, 1, 1, 0, 1] (.slice (some 1) (some (-1)) none) = .ok [1, 1, 0] := by decide
example : getitem [0, 1, 1] (.int (-1)) = .ok [1] ∧ getitem [0, 1, 1] (.int 3) = .error .Other := by decide
example : compare true [((1 : Int), (0 : Int)), (-5, 0), (3, 4)] none (some ([(4, 0)], none)) = .ok [0, 1, 1] := by decide
example : compare false [((2 : Int), (0 : Int)), (1, 0)] (some [(1, 0), (1, 0)]) (some ([(3, 0), (2, 0)], none)) = .ok [0, 0] := by
  decide

end OptiVerif.Props.C15
