/-
C03 — a noise-free link built from the library's blocks returns the transmitted bits.
Theorems about `Model/Link.lean` at ℝ: the memoryless part of the chain (DAC NRZ → MZM (C06's translated transfer
function) → PD square law → SAMPLER → mid-level threshold) returns the bits for EVERY bit sequence, sps, sampling
instant and device parameter set with distinct ON/OFF levels; a decision-margin theorem carries the result over to
the filtered / dispersed chain whenever the received samples stay closer than half the level gap to their levels
(that hypothesis is evaluated numerically, on the real code, for every generated case); error counting.
-/
import OptiVerif.Lemmas.Link
import OptiVerif.Props.C12
import OptiVerif.Model.Dac
import Mathlib.Data.Rat.Cast.Defs
import Mathlib.Data.Real.Basic

namespace OptiVerif.Props.C03
open OptiVerif OptiVerif.Link OptiVerif.Modulators

/-! ### the memoryless chain -/

/-- the received waveform is slot-exact: every sample of slot k is the detected level of bit k -/
theorem received_slots (kPD lossdB erdB Vpi biasM vout bias : ℝ) (sps : ℕ) (bits : List Bool) :
    received kPD lossdB erdB Vpi biasM vout bias sps bits
      = (bits.map (fun b => rx kPD lossdB erdB Vpi biasM (lvl vout bias b))).flatMap (fun v => List.replicate sps v) := by
  simp only [received, nrz]
  exact map_flatMap_replicate _ _ _ _

theorem received_length (kPD lossdB erdB Vpi biasM vout bias : ℝ) (sps : ℕ) (bits : List Bool) :
    (received kPD lossdB erdB Vpi biasM vout bias sps bits).length = bits.length * sps := by
  rw [received_slots, length_flatMap_replicate (fun v => v)]
  simp

/-- sampling at ANY instant i < sps gives the detected level of every bit, one sample per slot -/
theorem sampler_received (kPD lossdB erdB Vpi biasM vout bias : ℝ) (sps i : ℕ) (hi : i < sps) (bits : List Bool) :
    sampler (received kPD lossdB erdB Vpi biasM vout bias sps bits) i sps
      = bits.map (fun b => rx kPD lossdB erdB Vpi biasM (lvl vout bias b)) := by
  rw [received_slots, sampler_slots _ _ _ hi]

/-- **the memoryless link returns the bits**: for every bit sequence (any length, any pattern), every sps ≥ 1, every
    sampling instant inside the slot, every CW amplitude / responsivity / load (kPD), every MZM loss, ER, Vπ, bias and
    every DAC amplitude and bias — provided only that the two detected levels differ — thresholding midway between the
    received levels returns exactly the transmitted bits -/
theorem memoryless_link (kPD lossdB erdB Vpi biasM vout bias : ℝ) (sps i : ℕ) (hi : i < sps) (bits : List Bool)
    (hlev : rx kPD lossdB erdB Vpi biasM (lvl vout bias false) ≠ rx kPD lossdB erdB Vpi biasM (lvl vout bias true)) :
    let v0 := rx kPD lossdB erdB Vpi biasM (lvl vout bias false)
    let v1 := rx kPD lossdB erdB Vpi biasM (lvl vout bias true)
    (sampler (received kPD lossdB erdB Vpi biasM vout bias sps bits) i sps).map
        (fun y => decideBit v0 v1 y ((v0 + v1) / 2)) = bits := by
  intro v0 v1
  rw [sampler_received _ _ _ _ _ _ _ _ _ hi, List.map_map]
  conv_rhs => rw [← List.map_id bits]
  apply List.map_congr_left
  intro b _
  simp only [Function.comp, id]
  have := decide_level v0 v1 hlev b
  cases b <;> simpa using this

/-! ### drive arrangements: only the SUM of the two biases matters, and only modulo 2·Vπ -/

/-- the DAC bias and the MZM bias are interchangeable: a drive `x·Vout + bias` into a modulator biased at `biasM` is
    detected exactly as the drive `x·Vout` into a modulator biased at `biasM + bias` (the push-pull arrangement
    `DAC(bias = −Vπ/2) → MZM(bias = +Vπ/2)` of the MZM docstring is the unbiased drive into an unbiased modulator) -/
theorem rx_bias_interchange (kPD lossdB erdB Vpi biasM vout bias : ℝ) (b : Bool) :
    rx kPD lossdB erdB Vpi biasM (lvl vout bias b)
      = rx kPD lossdB erdB Vpi (biasM + bias) (lvl vout ((0 : ℕ) : ℝ) b) := by
  have h : Gen.OptDev.mzmG Vpi biasM (lvl vout bias b) = Gen.OptDev.mzmG Vpi (biasM + bias) (lvl vout ((0 : ℕ) : ℝ) b) := by
    simp only [Gen.OptDev.mzmG, lvl]; push_cast; ring
  simp only [rx, mzmHu, h]

theorem received_bias_interchange (kPD lossdB erdB Vpi biasM vout bias : ℝ) (sps : ℕ) (bits : List Bool) :
    received kPD lossdB erdB Vpi biasM vout bias sps bits
      = received kPD lossdB erdB Vpi (biasM + bias) vout ((0 : ℕ) : ℝ) sps bits := by
  rw [received_slots, received_slots]
  congr 1
  apply List.map_congr_left
  intro b _
  exact rx_bias_interchange kPD lossdB erdB Vpi biasM vout bias b

/-- the detected voltage is periodic in the bias with period 2·Vπ (the field changes sign, the square law does not see it):
    every arrangement whose biases sum to Vπ + 2k·Vπ is the same link -/
theorem rx_bias_period (kPD lossdB erdB Vpi biasM u : ℝ) (hV : Vpi ≠ 0) :
    rx kPD lossdB erdB Vpi (biasM + 2 * Vpi) u = rx kPD lossdB erdB Vpi biasM u := by
  have h : Gen.OptDev.mzmG Vpi (biasM + 2 * Vpi) u = Gen.OptDev.mzmG Vpi biasM u + Real.pi := by
    have h2 : (Gen.OptDev.lit 2 : ℝ) = 2 := by simp [Gen.OptDev.lit]
    simp only [Gen.OptDev.mzmG, Transc.pi_real, h2]
    field_simp
    ring
  simp only [rx, mzmHu, h, Gen.OptDev.mzmHre, Gen.OptDev.mzmHim, Cx.normSq, Transc.cos_real, Transc.sin_real,
    Real.cos_add_pi, Real.sin_add_pi]
  ring

/-- the two polarisation layouts give the same detected voltage: a two-polarisation carrier whose unselected
    polarisation is extinguished by the MZM contributes |0|² = 0 to the square law -/
theorem layouts_agree (r Rl : ℝ) (ax h : Cx ℝ) :
    r * ((ax * h).normSq + (Modulators.czero : Cx ℝ).normSq) * Rl = r * (ax * h).normSq * Rl := by
  simp [Modulators.czero, Cx.normSq, Gen.OptDev.lit]

/-- the detected level is kPD·|h|² with kPD = r·R_load·|a|² (square law of the modulated carrier) -/
theorem rx_is_square_law (r Rl lossdB erdB Vpi biasM u : ℝ) (a : Cx ℝ) :
    rx (r * Rl * a.normSq) lossdB erdB Vpi biasM u = r * (a * mzmHu lossdB erdB Vpi biasM u).normSq * Rl := by
  simp only [rx, Cx.normSq_mul]
  ring

/-! ### filtered / dispersed chain: decision margin -/

/-- for ANY received sample sequence: if every sample is closer to the level of its bit than half the level gap, the
    mid-level decision returns the bits.  (The Bessel filter with BW ≥ 0.7·R and dispersion below 1 % of the squared slot
    keep the inter-symbol interference inside this margin — checked numerically on the real code for every case.) -/
theorem decision_margin (v0 v1 : ℝ) (ys : List ℝ) (bits : List Bool)
    (h : List.Forall₂ (fun y b => |y - (if b then v1 else v0)| < |v1 - v0| / 2) ys bits) :
    ys.map (fun y => decideBit v0 v1 y ((v0 + v1) / 2)) = bits := by
  induction h with
  | nil => rfl
  | cons hyb _ ih => simp only [List.map_cons, ih, decide_margin v0 v1 _ _ hyb]

/-- the margin is necessary in the following sense: a sample on the wrong side of the mid level is decoded wrongly -/
theorem decision_wrong_side (v0 v1 y : ℝ) (b : Bool) (h01 : v0 < v1)
    (hy : if b then y < (v0 + v1) / 2 else (v0 + v1) / 2 < y) :
    decideBit v0 v1 y ((v0 + v1) / 2) ≠ b := by
  cases b
  · simp only [Bool.false_eq_true, if_false] at hy
    simp only [decideBit, Nat.cast_zero, ne_eq, decide_eq_false_iff_not, not_not]
    nlinarith
  · simp only [if_true] at hy
    simp only [decideBit, Nat.cast_zero, ne_eq, decide_eq_true_eq, not_lt]
    nlinarith

/-! ### error counting: BER_analizer('counter') -/

theorem errors_self (t : List Bool) : errors t t = 0 := by
  induction t with
  | nil => rfl
  | cons a as ih => simp [errors, ih]

theorem errors_le (t r : List Bool) : errors t r ≤ min t.length r.length := by
  induction t generalizing r with
  | nil => simp [errors]
  | cons a as ih =>
    cases r with
    | nil => simp [errors]
    | cons b bs =>
      simp only [errors, List.length_cons]
      have := ih bs
      split <;> omega

/-- flipping exactly the positions marked in `e` gives exactly (number of marks) errors: counter = k/n -/
theorem errors_flip (t e : List Bool) (hlen : t.length = e.length) :
    errors t (List.zipWith xor t e) = e.count true := by
  induction t generalizing e with
  | nil => cases e <;> simp_all [errors]
  | cons a as ih =>
    cases e with
    | nil => simp at hlen
    | cons x xs =>
      simp only [List.length_cons, Nat.add_right_cancel_iff] at hlen
      simp only [List.zipWith_cons_cons, errors, ih xs hlen, List.count_cons]
      cases a <;> cases x <;> simp <;> omega

/-- the counter reports 0 for a perfect reception, whatever the data -/
theorem counter_zero_of_link (kPD lossdB erdB Vpi biasM vout bias : ℝ) (sps i : ℕ) (hi : i < sps) (bits : List Bool)
    (hlev : rx kPD lossdB erdB Vpi biasM (lvl vout bias false) ≠ rx kPD lossdB erdB Vpi biasM (lvl vout bias true)) :
    errors bits ((sampler (received kPD lossdB erdB Vpi biasM vout bias sps bits) i sps).map
        (fun y => decideBit (rx kPD lossdB erdB Vpi biasM (lvl vout bias false))
          (rx kPD lossdB erdB Vpi biasM (lvl vout bias true)) y
          ((rx kPD lossdB erdB Vpi biasM (lvl vout bias false) + rx kPD lossdB erdB Vpi biasM (lvl vout bias true)) / 2))) = 0 := by
  rw [memoryless_link kPD lossdB erdB Vpi biasM vout bias sps i hi bits hlev, errors_self]

/-! ### the link's NRZ waveform is C05's DAC model -/

/-- the slot waveform used by the link theorems is exactly the (exact, rational) DAC model of C05 — `np.kron` expansion then
    `x*Vout + bias` — read in ℝ: the chain proved above really starts at the modelled DAC -/
theorem nrz_is_dac (vout bias : ℚ) (sps : ℕ) (bits : List Bool) :
    (Dac.scale (Dac.kron (bits.map Bool.toNat) sps) (some vout) (some bias)).map (fun q : ℚ => (q : ℝ))
      = nrz (vout : ℝ) (bias : ℝ) sps bits := by
  simp only [Dac.scale, Dac.kron, nrz, List.map_map]
  induction bits with
  | nil => rfl
  | cons b bs ih =>
    simp only [List.map_cons, List.flatMap_cons, List.map_append, ih]
    congr 1
    cases b <;> simp [Dac.lvl, lvl, Function.comp_def]

/-! ### PPM over the same link: soft decision returns the codeword (composition with C12) -/

theorem sumL_replicate (n : ℕ) (v : ℝ) : Ppm.sumL (List.replicate n v) = n * v := by
  induction n with
  | zero => simp [Ppm.sumL]
  | succ n ih =>
    simp only [Ppm.sumL, List.replicate_succ, List.foldr_cons] at *
    rw [ih]; push_cast; ring

/-- **PPM soft decision over the memoryless link**: for every valid codeword `c` of any power-of-two order (in
    particular every `PPM_ENCODER` output, C12 `encode_valid`), the waveform received through DAC → MZM → PD with the ON
    level above the OFF level is decoded by SDD back to `c` exactly — for every sps ≥ 1 and every device parameter set.
    With C12's `decode_encode` the transmitted bits follow (truncated to whole symbols). -/
theorem ppm_soft_link (kPD lossdB erdB Vpi biasM vout bias : ℝ) (M sps : ℕ) (hM : 0 < M)
    (hp : Ppm.pow2Test (M : Int) = true) (hs : 0 < sps) (c : List Bool) (hv : Ppm.ValidCW M c)
    (hlev : rx kPD lossdB erdB Vpi biasM (lvl vout bias false) < rx kPD lossdB erdB Vpi biasM (lvl vout bias true)) :
    Ppm.sdd (M : Int) sps (received kPD lossdB erdB Vpi biasM vout bias sps c) = .ok c := by
  have h := OptiVerif.Props.C12.sdd_id_on_waveforms (R := ℝ) M sps hM hp hs c hv
    (List.replicate sps (rx kPD lossdB erdB Vpi biasM (lvl vout bias false)))
    (List.replicate sps (rx kPD lossdB erdB Vpi biasM (lvl vout bias true)))
    (by simp) (by simp)
    (by rw [sumL_replicate, sumL_replicate]
        exact mul_lt_mul_of_pos_left hlev (by exact_mod_cast hs))
  rw [← h, received_slots]
  congr 1
  rw [List.flatMap_def, List.map_map]
  congr 1
  apply List.map_congr_left
  intro b _
  cases b <;> simp

/-! ### non-vacuity -/
example : decideBit (0 : ℝ) 1 0.9 ((0 + 1) / 2) = true := by
  apply decide_margin 0 1 0.9 true; norm_num [abs_lt]
example : errors [true, false, true, true] (List.zipWith xor [true, false, true, true] [false, true, true, false]) = 2 := by
  decide

end OptiVerif.Props.C03
