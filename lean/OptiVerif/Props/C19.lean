/-
C19 — unit conversions, Q, number formatting and string parsing are self-consistent.
Property theorems only (helper lemmas: Lemmas/ConvReal, GaussQ, Dec2bin, Si, StrArray).

* dB pairs, Q, gaus, rcos: the generic numeric model `Model/Conv.lean` instantiated at `ℝ` (the same definitions the
  driver runs at `Float`).  `scipy.special.erfc` is a parameter; its assumed property is `GaussQ.ErfcSpec`.
* dec2bin, si, str2array: exact models (`Model/Dec2bin`, `Model/Si` over the table `Gen/SiLadder.lean` translated from the
  source on every run, `Model/StrArray`).
-/
import OptiVerif.Lemmas.ConvReal
import OptiVerif.Lemmas.Dec2bin
import OptiVerif.Lemmas.Si
import OptiVerif.Lemmas.StrArray

namespace OptiVerif.Props.C19
open OptiVerif

/-! ### dB pairs (over ℝ; the model is `Conv.db` … at `R := ℝ`) -/

/-- `idb(db(x)) = x` for every `x > 0` -/
theorem idb_db (x : ℝ) (hx : 0 < x) : Conv.idb (Conv.db x) = x := Conv.idb_db x hx
/-- `db(idb(y)) = y` for every real dB value -/
theorem db_idb (y : ℝ) : Conv.db (Conv.idb y) = y := Conv.db_idb y
/-- `idbm(dbm(x)) = x` for every `x > 0` -/
theorem idbm_dbm (x : ℝ) (hx : 0 < x) : Conv.idbm (Conv.dbm x) = x := Conv.idbm_dbm x hx
/-- `dbm(idbm(y)) = y` for every real dBm value -/
theorem dbm_idbm (y : ℝ) : Conv.dbm (Conv.idbm y) = y := Conv.dbm_idbm y
/-- `db(x·y) = db(x) + db(y)` -/
theorem db_mul (x y : ℝ) (hx : 0 < x) (hy : 0 < y) : Conv.db (x * y) = Conv.db x + Conv.db y := Conv.db_mul x y hx hy
/-- `dbm(x) = db(x) + 30` -/
theorem dbm_eq_db_add_30 (x : ℝ) (hx : 0 < x) : Conv.dbm x = Conv.db x + 30 := Conv.dbm_eq_db_add_30 x hx
/-- negative input ⇔ ValueError (`db`) -/
theorem db_negative_iff (x : ℝ) : Conv.dbE x = .error .ValueError ↔ x < 0 := Conv.dbE_error_iff x
/-- negative input ⇔ ValueError (`dbm`) -/
theorem dbm_negative_iff (x : ℝ) : Conv.dbmE x = .error .ValueError ↔ x < 0 := Conv.dbmE_error_iff x
/-! ### the dB scale as an order-preserving homomorphism (ratios ↔ differences) -/

/-- `db(x / y) = db(x) − db(y)`: a power ratio is a level difference -/
theorem db_div (x y : ℝ) (hx : 0 < x) (hy : 0 < y) : Conv.db (x / y) = Conv.db x - Conv.db y := by
  simp only [Conv.db_real]
  rw [Real.log_div hx.ne' hy.ne']
  ring

/-- `db(xⁿ) = n · db(x)` -/
theorem db_pow (x : ℝ) (n : ℕ) : Conv.db ((x ^ n : ℝ)) = (n : ℝ) * (Conv.db x : ℝ) := by
  simp only [Conv.db_real]
  rw [Real.log_pow]
  ring

/-- `idb(a + b) = idb(a) · idb(b)`, `idb(0) = 1`, and `idb` is positive: cascaded gains in dB add -/
theorem idb_add (a b : ℝ) : Conv.idb (a + b) = Conv.idb a * Conv.idb b ∧ Conv.idb (0 : ℝ) = 1 ∧ 0 < Conv.idb a := by
  simp only [Conv.idb_real]
  refine ⟨?_, by simp, Real.exp_pos _⟩
  rw [← Real.exp_add]
  congr 1
  ring

/-- the dB scale preserves order on positive powers: `x < y ↔ db(x) < db(y)`; `idb` is strictly increasing -/
theorem db_strict_mono (x y : ℝ) (hx : 0 < x) (hy : 0 < y) : Conv.db x < Conv.db y ↔ x < y := by
  simp only [Conv.db_real]
  have h10 : 0 < Real.log 10 := Real.log_pos (by norm_num)
  rw [mul_lt_mul_iff_of_pos_left (by norm_num : (0 : ℝ) < 10), div_lt_div_iff_of_pos_right h10]
  exact Real.log_lt_log_iff hx hy

theorem idb_strict_mono (a b : ℝ) : Conv.idb a < Conv.idb b ↔ a < b := by
  simp only [Conv.idb_real]
  have h10 : 0 < Real.log 10 := Real.log_pos (by norm_num)
  rw [Real.exp_lt_exp, mul_lt_mul_iff_of_pos_right h10, div_lt_div_iff_of_pos_right (by norm_num : (0 : ℝ) < 10)]

/-- `dbm` and `idbm` are `db` / `idb` shifted by 30 dB (1 W = 30 dBm): `idbm(y) = idb(y − 30)` -/
theorem idbm_eq_idb_sub_30 (y : ℝ) : Conv.idbm y = Conv.idb (y - 30) := by
  simp only [Conv.idbm_real, Conv.idb_real]
  congr 1
  ring

/-- the model's `10**y` is the real power function -/
theorem idb_is_power (y : ℝ) : Conv.idb y = (10 : ℝ) ^ (y / 10) := by
  unfold Conv.idb; rw [Conv.pow10_real]; simp
example : Conv.idb (Conv.db (2 : ℝ)) = 2 := idb_db 2 (by norm_num)

/-! ### Q (for every `erfc` that is the Gaussian tail: `erfc y = 2·N(0,1)(√2·y, ∞)`) -/

/-- the model's Q is the upper tail of the standard normal law -/
theorem Q_is_gaussian_tail (erfc : ℝ → ℝ) (h : GaussQ.ErfcSpec erfc) (x : ℝ) :
    Conv.Q erfc x = ((ProbabilityTheory.gaussianReal 0 1) (Set.Ioi x)).toReal := Conv.Q_eq_gQ erfc h x
/-- `Q(x) + Q(−x) = 1` -/
theorem Q_symm (erfc : ℝ → ℝ) (h : GaussQ.ErfcSpec erfc) (x : ℝ) : Conv.Q erfc x + Conv.Q erfc (-x) = 1 := by
  rw [Conv.Q_eq_gQ erfc h, Conv.Q_eq_gQ erfc h]; exact GaussQ.gQ_symm x
/-- `Q(0) = 1/2` -/
theorem Q_zero (erfc : ℝ → ℝ) (h : GaussQ.ErfcSpec erfc) : Conv.Q erfc 0 = 1 / 2 := by
  rw [Conv.Q_eq_gQ erfc h]; exact GaussQ.gQ_zero
/-- Q is decreasing -/
theorem Q_antitone (erfc : ℝ → ℝ) (h : GaussQ.ErfcSpec erfc) : Antitone (Conv.Q erfc) := by
  intro a b hab
  rw [Conv.Q_eq_gQ erfc h, Conv.Q_eq_gQ erfc h]; exact GaussQ.gQ_antitone hab
/-- Q takes values in [0, 1] -/
theorem Q_range (erfc : ℝ → ℝ) (h : GaussQ.ErfcSpec erfc) (x : ℝ) : 0 ≤ Conv.Q erfc x ∧ Conv.Q erfc x ≤ 1 := by
  rw [Conv.Q_eq_gQ erfc h]; exact ⟨GaussQ.gQ_nonneg x, GaussQ.gQ_le_one x⟩
/-- non-vacuity: the specification of `erfc` has a model -/
example : ∃ erfc, GaussQ.ErfcSpec erfc := ⟨GaussQ.erfcRef, GaussQ.erfcRef_spec⟩

/-! ### gaus -/

/-- `gaus` integrates to one (any mean, any `std > 0`) -/
theorem gaus_integral_one (mu std : ℝ) (hs : 0 < std) : ∫ x, Conv.gaus x mu std = 1 := Conv.gaus_integral mu std hs
/-- it is the Gaussian density of Mathlib with variance `std²` -/
theorem gaus_is_gaussian_pdf (x mu std : ℝ) (hs : 0 < std) :
    Conv.gaus x mu std = ProbabilityTheory.gaussianPDFReal mu (Real.toNNReal (std ^ 2)) x := Conv.gaus_eq_pdf x mu std hs

/-! ### rcos -/

/-- `rcos` stays in [0, 1] (all real x, alpha, T) -/
theorem rcos_range (x alpha T : ℝ) : 0 ≤ Conv.rcos x alpha T ∧ Conv.rcos x alpha T ≤ 1 := Conv.rcos_range x alpha T
/-- `rcos` is even -/
theorem rcos_even (x alpha T : ℝ) : Conv.rcos (-x) alpha T = Conv.rcos x alpha T := Conv.rcos_even x alpha T
/-- `rcos(1/(2T)) = 1/2` when `alpha > 0` -/
theorem rcos_half (alpha T : ℝ) (ha : 0 < alpha) (hT : 0 < T) : Conv.rcos (1 / (2 * T)) alpha T = 1 / 2 :=
  Conv.rcos_half alpha T ha hT
/-- `rcos` vanishes beyond `(1+alpha)/(2T)` -/
theorem rcos_zero_beyond (x alpha T : ℝ) (ha : 0 ≤ alpha) (hT : 0 < T) (hx : (1 + alpha) / (2 * T) < |x|) :
    Conv.rcos x alpha T = 0 := Conv.rcos_zero_beyond x alpha T ha hT hx
/-- `rcos = 1` on the flat part -/
theorem rcos_one_inside (x alpha T : ℝ) (hx : |x| ≤ (1 - alpha) / (2 * T)) : Conv.rcos x alpha T = 1 :=
  Conv.rcos_one_inside x alpha T hx
example : Conv.rcos (1 / (2 * 1)) (1/2 : ℝ) 1 = 1 / 2 := rcos_half _ _ (by norm_num) (by norm_num)

/-! ### dec2bin -/

section
open OptiVerif.Dec2bin

/-- accepted inputs: the result is the `d`-digit big-endian expansion of `v` -/
theorem dec2bin_ok (v d : Nat) (h : v < 2 ^ d) : dec2bin (v : Int) (d : Int) = .ok (bitsBE d v) := by
  unfold dec2bin
  rw [dec2binFuel_eq, if_neg]
  · have := loop_spec d d v [] (Nat.le_refl _) h
    simpa using this
  · have : ((v : Int)) < 2 ^ d := by exact_mod_cast h
    omega

theorem dec2bin_spec (v d : Nat) (h : v < 2 ^ d) :
    ∃ bits, dec2bin (v : Int) (d : Int) = .ok bits ∧ bits.length = d ∧
      (∀ i (hi : i < bits.length), bits[i] = (v / 2 ^ (d - 1 - i)) % 2) ∧
      weightedSum bits = v ∧ valBE bits = v := by
  refine ⟨bitsBE d v, dec2bin_ok v d h, bitsBE_length d v, ?_, ?_, ?_⟩
  · intro i hi
    exact bitsBE_getElem d v i (by simpa using hi)
  · rw [← valBE_eq_weightedSum, valBE_bitsBE, Nat.mod_eq_of_lt h]
  · rw [valBE_bitsBE, Nat.mod_eq_of_lt h]

/-- error iff the number does not fit -/
theorem dec2bin_error_iff (v : Int) (d : Nat) :
    dec2bin v (d : Int) = .error .ValueError ↔ v ≥ 2 ^ d := by
  unfold dec2bin
  rw [dec2binFuel_eq]
  by_cases h : v > 2 ^ d - 1
  · rw [if_pos h]; simp only [true_iff]; omega
  · rw [if_neg h]
    constructor
    · intro h'; cases h'
    · intro h'; omega

theorem dec2bin_negative_digits (v d : Int) (h : d < 0) : dec2bin v d = .error .ValueError := by
  unfold dec2bin dec2binFuel; rw [if_pos h]

/-- the `while` loop ends within `digits` rounds: more fuel changes nothing -/
theorem dec2bin_terminates (v d fuel : Nat) (h : v < 2 ^ d) (hf : d ≤ fuel) :
    dec2binFuel fuel (v : Int) (d : Int) = dec2bin (v : Int) (d : Int) := by
  rw [dec2bin_ok v d h, dec2binFuel_eq, if_neg]
  · have := loop_spec d fuel v [] hf h
    simpa using this
  · have : ((v : Int)) < 2 ^ d := by exact_mod_cast h
    omega

/-- non-positive numbers skip the loop: all zeros (outside the property's quantifier, but it is what the code does) -/
theorem dec2bin_nonpos (v : Int) (d : Nat) (h : v ≤ 0) : dec2bin v (d : Int) = .ok (List.replicate d 0) := by
  unfold dec2bin
  rw [dec2binFuel_eq, if_neg]
  · have : v.toNat = 0 := by omega
    rw [this]
    cases d <;> simp [loop]
  · have : (0 : Int) < 2 ^ d := by positivity
    omega

example : dec2bin 5 4 = .ok [0, 1, 0, 1] := by decide
example : dec2bin 16 4 = .error .ValueError := by decide

end

/-! ### si -/

section
open OptiVerif.Si

/-- the if-ladder found in the source is the documented one (T G M k – m μ n p f, decades 1e12 … 1e-15) -/
theorem si_table_documented : Gen.SiLadder.rows = Si.documented ∧ Gen.SiLadder.zeroCase = true :=
  ⟨Si.rows_documented, Si.zeroCase_documented⟩

/-- every row's scale factor is the inverse of the SI prefix it prints -/
theorem si_scale_times_prefix (r : Si.Row) (hr : r ∈ Gen.SiLadder.rows) :
    ∃ v, Si.prefixValue r.2.2.2 = some v ∧ r.2.2.1 * v = 1 := by
  rw [Si.rows_documented] at hr
  obtain ⟨v, h1, h2, _⟩ := Si.documented_scale r hr
  exact ⟨v, h1, h2⟩

/-- the rows tile [1e-15, ∞): exactly one row's test succeeds, and `si` uses that row -/
theorem si_rows_tile (x : Rat) (hx : 1/(10:Rat)^15 ≤ x) :
    ∃ r ∈ Gen.SiLadder.rows, Si.hits r x = true ∧ (∀ r' ∈ Gen.SiLadder.rows, Si.hits r' x = true → r' = r) ∧
      Si.si x = .row r.2.2.2 (x * r.2.2.1) := by
  obtain ⟨p, m, v, h, -⟩ := Si.si_good x hx
  have h' := h
  rw [Si.si_eq] at h'
  obtain ⟨r, hr, hh, hp, hm⟩ := Si.siRows_row h'
  rw [Si.rows_documented]
  refine ⟨r, hr, hh, ?_, ?_⟩
  · intro r' hr' hh'
    exact Si.unique_hit Si.documented_chain x r' r hr' hr hh' hh
  · rw [h, hp, hm]

/-- **si_ladder_ok**: for x ≥ 1e-15 the output is a mantissa and an SI prefix whose value times the mantissa is x;
    the mantissa is in [1,1000) below 1e15 -/
theorem si_ladder_ok (x : Rat) (hx : 1/(10:Rat)^15 ≤ x) :
    ∃ p m v, Si.si x = .row p m ∧ Si.prefixValue p = some v ∧ m * v = x ∧
      (x < (10:Rat)^15 → 1 ≤ m ∧ m < 1000) := Si.si_good x hx

/-- above 1e15 the tera row is used with a mantissa ≥ 1000 -/
theorem si_above_range (x : Rat) (hx : (10:Rat)^15 ≤ x) :
    Si.si x = .row [84] (x * (1/(10:Rat)^12)) ∧ 1000 ≤ x * (1/(10:Rat)^12) := by
  constructor
  · rw [Si.si_eq]
    simp only [Si.documented, Si.siRows, Si.hits, Bool.and_true, decide_eq_true_eq]
    rw [if_pos (by norm_num at *; linarith)]
  · norm_num at *; linarith

theorem si_zero : Si.si 0 = .zero := by
  rw [Si.si_eq, Si.siRows_none_hit]
  · simp
  · intro r hr
    have := Si.documented_lo r hr
    cases h : Si.hits r 0
    · rfl
    · rw [Si.hits_iff] at h
      norm_num at this
      linarith [h.1]

/-- below 1e-15 (and not 0) the function falls off the ladder and returns None -/
theorem si_below_range (x : Rat) (hx : x < 1/(10:Rat)^15) (h0 : x ≠ 0) : Si.si x = .none := by
  rw [Si.si_eq, Si.siRows_none_hit]
  · simp [h0]
  · intro r hr
    have := Si.documented_lo r hr
    cases h : Si.hits r x
    · rfl
    · rw [Si.hits_iff] at h
      linarith [h.1]

/-- non-vacuity: `si(2.5e12)` is `2.5 T` (the repaired tera row) -/
example : Si.si (5/2 * 10^12) = .row [84] (5/2) := by
  rw [Si.si_eq]; simp only [Si.documented, Si.siRows, Si.hits]; norm_num
example : Si.si (999949/1000) = .row [] (999949/1000) := by
  rw [Si.si_eq]; simp only [Si.documented, Si.siRows, Si.hits]; norm_num

end

/-! ### str2array -/

section
open OptiVerif.StrArray

/-! ### str2array: type inference -/

/-- the four character classes are nested, strictly -/
theorem char_classes_nested (c : Char) :
    (isBoolChar c = true → isIntChar c = true) ∧ (isIntChar c = true → isFloatChar c = true) ∧
    (isFloatChar c = true → isComplexChar c = true) :=
  ⟨isIntChar_of_isBoolChar, isFloatChar_of_isIntChar, isComplexChar_of_isFloatChar⟩

theorem char_classes_strict :
    (isIntChar '2' = true ∧ isBoolChar '2' = false) ∧ (isFloatChar '.' = true ∧ isIntChar '.' = false) ∧
    (isComplexChar 'j' = true ∧ isFloatChar 'j' = false) ∧ (isComplexChar 'i' = true ∧ isFloatChar 'i' = false) := by decide

/-- **infer_type_lattice**: the inferred type is the least class of the chain bool ⊂ int ⊂ float ⊂ complex that
    contains every character of the (non-empty) text -/
theorem infer_type_lattice (s : List Char) (t : Ty) :
    inferType s = some t ↔
      s ≠ [] ∧
      match t with
      | .bool => ∀ c ∈ s, isBoolChar c = true
      | .int => (∀ c ∈ s, isIntChar c = true) ∧ ¬ ∀ c ∈ s, isBoolChar c = true
      | .float => (∀ c ∈ s, isFloatChar c = true) ∧ ¬ ∀ c ∈ s, isIntChar c = true
      | .complex => (∀ c ∈ s, isComplexChar c = true) ∧ ¬ ∀ c ∈ s, isFloatChar c = true :=
  inferType_some_iff s t

/-- any other character (or an empty text) ⇒ ValueError, whatever the dtype -/
theorem str2array_foreign_char (s : List Char) (d : Option Ty) (h : s = [] ∨ ∃ c ∈ s, isComplexChar c = false) :
    str2array s d = .error .ValueError := by
  have := (inferType_none_iff s).mpr h
  simp [str2array, this]

/-- an explicit dtype is honoured: the result carries that dtype -/
theorem str2array_dtype_honoured (s : List Char) (d : Ty) (a : Arr) (h : str2array s (some d) = .ok a) : a.ty = d := by
  unfold str2array at h
  cases hi : inferType s with
  | none => rw [hi] at h; cases h
  | some cls =>
    rw [hi] at h
    simp only [bind, Except.bind] at h
    split at h
    · cases h
    · rename_i arr _
      unfold astype at h
      simp only [bind, Except.bind, pure, Except.pure] at h
      split at h
      · cases h
      · injection h with h; rw [← h]

/-- **bit-pattern special case**: a text made only of the digits 0 and 1 (blanks, commas, `;`) is read digit by digit
    when no numeric dtype is given; rows of unequal length are refused -/
theorem str2array_bit_pattern (s : List Char) (hne : s ≠ []) (hs : IsBitText s) (d : Option Ty) (hd : d = none ∨ d = some .bool) :
    str2array s d =
      if rect (bitPieces s) then .ok (mkArr .bool ((bitPieces s).map (fun p => p.map bitVal)))
      else .error .ValueError := by
  have hi := (inferType_some_iff s .bool).mpr ⟨hne, fun c hc => isBoolChar_of_bitText (hs c hc)⟩
  have hp := parseBits_spec s hs
  rcases hd with rfl | rfl
  · simp only [str2array, hi, hp]
    split_ifs <;> rfl
  · simp only [str2array, hi, hp]
    split_ifs with hr
    · have := astype_bool_bits (mkArr .bool ((bitPieces s).map (fun p => p.map bitVal)))
        (bitPieces s).flatten (mkArr_ty _ _) (by rw [mkArr_data]; simp [List.map_flatten])
      simpa [bind, Except.bind] using this
    · rfl

/-- one-dimensional instance: `'1 0 1 10'` is read as five bits -/
example : str2array "1 0 1 10".toList none =
    .ok ⟨.bool, none, 5, [(1,0),(0,0),(1,0),(1,0),(0,0)]⟩ := by decide

/-- **parse_render_int** (explicit dtype): the fixed-point text of any int64 array — one row or several rows of equal
    length, elements separated by any run of commas/blanks, rows by `;` with optional blanks — is read back exactly. -/
theorem parse_render_int (sep pre post : List Char) (hsep : IsElemSep sep) (hpre : IsBlank pre) (hpost : IsBlank post)
    (rows : List (List Int)) (hne : rows ≠ []) (hrows : ∀ r ∈ rows, r ≠ []) (hrect : Rect rows)
    (hrange : ∀ r ∈ rows, ∀ n ∈ r, InRange n) :
    str2array (renderRows sep pre post rows) (some .int) = .ok (mkArr .int (rows.map (fun r => r.map intEntry))) := by
  rw [str2array_int_dtype _ (renderRows_ne_nil sep pre post rows hne hrows)
    (renderRows_intChars sep pre post hsep hpre hpost rows hrows),
    parseNumeric_render sep pre post hsep hpre hpost rows hne hrows hrect hrange]
  have := astype_int_id (mkArr .int (rows.map (fun r => r.map intEntry))) rows.flatten (mkArr_ty _ _)
    (by rw [mkArr_data]; simp [List.map_flatten])
    (by intro n hn; obtain ⟨r, hr, hnr⟩ := List.mem_flatten.mp hn; exact hrange r hr n hnr)
  simpa [Except.bind] using this

/-- **parse_render_int** (inferred dtype): the same without dtype, as soon as the text is not a pure 0/1 pattern -/
theorem parse_render_int_inferred (sep pre post : List Char) (hsep : IsElemSep sep) (hpre : IsBlank pre) (hpost : IsBlank post)
    (rows : List (List Int)) (hne : rows ≠ []) (hrows : ∀ r ∈ rows, r ≠ []) (hrect : Rect rows)
    (hrange : ∀ r ∈ rows, ∀ n ∈ r, InRange n)
    (hnb : ∃ c ∈ renderRows sep pre post rows, isBoolChar c = false) :
    str2array (renderRows sep pre post rows) none = .ok (mkArr .int (rows.map (fun r => r.map intEntry))) := by
  have hi : inferType (renderRows sep pre post rows) = some .int := by
    rw [inferType_some_iff]
    refine ⟨renderRows_ne_nil sep pre post rows hne hrows, renderRows_intChars sep pre post hsep hpre hpost rows hrows, ?_⟩
    intro hall
    obtain ⟨c, hc, hcb⟩ := hnb
    rw [hall c hc] at hcb; cases hcb
  rw [str2array_none_of_int _ hi, parseNumeric_render sep pre post hsep hpre hpost rows hne hrows hrect hrange]

/-- shapes: one row gives a 1-D array of its length, several rows a 2-D array -/
theorem parse_render_int_shape_1d (r : List Int) :
    mkArr .int ([r].map (fun r => r.map intEntry)) = ⟨.int, none, r.length, r.map intEntry⟩ := by
  simp [mkArr]

theorem parse_render_int_shape_2d (r1 r2 : List Int) (rs : List (List Int)) :
    mkArr .int ((r1 :: r2 :: rs).map (fun r => r.map intEntry)) =
      ⟨.int, some (rs.length + 2), r1.length, ((r1 :: r2 :: rs).map (fun r => r.map intEntry)).flatten⟩ := by
  simp [mkArr]

/-- non-vacuity: `'1 -2 1; 4,5,6'` (a test of the repository) and a pure 0/1 text with `dtype=int` -/
example : str2array "1 -2 1; 4,5,6".toList (some .int) =
    .ok ⟨.int, some 2, 3, [(1,0),(-2,0),(1,0),(4,0),(5,0),(6,0)]⟩ := by decide
example : str2array "1 0 1 10".toList (some .int) = .ok ⟨.int, none, 4, [(1,0),(0,0),(1,0),(10,0)]⟩ := by decide
example : IsElemSep ", ".toList ∧ IsElemSep " ".toList ∧ IsElemSep ",".toList ∧ IsBlank " ".toList ∧ IsBlank [] := by
  refine ⟨⟨by decide, by decide⟩, ⟨by decide, by decide⟩, ⟨by decide, by decide⟩, ?_, ?_⟩
  · intro c hc; simp at hc; subst hc; decide
  · intro c hc; cases hc
example : renderRows ", ".toList [] " ".toList [[1, -2, 10], [4, 5, 6]] = "1, -2, 10; 4, 5, 6".toList := by
  simp [renderRows, renderRow, renderInt, natDigits, digitChar, List.intercalate]

end

end OptiVerif.Props.C19
