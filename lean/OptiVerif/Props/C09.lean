/-
C09 — PD is a square-law detector with unit DC gain and the documented noise powers.
Property theorems only (helper lemmas: `Lemmas/Pd.lean`, `Lemmas/PdCore.lean`, `Lemmas/PdInv.lean`).

The objects are the generic definitions of `Model/Pd.lean` read at `R := ℝ` — the same definitions the driver runs at `Float`
against the real `PD` (value handed to `LPF` observed by a spy, `np.random.normal` arguments and draws spied).  The decision
tables and the scalar formulas come from `Gen/PdTable.lean`, regenerated from `devices.py` on every run and pinned below to
the documented values.  The output filter is an arbitrary operator `F` (`pdOut F`): the clauses about the filtered output
only assume what C11 proves about `LPF` (DC preserving, length preserving).  Physical constants `kB`, `e` are parameters.
-/
import OptiVerif.Lemmas.PdInv
import OptiVerif.Lemmas.PdFull

set_option linter.unusedVariables false
set_option linter.unusedSimpArgs false
set_option linter.unnecessarySeqFocus false

namespace OptiVerif.Props.C09
open OptiVerif OptiVerif.Pd

/-! ### the translated tables say what the documentation says -/

/-- the seven options of the ladder, each with the variables it sums, left to right; anything else is a `ValueError` -/
theorem ladder_documented :
    Gen.PdTable.ladder =
      [("ase-only", ["i_s_n", "i_n_n", "i_dark"]), ("thermal-only", ["i_T", "i_dark"]), ("shot-only", ["i_N", "i_dark"]),
       ("ase-shot", ["i_s_n", "i_n_n", "i_N", "i_dark"]), ("ase-thermal", ["i_s_n", "i_n_n", "i_T", "i_dark"]),
       ("thermal-shot", ["i_T", "i_N", "i_dark"]), ("all", ["i_s_n", "i_n_n", "i_N", "i_T", "i_dark"])] ∧
      Gen.PdTable.ladderElseErr = .ValueError := ⟨rfl, rfl⟩

/-- the blocks that compute the thermal draw, the shot draw and the beating terms run for the option names that contain
    `thermal` / `shot` / `ase`, or `all`; thermal is drawn before shot; both draws have `loc = 0` -/
theorem triggers_documented :
    Gen.PdTable.thermalTriggers = ["thermal", "all"] ∧ Gen.PdTable.shotTriggers = ["shot", "all"] ∧
      Gen.PdTable.aseTriggers = ["ase", "all"] ∧ Gen.PdTable.blockOrder = ["thermal", "shot", "ase"] ∧
      Gen.PdTable.thermalLoc = 0 ∧ Gen.PdTable.shotLoc = 0 ∧ Gen.PdTable.iAseNoNoise = 0 := by
  refine ⟨rfl, rfl, rfl, rfl, ?_, ?_, ?_⟩ <;> decide +kernel

/-- validation ladder: `r`, `T`, `R_load` must be `int`/`float` (else `TypeError`), `r ≤ 0 ∨ r > 1`, `T < 0`, `R_load < 0`
    are `ValueError`s, `include_noise` must be a `str`, `input` an `optical_signal` -/
theorem validation_documented :
    Gen.PdTable.inputTypes = ["optical_signal"] ∧ Gen.PdTable.inputErr = .TypeError ∧
      Gen.PdTable.rTypes = ["int", "float"] ∧ Gen.PdTable.rTypeErr = .TypeError ∧
      Gen.PdTable.rReject = [("le", 0), ("gt", 1)] ∧ Gen.PdTable.rRangeErr = .ValueError ∧
      Gen.PdTable.tTypes = ["int", "float"] ∧ Gen.PdTable.tTypeErr = .TypeError ∧
      Gen.PdTable.tReject = [("lt", 0)] ∧ Gen.PdTable.tRangeErr = .ValueError ∧
      Gen.PdTable.rLoadTypes = ["int", "float"] ∧ Gen.PdTable.rLoadTypeErr = .TypeError ∧
      Gen.PdTable.rLoadReject = [("lt", 0)] ∧ Gen.PdTable.rLoadRangeErr = .ValueError ∧
      Gen.PdTable.selTypes = ["str"] ∧ Gen.PdTable.selTypeErr = .TypeError := by
  refine ⟨rfl, rfl, rfl, rfl, ?_, rfl, rfl, rfl, ?_, rfl, rfl, rfl, ?_, rfl, rfl, rfl⟩ <;> decide +kernel

/-- documented defaults: `r = 1.0`, `T = 300`, `R_load = 50`, `include_noise = 'all'`, `i_dark = 10 nA`, `Fn = 0 dB` -/
theorem defaults_documented :
    Gen.PdTable.rDefault = 1 ∧ Gen.PdTable.tDefault = 300 ∧ Gen.PdTable.rLoadDefault = 50 ∧
      Gen.PdTable.iDarkDefault = 1 / 100000000 ∧ Gen.PdTable.fnDefault = 0 ∧ Gen.PdTable.selDefault = "all" := by
  refine ⟨?_, ?_, ?_, ?_, ?_, rfl⟩ <;> decide +kernel

/-! ### the documented noise powers are the values handed to the RNG -/

/-- thermal variance in A²: `σ²_th = 4·kB·T·Fn·B / R_load` with `B = fs/2`, `Fn = 10^(Fn_dB/10)` -/
theorem sigma_th (kB T fs FndB Rl : ℝ) :
    sigma2T kB T fs FndB Rl = 4 * kB * T * (10 : ℝ) ^ (FndB / 10) * (fs / 2) / Rl := by
  simp only [sigma2T, Gen.PdTable.sT, idb_real]
  push_cast
  ring

/-- shot variance in A²: `σ²_sh = 2·e·(r·(P̄_sig + P̄_noise) + i_dark)·B` with `B = fs/2`, `P̄` the mean over the record of
    `|·x|² + |·y|²` of the signal / of the optical-noise component (0 when the input carries none) -/
theorem sigma_sh (e r iDark fs : ℝ) (n : ℕ) (x : Pd.Field (Cx ℝ)) (hx : FieldOK n x) :
    sigma2N e r iDark fs x =
      2 * e * (r * (mean (powerRow x.sig) + (match x.noise with | none => 0 | some nz => mean (powerRow nz))) + iDark) * (fs / 2) := by
  simp only [sigma2N, Gen.PdTable.sN, iSig_eq, mean_map_mul]
  cases hn : x.noise with
  | none =>
    simp only [iAse, ofRat_real, triggers_documented.2.2.2.2.2.2]
    push_cast
    ring
  | some nz =>
    simp only [iAse, Gen.PdTable.iAse, noisePowerSum_eq nz (shaped_of_sameShape (hx.2 nz hn))]
    push_cast
    ring

/-- the noise figure never reduces the thermal power: `Fn ≥ 0 dB ⇒ σ²_th ≥ 4·kB·T·B/R_load` -/
theorem sigma_th_ge (kB T fs FndB Rl : ℝ) (hk : 0 ≤ kB) (hT : 0 ≤ T) (hfs : 0 ≤ fs) (hR : 0 < Rl) (hF : 0 ≤ FndB) :
    4 * kB * T * (fs / 2) / Rl ≤ sigma2T kB T fs FndB Rl := by
  rw [sigma_th]
  have h1 : (1 : ℝ) ≤ (10 : ℝ) ^ (FndB / 10) := by
    have := one_le_idb hF
    rwa [idb_real] at this
  have h0 : 0 ≤ 4 * kB * T * (fs / 2) := by positivity
  apply div_le_div_of_nonneg_right _ hR.le
  nlinarith

/-! ### the signal part: square law, determinism, unit DC gain -/

/-- **square law / deterministic signal part.**  Whenever `PD` returns (any option, any draws, any `T`, `i_dark`, `Fn`), the
    signal part handed to the filter is `R_load·r·(|Ex|²+|Ey|²)` sample by sample — no dependence on the random draws -/
theorem pd_square_law (kB e fs r T Rl iDark Fn : ℝ) (sel : List Char) (dT dN : List ℝ) (x : Pd.Field (Cx ℝ)) (p : Pre ℝ)
    (h : (pdBody kB e fs r T Rl iDark Fn sel dT dN x).out = .ok p) :
    p.sig = (powerRow x.sig).map fun P => r * P * Rl := by
  rw [pdCore_sig _ _ _ _ _ _ _ _ _ _ _ _ _ _ _ p h, iSig_eq, List.map_map]
  rfl

/-- the signal part of two runs with different draws (and different noise settings) is the same -/
theorem signal_deterministic (kB e fs r T T' Rl iDark iDark' Fn Fn' : ℝ) (sel sel' : List Char) (dT dN dT' dN' : List ℝ)
    (x : Pd.Field (Cx ℝ)) (p p' : Pre ℝ)
    (h : (pdBody kB e fs r T Rl iDark Fn sel dT dN x).out = .ok p)
    (h' : (pdBody kB e fs r T' Rl iDark' Fn' sel' dT' dN' x).out = .ok p') : p'.sig = p.sig := by
  rw [pd_square_law _ _ _ _ _ _ _ _ _ _ _ _ _ h, pd_square_law _ _ _ _ _ _ _ _ _ _ _ _ _ h']

/-- what C11 proves about the output filter and this property uses -/
def DCPreserving (F : List ℝ → List ℝ) : Prop := ∀ (n : ℕ) (c : ℝ), F (List.replicate n c) = List.replicate n c
def LengthPreserving (F : List ℝ → List ℝ) : Prop := ∀ xs, (F xs).length = xs.length

/-- **CW input.**  A field of constant power `P` (`|Ex|²+|Ey|² = P` at every sample, any phases, any split between the
    polarisations) gives the constant voltage `r·P·R_load` before the filter, and after any DC-preserving filter -/
theorem pd_cw (kB e fs r T Rl iDark Fn : ℝ) (sel : List Char) (dT dN : List ℝ) (x : Pd.Field (Cx ℝ)) (p : Pre ℝ) (P : ℝ) (n : ℕ)
    (h : (pdBody kB e fs r T Rl iDark Fn sel dT dN x).out = .ok p) (hcw : powerRow x.sig = List.replicate n P) :
    p.sig = List.replicate n (r * P * Rl) ∧
      ∀ F, DCPreserving F → (pdOut F p).sig = List.replicate n (r * P * Rl) := by
  have hs : p.sig = List.replicate n (r * P * Rl) := by
    rw [pd_square_law _ _ _ _ _ _ _ _ _ _ _ _ _ h, hcw, List.map_replicate]
  refine ⟨hs, fun F hF => ?_⟩
  simp only [pdOut, hs]
  exact hF n _

/-- non-vacuity: a two-polarisation CW field of power 4 = 1² + (√3)² with different phases in the two polarisations -/
example : powerRow (.two [⟨1, 0⟩, ⟨0, 1⟩] [⟨0, Real.sqrt 3⟩, ⟨Real.sqrt 3, 0⟩]) = List.replicate 2 4 := by
  simp [powerRow, Cx.normSq]
  norm_num

/-- **linearity in r and R_load**: scaling the responsivity by `a` and the load by `b` scales the signal part by `a·b` -/
theorem pd_linear_r_R (kB e fs r T Rl iDark Fn a b : ℝ) (sel sel' : List Char) (dT dN dT' dN' : List ℝ)
    (x : Pd.Field (Cx ℝ)) (p p' : Pre ℝ)
    (h : (pdBody kB e fs r T Rl iDark Fn sel dT dN x).out = .ok p)
    (h' : (pdBody kB e fs (a * r) T (b * Rl) iDark Fn sel' dT' dN' x).out = .ok p') :
    p'.sig = p.sig.map (a * b * ·) := by
  rw [pd_square_law _ _ _ _ _ _ _ _ _ _ _ _ _ h, pd_square_law _ _ _ _ _ _ _ _ _ _ _ _ _ h', List.map_map]
  apply List.map_congr_left
  intro P _
  simp only [Function.comp]
  ring

/-- **quadratic in the field amplitude**: multiplying the field by a complex constant `c` multiplies the signal part by `|c|²` -/
theorem pd_quadratic (kB e fs r T Rl iDark Fn : ℝ) (c : Cx ℝ) (sel sel' : List Char) (dT dN dT' dN' : List ℝ)
    (x x' : Pd.Field (Cx ℝ)) (p p' : Pre ℝ) (hx' : x'.sig = scaleRows c x.sig)
    (h : (pdBody kB e fs r T Rl iDark Fn sel dT dN x).out = .ok p)
    (h' : (pdBody kB e fs r T Rl iDark Fn sel' dT' dN' x').out = .ok p') :
    p'.sig = p.sig.map (c.normSq * ·) := by
  rw [pd_square_law _ _ _ _ _ _ _ _ _ _ _ _ _ h, pd_square_law _ _ _ _ _ _ _ _ _ _ _ _ _ h', hx', powerRow_scale,
    List.map_map, List.map_map]
  apply List.map_congr_left
  intro P _
  simp only [Function.comp]
  ring

/-! ### invariances: the WHOLE result (RNG requests, signal part, noise part) is unchanged -/

/-- **phase invariance**: independent, sample-by-sample phase rotations `e^{jφx(k)}`, `e^{jφy(k)}` of the two polarisations of
    the total field (signal and noise component alike) change nothing, for every option and every draw -/
theorem pd_phase_inv (kB e fs r T Rl iDark Fn : ℝ) (sel : List Char) (dT dN : List ℝ) (φx φy : ℕ → ℝ) (x : Pd.Field (Cx ℝ)) :
    pdBody kB e fs r T Rl iDark Fn sel dT dN (rotField φx φy x) = pdBody kB e fs r T Rl iDark Fn sel dT dN x := by
  obtain ⟨h1, h2, h3, h4, h5⟩ := obs_rot r φx φy x
  simp only [pdBody, h1, h2, h3, h4, h5]

/-- **unitary invariance**: any sample-by-sample unitary mixing `[[a,b],[-b̄,ā]]`, `|a|²+|b|²=1`, of the polarisation state
    of the total field changes nothing (a general U(2) element is this times a phase rotation: `pd_phase_inv`) -/
theorem pd_unitary_inv (kB e fs r T Rl iDark Fn : ℝ) (sel : List Char) (dT dN : List ℝ) (a b : ℕ → Cx ℝ)
    (hab : ∀ k, (a k).normSq + (b k).normSq = 1) (n : ℕ) (x : Pd.Field (Cx ℝ)) (hx : FieldOK n x) :
    pdBody kB e fs r T Rl iDark Fn sel dT dN (mixField a b x) = pdBody kB e fs r T Rl iDark Fn sel dT dN x := by
  obtain ⟨h1, h2, h3, h4, h5⟩ := obs_mix r a b hab x hx
  simp only [pdBody, h1, h2, h3, h4, h5]

/-- non-vacuity: a polarisation rotation by 30° combined with a 90° retardation is of the required form -/
example : ∃ a b : Cx ℝ, a.normSq + b.normSq = 1 ∧ a.im ≠ 0 ∧ b.re ≠ 0 :=
  ⟨⟨0, 1 / 2⟩, ⟨Real.sqrt 3 / 2, 0⟩, by
    simp only [Cx.normSq]
    have := Real.mul_self_sqrt (show (0 : ℝ) ≤ 3 by norm_num)
    nlinarith, by norm_num, by positivity⟩

/-! ### the noise part: selection table -/

/-- documented content of the seven options: (name, signal–noise beating, noise–noise beating, thermal, shot);
    the dark-current offset is always present -/
def documented : List (String × Bool × Bool × Bool × Bool) :=
  [("ase-only", true, true, false, false), ("thermal-only", false, false, true, false),
   ("shot-only", false, false, false, true), ("ase-thermal", true, true, true, false),
   ("ase-shot", true, true, false, true), ("thermal-shot", false, false, true, true), ("all", true, true, true, true)]

/-- a term or, when it is not selected, zeros -/
def pick (n : ℕ) (b : Bool) (l : List ℝ) : List ℝ := if b then l else List.replicate n 0

/-- the noise current in A made of exactly the selected terms plus the dark current -/
def specNoise (n : ℕ) (sn nn th sh : Bool) (SN NN dT dN : List ℝ) (iDark : ℝ) : List ℝ :=
  zipAdd (zipAdd (zipAdd (zipAdd (pick n sn SN) (pick n nn NN)) (pick n th dT)) (pick n sh dN)) (List.replicate n iDark)

/-- **selection table**, any letter case: for each of the seven options (whatever mixture of upper and lower case it is
    written in), `PD` asks the RNG for exactly the selected draws — thermal `N(0, σ_th)` then shot `N(0, σ_sh)`, `n` samples
    each, with the standard deviations of `sigma_th` / `sigma_sh` — and hands to the filter the voltage
    `R_load·(selected beating terms + selected draws + i_dark)` as noise part and `R_load·r·|E|²` as signal part -/
theorem selection_table (kB e fs r T Rl iDark Fn : ℝ) (sel : List Char) (dT dN : List ℝ) (n : ℕ) (x : Pd.Field (Cx ℝ))
    (name : String) (sn nn th sh : Bool) (hrow : (name, sn, nn, th, sh) ∈ documented) (hsel : lower sel = name.toList)
    (hx : FieldOK n x) (hn : n ≠ 0) (hRl : 0 < Rl) (hT : th = true → dT.length = n) (hN : sh = true → dN.length = n) :
    pdBody kB e fs r T Rl iDark Fn sel dT dN x =
      ⟨(if th then [⟨0, Real.sqrt (sigma2T kB T fs Fn Rl), n⟩] else []) ++
         (if sh then [⟨0, Real.sqrt (sigma2N e r iDark fs x), n⟩] else []),
       .ok ⟨(powerRow x.sig).map (fun P => r * P * Rl),
            (specNoise n sn nn th sh (beatSN r x) (beatNN r x) dT dN iDark).map (· * Rl)⟩⟩ := by
  have hl := hx.len
  have hSN := length_beatSN r n x hx
  have hNN := length_beatNN r n x hx
  have hsig : (iSig r x.sig).map (· * Rl) = (powerRow x.sig).map (fun P => r * P * Rl) := by
    rw [iSig_eq, List.map_map]; rfl
  have hz : ∀ l : List ℝ, l.length = n → zipAdd l (List.replicate n 0) = l := fun l h => zipAdd_zeros_right n l h
  have hz' : ∀ l : List ℝ, l.length = n → zipAdd (List.replicate n 0) l = l := fun l h => zipAdd_zeros_left n l h
  have hzz : zipAdd (List.replicate n (0:ℝ)) (List.replicate n 0) = List.replicate n 0 := hz _ (by simp)
  have hlen2 : ∀ a b : List ℝ, a.length = n → b.length = n → (zipAdd a b).length = n := by
    intro a b ha hb; simp [length_zipAdd, ha, hb]
  simp only [documented, List.mem_cons, Prod.mk.injEq, List.not_mem_nil, or_false] at hrow
  unfold pdBody
  rw [hl, snOf_eq, nnOf_eq]
  rcases hrow with ⟨rfl, rfl, rfl, rfl, rfl⟩ | ⟨rfl, rfl, rfl, rfl, rfl⟩ | ⟨rfl, rfl, rfl, rfl, rfl⟩ |
    ⟨rfl, rfl, rfl, rfl, rfl⟩ | ⟨rfl, rfl, rfl, rfl, rfl⟩ | ⟨rfl, rfl, rfl, rfl, rfl⟩ | ⟨rfl, rfl, rfl, rfl, rfl⟩
  · rw [pdCore_eval _ _ _ _ _ _ _ _ _ _ _ _ _ _ _ _ _ _ _ (hsel ▸ decode_ase_only) hn hRl (by simp) (by simp)]
    simp [sumTerms, Terms.get, specNoise, pick, hsig, hz, hlen2, hSN, hNN]
  · have hT' := hT rfl
    rw [pdCore_eval _ _ _ _ _ _ _ _ _ _ _ _ _ _ _ _ _ _ _ (hsel ▸ decode_thermal_only) hn hRl hT (by simp)]
    simp [sumTerms, Terms.get, specNoise, pick, hsig, hz, hz', hzz, hlen2, hT', reqT]
  · have hN' := hN rfl
    rw [pdCore_eval _ _ _ _ _ _ _ _ _ _ _ _ _ _ _ _ _ _ _ (hsel ▸ decode_shot_only) hn hRl (by simp) hN]
    simp [sumTerms, Terms.get, specNoise, pick, hsig, hz, hz', hzz, hlen2, hN', reqN, sigma2N]
  · have hT' := hT rfl
    rw [pdCore_eval _ _ _ _ _ _ _ _ _ _ _ _ _ _ _ _ _ _ _ (hsel ▸ decode_ase_thermal) hn hRl hT (by simp)]
    simp [sumTerms, Terms.get, specNoise, pick, hsig, hz _ (hlen2 _ _ (hlen2 _ _ hSN hNN) hT'), reqT]
  · have hN' := hN rfl
    rw [pdCore_eval _ _ _ _ _ _ _ _ _ _ _ _ _ _ _ _ _ _ _ (hsel ▸ decode_ase_shot) hn hRl (by simp) hN]
    simp [sumTerms, Terms.get, specNoise, pick, hsig, hz, hlen2, hSN, hNN, hN', reqN, sigma2N]
  · have hT' := hT rfl
    have hN' := hN rfl
    rw [pdCore_eval _ _ _ _ _ _ _ _ _ _ _ _ _ _ _ _ _ _ _ (hsel ▸ decode_thermal_shot) hn hRl hT hN]
    simp [sumTerms, Terms.get, specNoise, pick, hsig, hz, hz', hzz, hlen2, hT', hN', reqT, reqN, sigma2N]
  · have hT' := hT rfl
    have hN' := hN rfl
    rw [pdCore_eval _ _ _ _ _ _ _ _ _ _ _ _ _ _ _ _ _ _ _ (hsel ▸ decode_all) hn hRl hT hN]
    have hcomm : zipAdd (zipAdd (zipAdd (beatSN r x) (beatNN r x)) dN) dT =
        zipAdd (zipAdd (zipAdd (beatSN r x) (beatNN r x)) dT) dN := by
      rw [zipAdd_assoc, zipAdd_comm dN dT, ← zipAdd_assoc]
    simp [sumTerms, Terms.get, specNoise, pick, hsig, hcomm, reqT, reqN, sigma2N]

/-- non-vacuity / letter case: these spellings all select the documented rows -/
example : lower "ALL".toList = "all".toList ∧ lower "Ase-Only".toList = "ase-only".toList ∧
    lower "tHeRmAl-ShOt".toList = "thermal-shot".toList := by decide +kernel

/-- every option different (after lower-casing) from the seven documented ones is a `ValueError` -/
theorem unknown_option (kB e fs r T Rl iDark Fn : ℝ) (sel : List Char) (dT dN : List ℝ) (x : Pd.Field (Cx ℝ))
    (hsel : ∀ row ∈ documented, lower sel ≠ row.1.toList) (hn : x.sig.len ≠ 0) (hRl : 0 < Rl)
    (hT : dT.length = x.sig.len) (hN : dN.length = x.sig.len) :
    (pdBody kB e fs r T Rl iDark Fn sel dT dN x).out = .error .ValueError := by
  apply pdCore_unknown _ _ _ _ _ _ _ _ _ _ _ _ _ _ _ _ hn (fun _ => hRl) (fun _ => hT) (fun _ => hN)
  have key : ∀ tbl : List (String × List String), (∀ kv ∈ tbl, lower sel ≠ kv.1.toList) → lookup (lower sel) tbl = none := by
    intro tbl
    induction tbl with
    | nil => intro _; rfl
    | cons kv rest ih =>
      intro h
      obtain ⟨k, v⟩ := kv
      have h1 : lower sel ≠ k.toList := h (k, v) (by simp)
      simp only [lookup, h1, if_false]
      exact ih fun kv' hkv' => h kv' (List.mem_cons_of_mem _ hkv')
  have hnames : ∀ kv ∈ Gen.PdTable.ladder, ∃ row ∈ documented, row.1 = kv.1 := by decide
  show lookup (lower sel) Gen.PdTable.ladder = none
  apply key
  intro kv hkv
  obtain ⟨row, hrow, heq⟩ := hnames kv hkv
  rw [← heq]
  exact hsel row hrow

example : ∀ row ∈ documented, lower "thermal".toList ≠ row.1.toList := by decide +kernel

/-! ### validation table (order of the checks: input, r, T, R_load, include_noise) -/

theorem invalid_input (kB e fs : ℝ) (r T Rl : PyVal ℝ) (sel : Option (List Char)) (iDark Fn : ℝ) (dT dN : List ℝ) :
    pd kB e fs r T Rl sel iDark Fn dT dN .other = ⟨[], .error .TypeError⟩ := rfl

/-- `r` not an `int`/`float` ⇒ `TypeError`; `r ≤ 0` or `r > 1` ⇒ `ValueError` — before anything else is looked at and
    without any RNG request -/
theorem invalid_r (kB e fs : ℝ) (r T Rl : PyVal ℝ) (sel : Option (List Char)) (iDark Fn : ℝ) (dT dN : List ℝ)
    (x : Pd.Field (Cx ℝ)) :
    (r.isInstance ["int", "float"] = false → pd kB e fs r T Rl sel iDark Fn dT dN (.optical x) = ⟨[], .error .TypeError⟩) ∧
      (∀ v, r.isInstance ["int", "float"] = true → r.val = some v → (v ≤ 0 ∨ 1 < v) →
        pd kB e fs r T Rl sel iDark Fn dT dN (.optical x) = ⟨[], .error .ValueError⟩) := by
  constructor
  · intro h
    simp only [pd, checkNum_type Gen.PdTable.rTypes _ _ _ r h]; rfl
  · intro v h hv hr
    have : rejects Gen.PdTable.rReject v = some true := by rw [rejects_r]; simpa using hr
    simp only [pd, checkNum_range Gen.PdTable.rTypes _ _ _ r v h hv this]; rfl

/-- with a valid `r`: `T` not an `int`/`float` ⇒ `TypeError`; `T < 0` ⇒ `ValueError` -/
theorem invalid_T (kB e fs : ℝ) (r T Rl : PyVal ℝ) (sel : Option (List Char)) (iDark Fn : ℝ) (dT dN : List ℝ)
    (x : Pd.Field (Cx ℝ)) (rv : ℝ) (hr : r.isInstance ["int", "float"] = true) (hrv : r.val = some rv) (hr0 : 0 < rv) (hr1 : rv ≤ 1) :
    (T.isInstance ["int", "float"] = false → pd kB e fs r T Rl sel iDark Fn dT dN (.optical x) = ⟨[], .error .TypeError⟩) ∧
      (∀ v, T.isInstance ["int", "float"] = true → T.val = some v → v < 0 →
        pd kB e fs r T Rl sel iDark Fn dT dN (.optical x) = ⟨[], .error .ValueError⟩) := by
  have hrok : rejects Gen.PdTable.rReject rv = some false := by
    rw [rejects_r]; simp [not_le.mpr hr0, not_lt.mpr hr1]
  have h1 := checkNum_ok Gen.PdTable.rTypes Gen.PdTable.rTypeErr Gen.PdTable.rRangeErr _ r rv hr hrv hrok
  constructor
  · intro h
    simp only [pd, h1, checkNum_type Gen.PdTable.tTypes _ _ _ T h]; rfl
  · intro v h hv hneg
    have : rejects Gen.PdTable.tReject v = some true := by rw [rejects_t]; simpa using hneg
    simp only [pd, h1, checkNum_range Gen.PdTable.tTypes _ _ _ T v h hv this]; rfl

/-- with valid `r`, `T`: `R_load` not an `int`/`float` ⇒ `TypeError`; `R_load < 0` ⇒ `ValueError`; then a non-string
    `include_noise` ⇒ `TypeError`; otherwise the body runs on the validated numbers -/
theorem invalid_Rl_sel_or_body (kB e fs : ℝ) (r T Rl : PyVal ℝ) (sel : Option (List Char)) (iDark Fn : ℝ) (dT dN : List ℝ)
    (x : Pd.Field (Cx ℝ)) (rv tv : ℝ) (hr : r.isInstance ["int", "float"] = true) (hrv : r.val = some rv) (hr0 : 0 < rv)
    (hr1 : rv ≤ 1) (ht : T.isInstance ["int", "float"] = true) (htv : T.val = some tv) (ht0 : 0 ≤ tv) :
    (Rl.isInstance ["int", "float"] = false → pd kB e fs r T Rl sel iDark Fn dT dN (.optical x) = ⟨[], .error .TypeError⟩) ∧
      (∀ v, Rl.isInstance ["int", "float"] = true → Rl.val = some v → v < 0 →
        pd kB e fs r T Rl sel iDark Fn dT dN (.optical x) = ⟨[], .error .ValueError⟩) ∧
      (∀ v, Rl.isInstance ["int", "float"] = true → Rl.val = some v → 0 ≤ v → sel = none →
        pd kB e fs r T Rl sel iDark Fn dT dN (.optical x) = ⟨[], .error .TypeError⟩) ∧
      (∀ v s, Rl.isInstance ["int", "float"] = true → Rl.val = some v → 0 ≤ v → sel = some s →
        pd kB e fs r T Rl sel iDark Fn dT dN (.optical x) = pdBody kB e fs rv tv v iDark Fn s dT dN x) := by
  have hrok : rejects Gen.PdTable.rReject rv = some false := by
    rw [rejects_r]; simp [not_le.mpr hr0, not_lt.mpr hr1]
  have h1 := checkNum_ok Gen.PdTable.rTypes Gen.PdTable.rTypeErr Gen.PdTable.rRangeErr _ r rv hr hrv hrok
  have htok : rejects Gen.PdTable.tReject tv = some false := by
    rw [rejects_t]; simp [not_lt.mpr ht0]
  have h2 := checkNum_ok Gen.PdTable.tTypes Gen.PdTable.tTypeErr Gen.PdTable.tRangeErr _ T tv ht htv htok
  refine ⟨?_, ?_, ?_, ?_⟩
  · intro h
    simp only [pd, h1, h2, checkNum_type Gen.PdTable.rLoadTypes _ _ _ Rl h]; rfl
  · intro v h hv hneg
    have : rejects Gen.PdTable.rLoadReject v = some true := by rw [rejects_rl]; simpa using hneg
    simp only [pd, h1, h2, checkNum_range Gen.PdTable.rLoadTypes _ _ _ Rl v h hv this]; rfl
  · intro v h hv h0 hs
    have : rejects Gen.PdTable.rLoadReject v = some false := by rw [rejects_rl]; simp [not_lt.mpr h0]
    simp only [pd, h1, h2, checkNum_ok Gen.PdTable.rLoadTypes Gen.PdTable.rLoadTypeErr Gen.PdTable.rLoadRangeErr _ Rl v h hv this, hs]
    rfl
  · intro v s h hv h0 hs
    have : rejects Gen.PdTable.rLoadReject v = some false := by rw [rejects_rl]; simp [not_lt.mpr h0]
    simp only [pd, h1, h2, checkNum_ok Gen.PdTable.rLoadTypes Gen.PdTable.rLoadTypeErr Gen.PdTable.rLoadRangeErr _ Rl v h hv this, hs]

/-- non-vacuity: Python `1.0`, `300`, `True` are accepted as numbers, `None` and `'1'` are not -/
example : (⟨["float", "object"], some (1 : ℝ)⟩ : PyVal ℝ).isInstance ["int", "float"] = true ∧
    (⟨["bool", "int", "object"], some (1 : ℝ)⟩ : PyVal ℝ).isInstance ["int", "float"] = true ∧
    (⟨["NoneType", "object"], none⟩ : PyVal ℝ).isInstance ["int", "float"] = false ∧
    (⟨["str", "object"], none⟩ : PyVal ℝ).isInstance ["int", "float"] = false := by decide

/-! ### output length -/

/-- for each documented option the signal part and the noise part handed to the filter have the input's length, and so has the
    output of `PD` for any length-preserving filter -/
theorem output_length (kB e fs r T Rl iDark Fn : ℝ) (sel : List Char) (dT dN : List ℝ) (n : ℕ) (x : Pd.Field (Cx ℝ))
    (name : String) (sn nn th sh : Bool) (hrow : (name, sn, nn, th, sh) ∈ documented) (hsel : lower sel = name.toList)
    (hx : FieldOK n x) (hn : n ≠ 0) (hRl : 0 < Rl) (hT : dT.length = n) (hN : dN.length = n) :
    ∃ p, (pdBody kB e fs r T Rl iDark Fn sel dT dN x).out = .ok p ∧ p.sig.length = n ∧ p.noise.length = n ∧
      ∀ F, LengthPreserving F → (pdOut F p).sig.length = n ∧ (pdOut F p).noise.length = n := by
  rw [selection_table kB e fs r T Rl iDark Fn sel dT dN n x name sn nn th sh hrow hsel hx hn hRl (fun _ => hT) (fun _ => hN)]
  refine ⟨_, rfl, ?_, ?_, ?_⟩
  · simp [length_powerRow hx.1]
  · have : ∀ b l, l.length = n → (pick n b l).length = n := by
      intro b l hl; cases b <;> simp [pick, hl]
    simp [specNoise, length_zipAdd, this, length_beatSN r n x hx, length_beatNN r n x hx, hT, hN]
  · intro F hF
    have : ∀ b l, l.length = n → (pick n b l).length = n := by
      intro b l hl; cases b <;> simp [pick, hl]
    simp [pdOut, hF _, length_powerRow hx.1, specNoise, length_zipAdd, this, length_beatSN r n x hx,
      length_beatNN r n x hx, hT, hN]


/-! ### end to end: PD's actual output filter (C11's model of scipy's forward–backward Bessel filter) -/

open OptiVerif.PdFull OptiVerif.Filter in
/-- `PD` = C11's `LPF` after the pre-filter model: the RNG requests are those of the pre-filter part, an exception of the
    pre-filter part is the exception of `PD`, otherwise the filter runs on what was handed to it -/
theorem pd_full_is_composition (secs : List (Sec ℝ)) (edge : ℕ) (kB e fs : ℝ) (r T Rl : PyVal ℝ) (sel : Option (List Char))
    (iDark Fn : ℝ) (dT dN : List ℝ) (inp : Input (Cx ℝ)) :
    (pdFull secs edge kB e fs r T Rl sel iDark Fn dT dN inp).reqs = (pd kB e fs r T Rl sel iDark Fn dT dN inp).reqs ∧
      (∀ err, (pd kB e fs r T Rl sel iDark Fn dT dN inp).out = .error err →
        (pdFull secs edge kB e fs r T Rl sel iDark Fn dT dN inp).out = .error err) ∧
      (∀ p, (pd kB e fs r T Rl sel iDark Fn dT dN inp).out = .ok p →
        (pdFull secs edge kB e fs r T Rl sel iDark Fn dT dN inp).out = lpfPre secs edge p) := by
  refine ⟨rfl, ?_, ?_⟩
  · intro err h; simp only [pdFull, h]
  · intro p h; simp only [pdFull, h]

open OptiVerif.PdFull OptiVerif.Filter in
/-- **same operator, length**: on a record longer than the pad length the noise part is filtered by exactly the operator that
    filters the signal part (`filtCore secs edge`, whatever the sections), and both keep the input's length -/
theorem pd_filtered_length (secs : List (Sec ℝ)) (edge : ℕ) (p : Pre ℝ) (n : ℕ) (hs : p.sig.length = n) (hn : p.noise.length = n)
    (he : edge < n) :
    ∃ q, lpfPre secs edge p = .ok q ∧ q.sig = filtCore secs edge p.sig ∧ q.noise = filtCore secs edge p.noise ∧
      q.sig.length = n ∧ q.noise.length = n := by
  refine ⟨_, lpfPre_eq secs edge p (hs ▸ he) (hn ▸ he), rfl, rfl, ?_, ?_⟩
  · simp [length_filtCore secs edge p.sig (hs ▸ he), hs]
  · simp [length_filtCore secs edge p.noise (hn ▸ he), hn]

open OptiVerif.PdFull OptiVerif.Filter in
/-- **pd_cw_filtered**: a CW field of power `P` gives, AFTER PD's actual forward–backward filter, the constant `r·P·R_load` at
    every sample — for any sections satisfying the hypotheses of C11's `dc_gain` (`sosfilt_zi` steady state, ΠΣb/Σa = 1;
    evaluated by the harness on the coefficients scipy used) and a record longer than the pad length -/
theorem pd_cw_filtered (secs : List (Sec ℝ)) (edge : ℕ) (hz : SteadyState secs 1) (hg : gainProd secs = 1)
    (kB e fs r T Rl iDark Fn : ℝ) (sel : List Char) (dT dN : List ℝ) (x : Pd.Field (Cx ℝ)) (p : Pre ℝ) (P : ℝ) (n : ℕ)
    (h : (pdBody kB e fs r T Rl iDark Fn sel dT dN x).out = .ok p) (hcw : powerRow x.sig = List.replicate n P)
    (hnl : p.noise.length = n) (he : edge < n) :
    ∃ q, lpfPre secs edge p = .ok q ∧ q.sig = List.replicate n (r * P * Rl) := by
  have hs := (pd_cw kB e fs r T Rl iDark Fn sel dT dN x p P n h hcw).1
  have hsl : p.sig.length = n := by rw [hs]; simp
  obtain ⟨q, hq, hqs, _, _, _⟩ := pd_filtered_length secs edge p n hsl hnl he
  refine ⟨q, hq, ?_⟩
  rw [hqs, hs]
  have hc := steadyChain_of_steadyState secs 1 hz
  rw [hg, one_mul] at hc
  exact filtCore_const secs hc edge n _ he

open OptiVerif.PdFull OptiVerif.Filter in
/-- **pd_filtered_linear_r_R**: after the filter, too, the signal part is linear in `r` and in `R_load` -/
theorem pd_filtered_linear_r_R (secs : List (Sec ℝ)) (edge : ℕ) (kB e fs r T Rl iDark Fn a b : ℝ) (sel sel' : List Char)
    (dT dN dT' dN' : List ℝ) (x : Pd.Field (Cx ℝ)) (p p' q q' : Pre ℝ)
    (h : (pdBody kB e fs r T Rl iDark Fn sel dT dN x).out = .ok p)
    (h' : (pdBody kB e fs (a * r) T (b * Rl) iDark Fn sel' dT' dN' x).out = .ok p')
    (hq : lpfPre secs edge p = .ok q) (hq' : lpfPre secs edge p' = .ok q')
    (he : edge < p.sig.length) (hn : edge < p.noise.length) (hn' : edge < p'.noise.length) :
    q'.sig = q.sig.map (a * b * ·) := by
  have hp := pd_linear_r_R kB e fs r T Rl iDark Fn a b sel sel' dT dN dT' dN' x p p' h h'
  have hl : p'.sig.length = p.sig.length := by rw [hp]; simp
  rw [lpfPre_eq secs edge p he hn] at hq
  rw [lpfPre_eq secs edge p' (hl ▸ he) hn'] at hq'
  obtain rfl := Except.ok.inj hq
  obtain rfl := Except.ok.inj hq'
  simp only [hp, filtCore_map_mul]

open OptiVerif.PdFull OptiVerif.Filter in
/-- **pd_filtered_quadratic**: after the filter, too, the signal part scales with `|c|²` when the field is multiplied by `c` -/
theorem pd_filtered_quadratic (secs : List (Sec ℝ)) (edge : ℕ) (kB e fs r T Rl iDark Fn : ℝ) (c : Cx ℝ) (sel sel' : List Char)
    (dT dN dT' dN' : List ℝ) (x x' : Pd.Field (Cx ℝ)) (p p' q q' : Pre ℝ) (hx' : x'.sig = scaleRows c x.sig)
    (h : (pdBody kB e fs r T Rl iDark Fn sel dT dN x).out = .ok p)
    (h' : (pdBody kB e fs r T Rl iDark Fn sel' dT' dN' x').out = .ok p')
    (hq : lpfPre secs edge p = .ok q) (hq' : lpfPre secs edge p' = .ok q')
    (he : edge < p.sig.length) (hn : edge < p.noise.length) (hn' : edge < p'.noise.length) :
    q'.sig = q.sig.map (c.normSq * ·) := by
  have hp := pd_quadratic kB e fs r T Rl iDark Fn c sel sel' dT dN dT' dN' x x' p p' hx' h h'
  have hl : p'.sig.length = p.sig.length := by rw [hp]; simp
  rw [lpfPre_eq secs edge p he hn] at hq
  rw [lpfPre_eq secs edge p' (hl ▸ he) hn'] at hq'
  obtain rfl := Except.ok.inj hq
  obtain rfl := Except.ok.inj hq'
  simp only [hp, filtCore_map_mul]

open OptiVerif.PdFull OptiVerif.Filter in
/-- **selected noise terms add linearly after the filter**: for each documented option the noise part of PD's output is the sum
    of the separately filtered selected terms (beating terms and recorded draws, in volts) plus the dark-current offset
    `i_dark·R_load`, which the filter passes unchanged (DC gain 1) -/
theorem pd_filtered_noise_terms (secs : List (Sec ℝ)) (edge : ℕ) (hz : SteadyState secs 1) (hg : gainProd secs = 1)
    (kB e fs r T Rl iDark Fn : ℝ) (sel : List Char) (dT dN : List ℝ) (n : ℕ) (x : Pd.Field (Cx ℝ))
    (name : String) (sn nn th sh : Bool) (hrow : (name, sn, nn, th, sh) ∈ documented) (hsel : lower sel = name.toList)
    (hx : FieldOK n x) (hRl : 0 < Rl) (hT : dT.length = n) (hN : dN.length = n) (he : edge < n) :
    ∃ p q, (pdBody kB e fs r T Rl iDark Fn sel dT dN x).out = .ok p ∧ lpfPre secs edge p = .ok q ∧
      q.noise =
        zipAdd (zipAdd (zipAdd (zipAdd
          (filtCore secs edge ((pick n sn (beatSN r x)).map (· * Rl)))
          (filtCore secs edge ((pick n nn (beatNN r x)).map (· * Rl))))
          (filtCore secs edge ((pick n th dT).map (· * Rl))))
          (filtCore secs edge ((pick n sh dN).map (· * Rl))))
          (List.replicate n (iDark * Rl)) := by
  have hn0 : n ≠ 0 := by omega
  have hsel' := selection_table kB e fs r T Rl iDark Fn sel dT dN n x name sn nn th sh hrow hsel hx hn0 hRl
    (fun _ => hT) (fun _ => hN)
  have hpk : ∀ b l, l.length = n → (pick n b l).length = n := by
    intro b l hl; cases b <;> simp [pick, hl]
  have lSN := hpk sn _ (length_beatSN r n x hx)
  have lNN := hpk nn _ (length_beatNN r n x hx)
  have lT := hpk th _ hT
  have lN := hpk sh _ hN
  have hc := steadyChain_of_steadyState secs 1 hz
  rw [hg, one_mul] at hc
  refine ⟨_, _, by rw [hsel'], lpfPre_eq secs edge _ ?_ ?_, ?_⟩
  · simp [length_powerRow hx.1, he]
  · simp [specNoise, length_zipAdd, lSN, lNN, lT, lN, he]
  · simp only [specNoise, map_mul_zipAdd, List.map_replicate]
    have l2 : ∀ a b : List ℝ, a.length = n → b.length = n → (zipAdd a b).length = n := by
      intro a b ha hb; simp [length_zipAdd, ha, hb]
    have lm : ∀ a : List ℝ, a.length = n → (a.map (· * Rl)).length = n := by intro a ha; simp [ha]
    rw [filtCore_zipAdd, filtCore_zipAdd, filtCore_zipAdd, filtCore_zipAdd, filtCore_const secs hc edge n _ he]
    all_goals simp [length_zipAdd, lSN, lNN, lT, lN]

end OptiVerif.Props.C09
