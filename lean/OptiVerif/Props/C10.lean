/-
C10 — EDFA applies gain G to all of its input and adds ASE of the documented power.
Property theorems only (helper lemmas: `Lemmas/Edfa.lean`, `Lemmas/Modulators.lean`).
The objects are the generic definitions of `Model/Edfa.lean` (the ones the driver runs at `Float` against
the real `EDFA` with the spied `np.random.randn(4, N)` draw), read at `R := ℝ`.
All statements hold for all real G_dB, NF_dB, h, f0, fs, every draw, all lengths, both input layouts,
with or without incoming noise (hypotheses are only those the statement itself makes).
-/
import OptiVerif.Lemmas.Edfa
import OptiVerif.Lemmas.ModulatorsFilter
import OptiVerif.Props.C11

set_option linter.unusedVariables false
set_option linter.unnecessarySeqFocus false

namespace OptiVerif.Props.C10
open OptiVerif OptiVerif.Modulators OptiVerif.Edfa OptiVerif.Wire
open OptiVerif.Gen.OptDev (lit pow10 idb idbm mzmLoss mzmEta mzmG laserPhaseSigma laserRinSigma)

/-! ### the formulas found in the source (Gen/OptDev.lean, regenerated from /repo on every run) are the documented ones -/

/-- one `randn(4, N)` draw, rows (0,1) feeding the real parts of (x, y) and rows (2,3) the imaginary parts — the layout the
    model `edfa … d0 d1 d2 d3` assumes; the incoming noise is multiplied by the same gain expression as the signal -/
theorem draw_layout_documented (GdB : ℝ) :
    Gen.OptDev.edfaDrawRows = 4 ∧ Gen.OptDev.edfaPairing = (0, 1, 2, 3) ∧ (gainNoise GdB : ℝ) = gainAmp GdB :=
  ⟨rfl, rfl, rfl⟩

/-! ### gain law for the signal, polarisation bookkeeping -/

/-- the power gain is the documented `G = 10^(G_dB/10)` -/
theorem gain_documented (GdB : ℝ) : (gainAmp GdB : ℝ) * gainAmp GdB = (10 : ℝ) ^ (GdB / 10) := gainAmp_sq GdB

/-- **signal part**: x row = √G · input x row; y row = √G · input y row for a two-polarisation input and identically
    zero for a one-polarisation input — independent of NF, of the draw and of the incoming noise -/
theorem edfa_signal (GdB NFdB h f0 fs : ℝ) (d0 d1 d2 d3 : List ℝ) (x : Modulators.Field (Cx ℝ)) (out : Out (Cx ℝ))
    (he : edfa GdB NFdB h f0 fs d0 d1 d2 d3 (.optical x) = .ok out) :
    out.x = x.sig.x.map (Cx.smul (gainAmp GdB)) ∧
      (∀ a, x.sig = .one a → out.y.length = a.length ∧ ∀ z ∈ out.y, z = czero) ∧
      (∀ a b, x.sig = .two a b → out.y = b.map (Cx.smul (gainAmp GdB))) := by
  obtain ⟨_, hx, hy, _, _⟩ := edfa_ok_inv he
  refine ⟨?_, ?_, ?_⟩
  · rw [hx]; cases x.sig <;> rfl
  · intro a ha
    rw [hy, ha]
    simp [ampRows, zerosLike, scaleRow]
  · intro a b hab
    rw [hy, hab]; rfl

/-- in powers: every present signal sample is amplified by exactly `G = 10^(G_dB/10)` -/
theorem edfa_signal_power (GdB NFdB h f0 fs : ℝ) (d0 d1 d2 d3 : List ℝ) (x : Modulators.Field (Cx ℝ)) (out : Out (Cx ℝ))
    (he : edfa GdB NFdB h f0 fs d0 d1 d2 d3 (.optical x) = .ok out) :
    List.Forall₂ (fun o i : Cx ℝ => o.normSq = (10 : ℝ) ^ (GdB / 10) * i.normSq) out.x x.sig.x ∧
      ∀ a b, x.sig = .two a b →
        List.Forall₂ (fun o i : Cx ℝ => o.normSq = (10 : ℝ) ^ (GdB / 10) * i.normSq) out.y b := by
  obtain ⟨hx, _, hy⟩ := edfa_signal GdB NFdB h f0 fs d0 d1 d2 d3 x out he
  have key : ∀ r : List (Cx ℝ),
      List.Forall₂ (fun o i : Cx ℝ => o.normSq = (10 : ℝ) ^ (GdB / 10) * i.normSq) (r.map (Cx.smul (gainAmp GdB))) r := by
    intro r
    have := forall₂_scaleRow (gainAmp GdB) r
    simp only [scaleRow] at this
    exact this.imp (fun o i hoi => by rw [hoi.2, gainAmp_sq])
  refine ⟨by rw [hx]; exact key _, ?_⟩
  intro a b hab
  rw [hy a b hab]; exact key _

/-- the output always has two polarisations of the input's length, and always a noise part -/
theorem edfa_two_pol (GdB NFdB h f0 fs : ℝ) (d0 d1 d2 d3 : List ℝ) (x : Modulators.Field (Cx ℝ)) (out : Out (Cx ℝ))
    (hx : x.WF) (he : edfa GdB NFdB h f0 fs d0 d1 d2 d3 (.optical x) = .ok out) :
    out.x.length = x.sig.len ∧ out.y.length = x.sig.len ∧ out.nx.length = x.sig.len ∧ out.ny.length = x.sig.len := by
  obtain ⟨⟨l0, l1, l2, l3⟩, ex, ey, hnone, hsome⟩ := edfa_ok_inv he
  have hsig : ∀ r : Rows (Cx ℝ), r.Shaped x.sig.len →
      (ampRows (gainAmp GdB) r).1.length = x.sig.len ∧ (ampRows (gainAmp GdB) r).2.length = x.sig.len := by
    intro r hr
    cases r with
    | one a => simpa [ampRows, scaleRow, zerosLike, Rows.Shaped] using hr
    | two a b => simpa [ampRows, scaleRow, Rows.Shaped] using hr
  have hs := hsig x.sig hx.1
  refine ⟨by rw [ex]; exact hs.1, by rw [ey]; exact hs.2, ?_, ?_⟩
  · cases hn : x.noise with
    | none => rw [(hnone hn).1]; simp [aseRow, l0, l2]
    | some nz =>
      rw [(hsome nz hn).1]
      simp [addRow, aseRow, l0, l2, (hsig nz (hx.noise_shaped hn)).1]
  · cases hn : x.noise with
    | none => rw [(hnone hn).2]; simp [aseRow, l1, l3]
    | some nz =>
      rw [(hsome nz hn).2]
      simp [addRow, aseRow, l1, l3, (hsig nz (hx.noise_shaped hn)).2]

/-! ### gain law for the incoming noise, ASE added on top -/

/-- **noise part** = √G · incoming noise (same polarisations, nothing on y for a one-polarisation input) + ASE, where
    ASE_x = s·(d0 + j·d2), ASE_y = s·(d1 + j·d3), s = sqrt(P_ase/4); without incoming noise it is the ASE alone -/
theorem edfa_noise (GdB NFdB h f0 fs : ℝ) (d0 d1 d2 d3 : List ℝ) (x : Modulators.Field (Cx ℝ)) (out : Out (Cx ℝ))
    (hx : x.WF) (he : edfa GdB NFdB h f0 fs d0 d1 d2 d3 (.optical x) = .ok out) :
    let s := aseScale (pAse NFdB GdB h f0 fs)
    let ax := aseRow s d0 d2
    let ay := aseRow s d1 d3
    (x.noise = none → out.nx = ax ∧ out.ny = ay) ∧
    (∀ a, x.noise = some (.one a) →
        out.nx = List.zipWith (· + ·) (a.map (Cx.smul (gainAmp GdB))) ax ∧ out.ny = ay) ∧
    (∀ a b, x.noise = some (.two a b) →
        out.nx = List.zipWith (· + ·) (a.map (Cx.smul (gainAmp GdB))) ax ∧
        out.ny = List.zipWith (· + ·) (b.map (Cx.smul (gainAmp GdB))) ay) := by
  intro s ax ay
  obtain ⟨⟨l0, l1, l2, l3⟩, _, _, hnone, hsome⟩ := edfa_ok_inv he
  refine ⟨fun hn => hnone hn, ?_, ?_⟩
  · intro a hn
    obtain ⟨e1, e2⟩ := hsome _ hn
    refine ⟨e1, ?_⟩
    rw [e2]
    simp only [ampRows]
    apply addRow_zeros
    have := hx.noise_shaped hn
    simp only [Rows.Shaped] at this
    simp [scaleRow, aseRow, l1, l3, this]
  · intro a b hn
    exact hsome _ hn

/-- the "twin call" form used by the oracle: subtracting the ASE realisation leaves the amplified incoming noise.
    Sample-wise, for a noise sample `n` and ASE sample `a`: `(√G·n + a) − a = √G·n`. -/
theorem edfa_noise_minus_ase (g : ℝ) (n a : Cx ℝ) : (Cx.smul g n + a) - a = Cx.smul g n := by
  apply Cx.ext_re_im <;> simp [Cx.smul]

/-! ### the ASE power -/

/-- **documented ASE power**: `P_ase = NF·h·f0·(G−1)·fs` with `NF = 10^(NF_dB/10)`, `G = 10^(G_dB/10)` -/
theorem p_ase_formula (NFdB GdB h f0 fs : ℝ) :
    pAse NFdB GdB h f0 fs = (10 : ℝ) ^ (NFdB / 10) * h * f0 * ((10 : ℝ) ^ (GdB / 10) - 1) * fs :=
  pAse_real NFdB GdB h f0 fs

/-- `P_ase ≥ 0` for `G_dB ≥ 0` (and non-negative constants), `= 0` at `G_dB = 0` -/
theorem p_ase_nonneg (NFdB GdB h f0 fs : ℝ) (hG : 0 ≤ GdB) (hh : 0 ≤ h) (hf0 : 0 ≤ f0) (hfs : 0 ≤ fs) :
    0 ≤ (pAse NFdB GdB h f0 fs : ℝ) ∧ (pAse NFdB 0 h f0 fs : ℝ) = 0 := by
  refine ⟨pAse_nonneg NFdB GdB h f0 fs hG hh hf0 hfs, ?_⟩
  rw [pAse_real]; simp

/-- **total ASE variance** (stated on the scale factors): each of the four real components (x/y × re/im) is a
    unit-variance draw times `s = sqrt(P_ase/4)`, so has variance `s² = P_ase/4`; the four together give `P_ase` -/
theorem ase_total_variance (p : ℝ) (hp : 0 ≤ p) :
    (aseScale p : ℝ) * aseScale p = p / 4 ∧
      aseScale p * aseScale p + aseScale p * aseScale p + aseScale p * aseScale p + aseScale p * aseScale p = p := by
  have h := aseScale_sq p hp
  exact ⟨h, by rw [h]; ring⟩

/-- the same on a realisation: if each of the four recorded draw rows has sample second moment 1 (`Σ d² = N`), the ASE
    added by the model has total sample power (both polarisations) exactly `N·P_ase`, i.e. mean power `P_ase` -/
theorem ase_sample_power (p : ℝ) (hp : 0 ≤ p) (d0 d1 d2 d3 : List ℝ) (N : ℝ)
    (l02 : d0.length = d2.length) (l13 : d1.length = d3.length)
    (m0 : sumSq d0 = N) (m1 : sumSq d1 = N) (m2 : sumSq d2 = N) (m3 : sumSq d3 = N) :
    rowPower (aseRow (aseScale p) d0 d2) + rowPower (aseRow (aseScale p) d1 d3) = N * p := by
  rw [rowPower_aseRow _ _ _ l02, rowPower_aseRow _ _ _ l13, m0, m1, m2, m3, aseScale_sq p hp]
  ring

example : rowPower (aseRow (aseScale (8:ℝ)) [1, -1] [-1, 1]) + rowPower (aseRow (aseScale (8:ℝ)) [1, 1] [-1, -1]) = 2 * 8 :=
  ase_sample_power 8 (by norm_num) [1, -1] [1, 1] [-1, 1] [-1, -1] 2 rfl rfl
    (by norm_num [sumSq]) (by norm_num [sumSq]) (by norm_num [sumSq]) (by norm_num [sumSq])

/-! ### the optical SNR never improves -/

/-- `G·Ps/(G·Pn + P_ase) ≤ Ps/Pn` -/
theorem osnr_le (G Ps Pn Pase : ℝ) (hG : 0 < G) (hPs : 0 ≤ Ps) (hPn : 0 < Pn) (hPase : 0 ≤ Pase) :
    G * Ps / (G * Pn + Pase) ≤ Ps / Pn := by
  have hden : 0 < G * Pn + Pase := by positivity
  rw [div_le_div_iff₀ hden hPn]
  nlinarith [mul_nonneg hPs hPase, mul_nonneg hG.le (mul_nonneg hPs hPn.le)]

/-- … with the model's own gain and ASE power: for every `G_dB ≥ 0`, every NF, signal power `Ps ≥ 0`, incoming noise
    power `Pn > 0`: OSNR_out ≤ OSNR_in; strictly smaller as soon as ASE is added and there is signal -/
theorem edfa_osnr_le (NFdB GdB h f0 fs Ps Pn : ℝ) (hG : 0 ≤ GdB) (hh : 0 ≤ h) (hf0 : 0 ≤ f0) (hfs : 0 ≤ fs)
    (hPs : 0 ≤ Ps) (hPn : 0 < Pn) :
    let G : ℝ := gainAmp GdB * gainAmp GdB
    (G * Ps / (G * Pn + pAse NFdB GdB h f0 fs) ≤ Ps / Pn) ∧
      (0 < pAse NFdB GdB h f0 fs → 0 < Ps → G * Ps / (G * Pn + pAse NFdB GdB h f0 fs) < Ps / Pn) := by
  intro G
  have hGpos : 0 < G := mul_pos (gainAmp_pos GdB) (gainAmp_pos GdB)
  have hA := pAse_nonneg NFdB GdB h f0 fs hG hh hf0 hfs
  refine ⟨osnr_le G Ps Pn _ hGpos hPs hPn hA, ?_⟩
  intro hA' hPs'
  have hden : 0 < G * Pn + pAse NFdB GdB h f0 fs := by positivity
  rw [div_lt_div_iff₀ hden hPn]
  nlinarith [mul_pos hPs' hA']

example : (2:ℝ) * 3 / (2 * 1 + 1) ≤ 3 / 1 := osnr_le 2 3 1 1 (by norm_num) (by norm_num) (by norm_num) (by norm_num)

/-! ### optional BW: the optical filter of C11 applied to the amplifier's whole output -/

/-- with `BW` the result is, by definition, `BPF` (model `Filter.bpf` with the spied sections) of what `EDFA` returns without `BW` -/
theorem edfa_bw_is_bpf_after_edfa (GdB NFdB h f0 fs : ℝ) (d0 d1 d2 d3 : List ℝ) (secs : List (Filter.Sec ℝ)) (e : ℕ)
    (inp : Input (Cx ℝ)) :
    edfaBW GdB NFdB h f0 fs d0 d1 d2 d3 secs e inp =
      match edfa GdB NFdB h f0 fs d0 d1 d2 d3 inp with
      | .error err => .error err
      | .ok o => Filter.bpf secs e ⟨[o.x, o.y], some [o.nx, o.ny]⟩ := by
  unfold edfaBW
  cases edfa GdB NFdB h f0 fs d0 d1 d2 d3 inp <;> rfl

/-- **the whole output is band-limited, signal and noise rows alike** (C11 `filt_rows_bpf`): each of the four rows is
    `F = filtCoreCx secs e` of the corresponding unfiltered row, lengths preserved; a non-optical input still raises `TypeError` -/
theorem edfa_bw_rows (GdB NFdB h f0 fs : ℝ) (d0 d1 d2 d3 : List ℝ) (secs : List (Filter.Sec ℝ)) (e : ℕ)
    (x : Modulators.Field (Cx ℝ)) (out : Out (Cx ℝ)) (hx : x.WF) (he : e < x.sig.len)
    (ho : edfa GdB NFdB h f0 fs d0 d1 d2 d3 (.optical x) = .ok out) :
    edfaBW GdB NFdB h f0 fs d0 d1 d2 d3 secs e (.optical x) =
        .ok ⟨[Filter.filtCoreCx secs e out.x, Filter.filtCoreCx secs e out.y],
             some [Filter.filtCoreCx secs e out.nx, Filter.filtCoreCx secs e out.ny]⟩ ∧
      (Filter.filtCoreCx secs e out.x).length = x.sig.len ∧ (Filter.filtCoreCx secs e out.y).length = x.sig.len ∧
      (Filter.filtCoreCx secs e out.nx).length = x.sig.len ∧ (Filter.filtCoreCx secs e out.ny).length = x.sig.len ∧
      edfaBW GdB NFdB h f0 fs d0 d1 d2 d3 secs e (Input.other : Input (Cx ℝ)) = .error .TypeError := by
  obtain ⟨lx, ly, lnx, lny⟩ := edfa_two_pol GdB NFdB h f0 fs d0 d1 d2 d3 x out hx ho
  refine ⟨?_, ?_, ?_, ?_, ?_, rfl⟩
  · rw [edfa_bw_is_bpf_after_edfa, ho]
    simp only
    rw [Props.C11.filt_rows_bpf secs e ⟨[out.x, out.y], some [out.nx, out.ny]⟩]
    · rfl
    · intro r hr
      simp only [List.mem_cons, List.not_mem_nil, or_false] at hr
      rcases hr with rfl | rfl <;> omega
    · intro nz hnz r hr
      cases hnz
      simp only [List.mem_cons, List.not_mem_nil, or_false] at hr
      rcases hr with rfl | rfl <;> omega
  · rw [Filter.length_filtCoreCx _ _ _ (by omega), lx]
  · rw [Filter.length_filtCoreCx _ _ _ (by omega), ly]
  · rw [Filter.length_filtCoreCx _ _ _ (by omega), lnx]
  · rw [Filter.length_filtCoreCx _ _ _ (by omega), lny]

/-- … hence **`out.noise = bpf(√G·in.noise + ase)` row by row**, and by linearity of the filter (C11 `filt_linear_cx`) this is
    `bpf(√G·in.noise) + bpf(ase)`: the incoming noise and the ASE are band-limited by the same filter as the signal.
    (Two-polarisation noisy input; `F = filtCoreCx secs e`.) -/
theorem edfa_bw_noise (GdB NFdB h f0 fs : ℝ) (d0 d1 d2 d3 : List ℝ) (secs : List (Filter.Sec ℝ)) (e : ℕ)
    (sx sy a b : List (Cx ℝ)) (hx : (⟨.two sx sy, some (.two a b)⟩ : Modulators.Field (Cx ℝ)).WF) (he : e < sx.length) :
    let s := aseScale (pAse NFdB GdB h f0 fs)
    let g := gainAmp GdB
    let F := Filter.filtCoreCx secs e
    ∀ o, edfaBW GdB NFdB h f0 fs d0 d1 d2 d3 secs e (.optical ⟨.two sx sy, some (.two a b)⟩) = .ok o →
      o.rows = [F (sx.map (Cx.smul g)), F (sy.map (Cx.smul g))] ∧
      o.noise = some [F (List.zipWith (· + ·) (a.map (Cx.smul g)) (aseRow s d0 d2)),
                      F (List.zipWith (· + ·) (b.map (Cx.smul g)) (aseRow s d1 d3))] ∧
      o.noise = some [List.zipWith (· + ·) (F (a.map (Cx.smul g))) (F (aseRow s d0 d2)),
                      List.zipWith (· + ·) (F (b.map (Cx.smul g))) (F (aseRow s d1 d3))] := by
  intro s g F o hbw
  rw [edfa_bw_is_bpf_after_edfa] at hbw
  cases ho : edfa GdB NFdB h f0 fs d0 d1 d2 d3 (.optical ⟨.two sx sy, some (.two a b)⟩) with
  | error err => rw [ho] at hbw; cases hbw
  | ok out =>
    have hrows := (edfa_bw_rows GdB NFdB h f0 fs d0 d1 d2 d3 secs e _ out hx he ho).1
    rw [edfa_bw_is_bpf_after_edfa, ho] at hrows
    rw [ho] at hbw
    simp only at hbw hrows
    rw [hrows] at hbw
    cases hbw
    obtain ⟨⟨l0, l1, l2, l3⟩, _, _, _, _⟩ := edfa_ok_inv ho
    obtain ⟨ex, _, ey⟩ := edfa_signal GdB NFdB h f0 fs d0 d1 d2 d3 _ out ho
    obtain ⟨_, _, en⟩ := edfa_noise GdB NFdB h f0 fs d0 d1 d2 d3 _ out hx ho
    obtain ⟨enx, eny⟩ := en a b rfl
    have hs := hx.noise_shaped rfl
    simp only [Rows.Shaped, Rows.len] at hs l0 l1 l2 l3
    refine ⟨by rw [ex, ey sx sy rfl]; rfl, by rw [enx, eny], ?_⟩
    rw [enx, eny, filtCoreCx_add secs e _ _ (by simp [aseRow, hs.1, l0, l2]),
      filtCoreCx_add secs e _ _ (by simp [aseRow, hs.2, l1, l3])]

/-! ### input validation -/

/-- a non-optical input raises `TypeError`; an optical one never does -/
theorem edfa_type_error (GdB NFdB h f0 fs : ℝ) (d0 d1 d2 d3 : List ℝ) :
    edfa GdB NFdB h f0 fs d0 d1 d2 d3 (Input.other : Input (Cx ℝ)) = .error .TypeError ∧
      ∀ x : Modulators.Field (Cx ℝ), edfa GdB NFdB h f0 fs d0 d1 d2 d3 (.optical x) ≠ .error .TypeError := by
  refine ⟨rfl, ?_⟩
  intro x hc
  simp only [edfa] at hc
  split at hc
  · cases hc
  · cases hn : x.noise <;> rw [hn] at hc <;> simp at hc

/-- every optical input with a draw of matching shape is accepted -/
theorem edfa_accepts (GdB NFdB h f0 fs : ℝ) (d0 d1 d2 d3 : List ℝ) (x : Modulators.Field (Cx ℝ))
    (l0 : d0.length = x.sig.len) (l1 : d1.length = x.sig.len) (l2 : d2.length = x.sig.len) (l3 : d3.length = x.sig.len) :
    ∃ out, edfa GdB NFdB h f0 fs d0 d1 d2 d3 (.optical x) = .ok out := by
  simp only [edfa, l0, l1, l2, l3, ne_eq, not_true_eq_false, or_self, if_false]
  cases x.noise <;> exact ⟨_, rfl⟩

/-- non-vacuity: one-polarisation noisy input -/
example : ∃ out, edfa (R := ℝ) 20 5 1 1 1 [1, 0] [0, 1] [1, 1] [0, 0]
    (.optical ⟨.one [⟨1, 2⟩, ⟨0, 1⟩], some (.one [⟨1, 0⟩, ⟨0, 0⟩])⟩) = .ok out :=
  edfa_accepts _ _ _ _ _ _ _ _ _ _ rfl rfl rfl rfl

end OptiVerif.Props.C10
