/-
C08 — nonlinear FIBER conserves energy up to loss (for every adaptive step schedule), reproduces SPM in closed
form without dispersion, treats one polarisation like the x-polarisation of two, and terminates.
Theorems about `Model/FiberNL.lean` at ℝ; the driver runs the same definitions at Float against FIBER().
-/
import OptiVerif.Lemmas.FiberNLPhase
import OptiVerif.Lemmas.FiberNLLinear

namespace OptiVerif.Props.C08
open OptiVerif OptiVerif.Fourier OptiVerif.Fiber OptiVerif.FiberNL

/-! ### one step, any schedule -/

/-- one symmetric split step multiplies the energy of every row by exactly exp(-alpha' h) -/
theorem step_energy (wConv fs alphaP b2 b3 gamma : ℝ) (xs : List (Cx ℝ)) (h : ℝ) :
    sumSq (stepRow wConv fs alphaP b2 b3 gamma xs h) = Real.exp (-alphaP * h) * sumSq xs :=
  sumSq_stepRow wConv fs alphaP b2 b3 gamma xs h

/-- **any schedule**: applying any list of steps multiplies each row's energy by exp(-alpha' Σh) -/
theorem schedule_energy (wConv fs alphaP b2 b3 gamma : ℝ) (hs : List ℝ) (A : Rows ℝ) :
    (hs.foldl (step wConv fs alphaP b2 b3 gamma) A).map sumSq
      = (A.map sumSq).map (fun e => Real.exp (-alphaP * hs.sum) * e) :=
  energies_fold wConv fs alphaP b2 b3 gamma hs A

/-! ### what FIBER returns -/

/-- Structure of every successful run: either the dispersionless closed form, or the input pushed through the
    returned list of split steps, which sum to the fibre length exactly. -/
theorem fiber_spec (wConv kappa fs alpha b2 b3 gamma phiMax L : ℝ) (fuel : ℕ) (A : Rows ℝ) (out : Out ℝ)
    (hok : fiber wConv kappa fs alpha b2 b3 gamma phiMax L fuel A = .ok out) :
    ((b2 = 0 ∧ b3 = 0 ∧ gamma ≠ 0) ∧ out.rows = A.map (spmRow (alpha / kappa) gamma L) ∧ out.steps = []) ∨
    (¬ (b2 = 0 ∧ b3 = 0 ∧ gamma ≠ 0) ∧
      out.rows = out.steps.foldl (step wConv fs (alpha / kappa) b2 b3 gamma) A ∧ out.steps.sum = L) := by
  unfold fiber at hok
  simp only at hok
  split at hok
  · next hspm =>
    left
    simp only [Bool.and_eq_true, Cmp.eqz_real, Bool.not_eq_true', Cmp.eqz_real_false] at hspm
    injection hok with hok
    subst hok
    exact ⟨⟨hspm.1.1, hspm.1.2, hspm.2⟩, rfl, rfl⟩
  · next hnspm =>
    right
    have hcond : ¬ (b2 = 0 ∧ b3 = 0 ∧ gamma ≠ 0) := by
      intro ⟨h1, h2, h3⟩
      apply hnspm
      simp [h1, h2, h3]
    refine ⟨hcond, ?_⟩
    split at hok
    · exact absurd hok (by simp)
    · next A' acc x hloop =>
      obtain ⟨new, h1, h2, _, h4, _⟩ := loop_spec _ _ _ _ _ _ _ _ _ _ _ hloop
      simp only [List.append_nil] at h1
      have hx : x = new.sum := by linarith
      split at hok
      · next hz =>
        simp only [Cmp.eqz_real] at hz
        injection hok with hok
        subst hok
        simp only [h1, List.reverse_reverse]
        exact ⟨h2, by linarith⟩
      · next hnz =>
        injection hok with hok
        subst hok
        simp only [h1, List.reverse_cons, List.reverse_reverse, List.foldl_append, List.foldl_cons, List.foldl_nil,
          List.sum_append, List.sum_cons, List.sum_nil]
        exact ⟨by rw [h2], by linarith⟩

/-- steps sum to the fibre length (loop branch) -/
theorem steps_sum (wConv kappa fs alpha b2 b3 gamma phiMax L : ℝ) (fuel : ℕ) (A : Rows ℝ) (out : Out ℝ)
    (hok : fiber wConv kappa fs alpha b2 b3 gamma phiMax L fuel A = .ok out)
    (hdisp : ¬ (b2 = 0 ∧ b3 = 0 ∧ gamma ≠ 0)) : out.steps.sum = L := by
  rcases fiber_spec _ _ _ _ _ _ _ _ _ _ _ _ hok with ⟨h, _⟩ | ⟨_, _, h⟩
  · exact absurd h hdisp
  · exact h

theorem normSq_spm (alphaP gamma L : ℝ) (a : Cx ℝ) :
    (a * Cx.exp ⟨-(alphaP / ((2 : ℕ) : ℝ)) * L, gamma * lEff alphaP L * a.normSq⟩).normSq
      = Real.exp (-alphaP * L) * a.normSq := by
  rw [Cx.normSq_mul, Cx.normSq_exp]
  simp only [Nat.cast_ofNat]
  rw [mul_comm]
  congr 2
  ring

theorem sumSq_spmRow (alphaP gamma L : ℝ) (xs : List (Cx ℝ)) :
    sumSq (spmRow alphaP gamma L xs) = Real.exp (-alphaP * L) * sumSq xs := by
  induction xs with
  | nil => simp [spmRow, sumSq]
  | cons a as ih =>
    simp only [spmRow, List.map_cons, sumSq] at *
    rw [ih, normSq_spm]
    ring

/-- **energy law**: whatever phi_max, dispersion, nonlinearity and step schedule, every polarisation leaves the
    fibre with exp(-alpha' L) times its input energy (alpha' = alpha / kappa) -/
theorem fiber_energy (wConv kappa fs alpha b2 b3 gamma phiMax L : ℝ) (fuel : ℕ) (A : Rows ℝ) (out : Out ℝ)
    (hok : fiber wConv kappa fs alpha b2 b3 gamma phiMax L fuel A = .ok out) :
    out.rows.map sumSq = (A.map sumSq).map (fun e => Real.exp (-(alpha / kappa) * L) * e) := by
  rcases fiber_spec _ _ _ _ _ _ _ _ _ _ _ _ hok with ⟨_, hr, _⟩ | ⟨_, hr, hs⟩
  · rw [hr]
    simp [List.map_map, Function.comp_def, sumSq_spmRow]
  · rw [hr, schedule_energy, hs]

/-- the output has the input's layout: same number of rows, same row lengths -/
theorem fiber_shape (wConv kappa fs alpha b2 b3 gamma phiMax L : ℝ) (fuel : ℕ) (A : Rows ℝ) (out : Out ℝ)
    (hok : fiber wConv kappa fs alpha b2 b3 gamma phiMax L fuel A = .ok out) :
    out.rows.map List.length = A.map List.length := by
  rcases fiber_spec _ _ _ _ _ _ _ _ _ _ _ _ hok with ⟨_, hr, _⟩ | ⟨_, hr, _⟩
  · rw [hr]; simp [List.map_map, Function.comp_def, spmRow]
  · rw [hr, shape_fold]

/-! ### dispersionless closed form -/

/-- L_eff = (1 - exp(-alpha' L)) / alpha', and L when alpha' = 0 -/
theorem lEff_spec (alphaP L : ℝ) :
    lEff alphaP L = if alphaP = 0 then L else (1 - Real.exp (-(alphaP * L))) / alphaP := by
  by_cases h : alphaP = 0 <;> simp [lEff, h]

/-- without dispersion (and gamma ≠ 0) every sample is in · exp(-alpha' L/2) · exp(j gamma |in|² L_eff) -/
theorem spm_closed_form (wConv kappa fs alpha gamma phiMax L : ℝ) (hg : gamma ≠ 0) (fuel : ℕ) (A : Rows ℝ) :
    fiber wConv kappa fs alpha 0 0 gamma phiMax L fuel A
      = .ok ⟨A.map (fun row => row.map (fun a =>
          a * Cx.smul (Real.exp (-(alpha / kappa / 2) * L)) (Cx.cis (gamma * lEff (alpha / kappa) L * a.normSq)))), []⟩ := by
  unfold fiber
  simp [hg, spmRow, Cx.exp]


/-! ### one polarisation ≡ x-polarisation of two with empty y -/

/-- FIBER on the two-polarisation signal [x, 0] returns [FIBER(x), 0] with exactly the same step schedule:
    the one-polarisation signal propagates like the x-polarisation of its twin and the empty polarisation stays empty -/
theorem one_pol_eq_x_pol (wConv kappa fs alpha b2 b3 gamma phiMax L : ℝ) (fuel : ℕ) (x : List (Cx ℝ)) :
    fiber wConv kappa fs alpha b2 b3 gamma phiMax L fuel [x, zeros x.length]
      = (fiber wConv kappa fs alpha b2 b3 gamma phiMax L fuel [x]).map
          (fun o => ⟨[o.rows.headD [], zeros (o.rows.headD []).length], o.steps⟩) :=
  fiber_twin wConv kappa fs alpha b2 b3 gamma phiMax L fuel x

/-! ### gamma = 0: the nonlinear model restricted to a linear fibre IS C07's model -/

/-- without nonlinearity (gamma = 0) FIBER takes one step of the whole length and every row is C07's linear all-pass
    `fiberLinRow` (so C07's theorems — loss factor, span additivity, FIBER(L, β₂) = DM(β₂L) — apply to this model verbatim) -/
theorem gamma0_is_linear_fiber (wConv kappa fs alpha b2 b3 phiMax L : ℝ) (A : Rows ℝ) (hL : 0 < L) (fuel : ℕ) (hf : 1 ≤ fuel) :
    fiber wConv kappa fs alpha b2 b3 0 phiMax L fuel A
      = .ok ⟨A.map (fiberLinRow wConv kappa fs alpha b2 b3 L), [L]⟩ :=
  fiber_gamma0 wConv kappa fs alpha b2 b3 phiMax L A hL fuel hf

/-- a single split step without nonlinearity is the linear filter of that step length (used by the schedule replay) -/
theorem step_gamma0_is_linear (wConv fs alphaP b2 b3 : ℝ) (xs : List (Cx ℝ)) (h : ℝ) :
    stepRow wConv fs alphaP b2 b3 0 xs h = applyH (fiberH wConv (wAxis xs.length fs) alphaP b2 b3 h) xs :=
  stepRow_gamma0 wConv fs alphaP b2 b3 xs h

/-! ### termination -/

/-- **termination with an explicit bound**: for a non-zero field in one of the two container layouts, positive
    gamma and phi_max, non-negative loss, the adaptive loop returns as soon as the fuel exceeds
    L·gamma·E0/phi_max + 2 (E0 = total input energy): no input makes FIBER loop forever. -/
theorem terminates (wConv kappa fs alpha b2 b3 gamma phiMax L : ℝ) (A : Rows ℝ) (hA : Layout A)
    (hg : 0 < gamma) (hdisp : ¬ (b2 = 0 ∧ b3 = 0)) (hphi : 0 < phiMax) (hL : 0 < L) (ha : 0 ≤ alpha / kappa)
    (hE : 0 < energy A) (fuel : ℕ) (hfuel : L * gamma * energy A / phiMax + 2 < fuel) :
    ∃ out, fiber wConv kappa fs alpha b2 b3 gamma phiMax L fuel A = .ok out := by
  unfold fiber
  simp only
  have hnd : (Cmp.eqz b2 && Cmp.eqz b3) = false := by
    rcases Classical.em (b2 = 0) with h2 | h2
    · have h3 : b3 ≠ 0 := fun h3 => hdisp ⟨h2, h3⟩
      simp [h2, h3]
    · simp [h2]
  simp only [hnd, Bool.false_and, Bool.false_eq_true, if_false]
  have hpk := peak_pos A hA hE
  have hfirst : firstH b2 b3 gamma phiMax L A = min L (phiMax / (gamma * peak A)) := by
    simp only [firstH, hnd, Bool.false_or]
    have : Cmp.eqz gamma = false := by simp [hg.ne']
    simp only [this, Bool.false_eq_true, if_false]
    by_cases hlt : L < phiMax / (gamma * peak A)
    · simp [hlt, min_eq_left (le_of_lt hlt)]
    · simp [hlt, min_eq_right (not_lt.mp hlt)]
  have hh0 : 0 ≤ firstH b2 b3 gamma phiMax L A := by
    rw [hfirst]
    exact le_min hL.le (div_nonneg hphi.le (mul_pos hg hpk).le)
  have hhL : firstH b2 b3 gamma phiMax L A ≤ L := by rw [hfirst]; exact min_le_left _ _
  have hmin_pos : 0 < phiMax / (gamma * energy A) := div_pos hphi (mul_pos hg hE)
  obtain ⟨r, hr⟩ := loop_terminates wConv fs (alpha / kappa) b2 b3 gamma phiMax L (energy A) hg hphi ha hE fuel A
    (firstH b2 b3 gamma phiMax L A) (firstH b2 b3 gamma phiMax L A) [] hA hE le_rfl hh0 hhL (by
      have h1 : (L - firstH b2 b3 gamma phiMax L A) / (phiMax / (gamma * energy A)) ≤ L / (phiMax / (gamma * energy A)) := by
        rw [div_le_div_iff_of_pos_right hmin_pos]; linarith
      have h2 : L / (phiMax / (gamma * energy A)) = L * gamma * energy A / phiMax := by
        field_simp
      linarith)
  rw [hr]
  obtain ⟨A', acc, xl⟩ := r
  simp only
  split
  · exact ⟨_, rfl⟩
  · exact ⟨_, rfl⟩

/-- without nonlinearity one full-length step is taken and the loop stops at once (fuel 1 suffices) -/
theorem terminates_linear (wConv kappa fs alpha b2 b3 phiMax L : ℝ) (A : Rows ℝ) (hL : 0 < L) (fuel : ℕ) (hf : 1 ≤ fuel) :
    ∃ out, fiber wConv kappa fs alpha b2 b3 0 phiMax L fuel A = .ok out := by
  obtain ⟨f, rfl⟩ : ∃ f, fuel = f + 1 := ⟨fuel - 1, by omega⟩
  unfold fiber
  have hz : Cmp.eqz (0 : ℝ) = true := by simp
  simp only [hz, Bool.not_true, Bool.and_false, Bool.false_eq_true, if_false, firstH, Bool.or_true, if_true,
    loop, nextH]
  have h1 : Cmp.lt L L = false := by simp
  have h2 : Cmp.lt L (L + L) = true := by simp; linarith
  simp only [h1, Bool.false_eq_true, if_false, h2, if_true]
  split
  · exact ⟨_, rfl⟩
  · exact ⟨_, rfl⟩

/-! ### the adaptive rule: no step rotates the nonlinear phase by more than phi_max -/

/-- **phase bound**: in the dispersive nonlinear branch, for every step `h` the loop applies — the clamped first step,
    every adaptive step and the final partial step — `gamma · h · (peak total power of the field entering that step)`
    is at most `phi_max`, and no step is negative.  (This is the defining property of the method "based on limiting the
    nonlinear phase rotation"; it also says the steps never propagate backwards.) -/
theorem step_phase_bounded (wConv kappa fs alpha b2 b3 gamma phiMax L : ℝ) (fuel : ℕ) (A : Rows ℝ) (out : Out ℝ)
    (hA : Layout A) (hg : 0 < gamma) (hdisp : ¬ (b2 = 0 ∧ b3 = 0)) (hphi : 0 ≤ phiMax) (hL : 0 ≤ L)
    (hok : fiber wConv kappa fs alpha b2 b3 gamma phiMax L fuel A = .ok out) :
    ∀ q ∈ trace (step wConv fs (alpha / kappa) b2 b3 gamma) A out.steps,
      gamma * q.2 * peak q.1 ≤ phiMax ∧ 0 ≤ q.2 := by
  unfold fiber at hok
  simp only at hok
  have hnd : (Cmp.eqz b2 && Cmp.eqz b3) = false := by
    rcases Classical.em (b2 = 0) with h2 | h2
    · have h3 : b3 ≠ 0 := fun h3 => hdisp ⟨h2, h3⟩
      simp [h2, h3]
    · simp [h2]
  simp only [hnd, Bool.false_and, Bool.false_eq_true, if_false] at hok
  have hpk0 := peak_nonneg A hA
  have hfirst : firstH b2 b3 gamma phiMax L A = min L (phiMax / (gamma * peak A)) := by
    simp only [firstH, hnd, Bool.false_or]
    have : Cmp.eqz gamma = false := by simp [hg.ne']
    simp only [this, Bool.false_eq_true, if_false]
    by_cases hlt : L < phiMax / (gamma * peak A)
    · simp [hlt, min_eq_left (le_of_lt hlt)]
    · simp [hlt, min_eq_right (not_lt.mp hlt)]
  have hrule := nextH_phase gamma phiMax L hg.ne' hphi A
  have hnx : nextH gamma phiMax L A = phiMax / (gamma * peak A) := by simp [nextH, hg.ne']
  have hh0 : 0 ≤ firstH b2 b3 gamma phiMax L A := by
    rw [hfirst]; exact le_min hL (div_nonneg hphi (mul_nonneg hg.le hpk0))
  have hhL : firstH b2 b3 gamma phiMax L A ≤ L := by rw [hfirst]; exact min_le_left _ _
  have hstep0 : gamma * firstH b2 b3 gamma phiMax L A * peak A ≤ phiMax := by
    have hle : firstH b2 b3 gamma phiMax L A ≤ nextH gamma phiMax L A := by rw [hfirst, hnx]; exact min_le_right _ _
    calc gamma * firstH b2 b3 gamma phiMax L A * peak A
        ≤ gamma * nextH gamma phiMax L A * peak A :=
          mul_le_mul_of_nonneg_right (mul_le_mul_of_nonneg_left hle hg.le) hpk0
      _ ≤ phiMax := hrule
  split at hok
  · exact absurd hok (by simp)
  · next A' acc x hloop =>
    obtain ⟨new, h1, h2, h3, h4, h5, h6⟩ :=
      loop_phase wConv fs (alpha / kappa) b2 b3 gamma phiMax L hg hphi fuel A _ _ [] hA hh0 hhL hstep0 A' acc x hloop
    simp only [List.append_nil] at h1
    split at hok
    · injection hok with hok
      subst hok
      simp only [h1, List.reverse_reverse]
      exact h3
    · injection hok with hok
      subst hok
      simp only [h1, List.reverse_cons, List.reverse_reverse, trace_append]
      intro q hq
      rcases List.mem_append.mp hq with hq | hq
      · exact h3 q hq
      · simp only [trace, List.mem_singleton] at hq
        subst hq
        simp only
        rw [← h2]
        have hf0 : 0 ≤ L - x := by linarith
        have hflt : L - x ≤ nextH gamma phiMax L A' := by linarith
        refine ⟨?_, hf0⟩
        calc gamma * (L - x) * peak A'
            ≤ gamma * nextH gamma phiMax L A' * peak A' :=
              mul_le_mul_of_nonneg_right (mul_le_mul_of_nonneg_left hflt hg.le) (peak_nonneg A' h5)
          _ ≤ phiMax := nextH_phase gamma phiMax L hg.ne' hphi A'

/-! ### non-vacuity -/

example : Layout ([[⟨1, 0⟩, ⟨0, 2⟩], [⟨0, 0⟩, ⟨1, 1⟩]] : Rows ℝ) := Or.inr ⟨_, _, rfl, rfl⟩
example : 0 < energy ([[⟨1, 0⟩, ⟨0, 2⟩]] : Rows ℝ) := by norm_num [energy, sumSq, Cx.normSq]

end OptiVerif.Props.C08
