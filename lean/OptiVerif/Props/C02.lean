/-
C02 — time/frequency transforms are exact inverses on the sampling-rate FFT grid.
Property theorems about the generic model `Model/Fourier.lean` instantiated at ℝ (the driver runs the same
definitions at Float against numpy).
-/
import OptiVerif.Lemmas.FourierParseval
import OptiVerif.Lemmas.FourierLinear

namespace OptiVerif.Props.C02
open OptiVerif OptiVerif.Fourier

/-! ### x('w')('t') = x and x('t')('w') = x, for every length and every row of signal and noise -/

/-- ifft ∘ fft = id on every row of every length (n = 0 included trivially) -/
theorem idft_dft_row (xs : List (Cx ℝ)) : idft (dft xs) = xs := Fourier.idft_dft xs

theorem dft_idft_row (xs : List (Cx ℝ)) : dft (idft xs) = xs := Fourier.dft_idft xs

theorem callRow_t_w (xs : List (Cx ℝ)) : callRow .t false (callRow .w false xs) = xs := by
  simp [callRow, Fourier.idft_dft]

theorem callRow_w_t (xs : List (Cx ℝ)) : callRow .w false (callRow .t false xs) = xs := by
  simp [callRow, Fourier.dft_idft]

/-- **round trip on the whole container**: x('w')('t') = x — signal rows and noise rows, any number of
    polarisations, any lengths -/
theorem call_roundtrip (p : Payload ℝ) : call .t false (call .w false p) = p := by
  obtain ⟨sig, noise⟩ := p
  simp only [call, List.map_map]
  have h : (callRow Dom.t false ∘ callRow Dom.w false : List (Cx ℝ) → List (Cx ℝ)) = id := by
    funext xs; exact callRow_t_w xs
  cases noise with
  | none => simp [h]
  | some nz => simp [h, List.map_map]

theorem call_roundtrip' (p : Payload ℝ) : call .w false (call .t false p) = p := by
  obtain ⟨sig, noise⟩ := p
  simp only [call, List.map_map]
  have h : (callRow Dom.w false ∘ callRow Dom.t false : List (Cx ℝ) → List (Cx ℝ)) = id := by
    funext xs; exact callRow_w_t xs
  cases noise with
  | none => simp [h]
  | some nz => simp [h, List.map_map]

/-! ### Parseval per row -/

/-- Σ_k |X_k|² = n · Σ_j |x_j|² for every row of length n ≥ 1 -/
theorem parseval (xs : List (Cx ℝ)) (hn : xs.length ≠ 0) :
    sumSq (dft xs) = (xs.length : ℝ) * sumSq xs := Fourier.sumSq_dft xs hn

/-- the same for the inverse transform: n · Σ|x|² = Σ|X|² with x = idft X -/
theorem parseval_inverse (xs : List (Cx ℝ)) (hn : xs.length ≠ 0) :
    (xs.length : ℝ) * sumSq (idft xs) = sumSq xs := by
  have h := Fourier.sumSq_dft (idft xs) (by rw [length_idft]; exact hn)
  rw [Fourier.dft_idft, length_idft] at h
  exact h.symm

/-! ### shift = pure reordering; the opposite numpy shift recovers the unshifted transform -/

theorem ifftshift_fftshift {α} (xs : List α) : ifftshift (fftshift xs) = xs := Fourier.ifftshift_fftshift xs
theorem fftshift_ifftshift {α} (xs : List α) : fftshift (ifftshift xs) = xs := Fourier.fftshift_ifftshift xs

/-- x('w', shift=True) followed by numpy's ifftshift is x('w'), for EVERY length (odd included) -/
theorem unshift_w (xs : List (Cx ℝ)) : ifftshift (callRow .w true xs) = callRow .w false xs := by
  simp [callRow, Fourier.ifftshift_fftshift]

/-- x('t', shift=True) followed by numpy's fftshift is x('t') -/
theorem unshift_t (xs : List (Cx ℝ)) : fftshift (callRow .t true xs) = callRow .t false xs := by
  simp [callRow, Fourier.fftshift_ifftshift]

/-- a shifted row is a permutation of the unshifted one (nothing lost, nothing duplicated) -/
theorem shift_perm (d : Dom) (xs : List (Cx ℝ)) : (callRow d true xs).Perm (callRow d false xs) := by
  cases d <;> simp only [callRow, if_true, Bool.false_eq_true, if_false, fftshift, ifftshift, rot_eq_rotate] <;>
    exact List.rotate_perm _ _

theorem shift_length (d : Dom) (s : Bool) (xs : List (Cx ℝ)) : (callRow d s xs).length = xs.length := by
  cases d <;> cases s <;> simp [callRow, length_dft, length_idft, length_fftshift, length_ifftshift]

/-! ### signal and noise, and each polarisation, are transformed alike and independently -/

theorem call_rows (d : Dom) (s : Bool) (p : Payload ℝ) :
    (call d s p).sig = p.sig.map (callRow d s) ∧
    (call d s p).noise = p.noise.map (List.map (callRow d s)) := ⟨rfl, rfl⟩

theorem call_noise_iff (d : Dom) (s : Bool) (p : Payload ℝ) : (call d s p).noise.isSome = p.noise.isSome := by
  cases h : p.noise <;> simp [call, h]

theorem call_shape (d : Dom) (s : Bool) (p : Payload ℝ) :
    (call d s p).sig.map List.length = p.sig.map List.length := by
  simp [call, List.map_map, Function.comp_def, shift_length]

/-! ### the frequency axis -/

/-- entry i of `w()` is 2π · (signed fftfreq index) / n · fs -/
theorem wAxis_spec (n : ℕ) (fs : ℝ) (i : ℕ) (hi : i < n) :
    (wAxis n fs)[i]'(by simp [wAxis, length_sidxList, hi]) = 2 * Real.pi * ((sidx n i : ℝ) / n) * fs := by
  simp [wAxis, getElem_sidxList]

/-- signed index: i for the first ⌈n/2⌉ entries, i - n afterwards -/
theorem sidx_spec (n i : ℕ) : sidx n i = if i ≤ (n - 1) / 2 then (i : ℤ) else (i : ℤ) - n := rfl

/-- `w(shift=True)` is the ascending axis 2π·(i - ⌊n/2⌋)·fs/n -/
theorem wAxis_shifted (n : ℕ) (fs : ℝ) :
    fftshift (wAxis n fs) = (List.range n).map (fun i : ℕ => 2 * Real.pi * ((((i : ℤ) - ((n / 2 : ℕ) : ℤ) : ℤ) : ℝ) / n) * fs) := by
  have h : fftshift (wAxis n fs) = (fftshift (sidxList n)).map
      (fun s => ((2 : ℕ) : ℝ) * Transc.pi * (((s : ℤ) : ℝ) / ((n : ℕ) : ℝ)) * fs) := by
    simp only [wAxis, fftshift, rot, List.length_map, List.map_append, List.map_drop, List.map_take]
  rw [h, fftshift_sidxList, List.map_map]
  apply List.map_congr_left
  intro i _
  simp

/-! ### power -/

theorem power_spec (xs : List (Cx ℝ)) : power xs = sumSq xs / (xs.length : ℝ) := rfl

/-! ### linearity: the transform of signal + noise is the sum of the transforms; an unlit row stays unlit -/

/-- `x(domain, shift)` is additive on rows of equal length, shift included: transforming the total field
    (signal + noise) gives the sum of the transformed signal and the transformed noise -/
theorem callRow_add (d : Dom) (s : Bool) (xs ys : List (Cx ℝ)) (h : xs.length = ys.length) :
    callRow d s (addRows xs ys) = addRows (callRow d s xs) (callRow d s ys) := by
  cases d <;> cases s
  · simp only [callRow, Bool.false_eq_true, if_false]; exact dft_add xs ys h
  · simp only [callRow, if_true]
    rw [dft_add xs ys h]
    exact fftshift_addRows _ _ (by rw [length_dft, length_dft, h])
  · simp only [callRow, Bool.false_eq_true, if_false]; exact idft_add xs ys h
  · simp only [callRow, if_true]
    rw [idft_add xs ys h]
    exact ifftshift_addRows _ _ (by rw [length_idft, length_idft, h])

/-- homogeneity (unshifted form): scaling a row by a complex constant scales its transform -/
theorem callRow_scale (d : Dom) (c : Cx ℝ) (xs : List (Cx ℝ)) :
    callRow d false (scaleRow c xs) = scaleRow c (callRow d false xs) := by
  cases d
  · simp only [callRow, Bool.false_eq_true, if_false]; exact dft_scale c xs
  · simp only [callRow, Bool.false_eq_true, if_false]; exact idft_scale c xs

/-- an identically zero row (an unlit polarisation) is mapped to an identically zero row by every transform request -/
theorem callRow_zeroRow (d : Dom) (s : Bool) (n : ℕ) : callRow d s (zeroRow n) = zeroRow n := by
  cases d <;> cases s
  · simp only [callRow, Bool.false_eq_true, if_false]; exact dft_zeroRow n
  · simp only [callRow, if_true]
    rw [dft_zeroRow]
    exact rot_replicate _ _ _
  · simp only [callRow, Bool.false_eq_true, if_false]; exact idft_zeroRow n
  · simp only [callRow, if_true]
    rw [idft_zeroRow]
    exact rot_replicate _ _ _

/-- the power of an unlit row is exactly 0 (never NaN) for every positive length -/
theorem power_zeroRow (n : ℕ) (_hn : n ≠ 0) : power (zeroRow n) = 0 := by  -- guard kept: for n = 0 the real code divides 0 by 0
  have h : ∀ m : ℕ, sumSq (List.replicate m (czero : Cx ℝ)) = 0 := by
    intro m
    induction m with
    | zero => simp [sumSq]
    | succ m ih =>
      rw [List.replicate_succ]
      simp only [sumSq, ih]
      simp [czero, Cx.normSq]
  simp [power, zeroRow, h]

/-! ### non-vacuity: a concrete odd-length instance -/

example : (fftshift [0, 1, 2, 3, 4] : List ℕ) = [3, 4, 0, 1, 2] := by decide
example : (ifftshift [3, 4, 0, 1, 2] : List ℕ) = [0, 1, 2, 3, 4] := by decide
example : sidxList 5 = [0, 1, 2, -2, -1] := by decide
example : sidxList 4 = [0, 1, -2, -1] := by decide
example : ([⟨1, 0⟩, ⟨0, 2⟩, ⟨-1, 1⟩, ⟨3, 3⟩, ⟨0, 0⟩] : List (Cx ℝ)).length ≠ 0 := by simp

end OptiVerif.Props.C02
