/-
C07 — linear propagation (DM, FIBER with gamma = 0) is an exact all-pass, additive in length.
Theorems about `Model/Fiber.lean` at ℝ (the driver runs the same definitions at Float against DM / FIBER).
Constants (4.343, 1e-12, 1e-24) are translated from the source into `Gen/FiberConst.lean`.
-/
import OptiVerif.Lemmas.Fiber
import OptiVerif.Lemmas.FourierLinear

namespace OptiVerif.Props.C07
open OptiVerif OptiVerif.Fourier OptiVerif.Fiber

/-! ### the translated constants -/

theorem constants_documented :
    Gen.FiberConst.kappa = 4343 / 1000 ∧ Gen.FiberConst.wConv = 1 / 10^12 ∧ Gen.FiberConst.dConv = 1 / 10^24 := by
  refine ⟨rfl, ?_, ?_⟩ <;> decide +kernel

/-- DM's ps² → s² factor is the square of FIBER's rad/s → rad/ps factor -/
theorem units_consistent : Gen.FiberConst.dConv = Gen.FiberConst.wConv * Gen.FiberConst.wConv := by
  decide +kernel

/-! ### DM -/

/-- |H(w)| = 1 at every frequency, for every D -/
theorem dm_allpass (dConv : ℝ) (w : List ℝ) (D : ℝ) : ∀ h ∈ dmH dConv w D, h.normSq = 1 := by
  intro h hh
  simp only [dmH, List.mem_map] at hh
  obtain ⟨wk, _, rfl⟩ := hh
  exact Cx.normSq_cis _

theorem dm_length (dConv fs D : ℝ) (xs : List (Cx ℝ)) : (dmRow dConv fs D xs).length = xs.length := by
  apply length_applyH
  simp [dmH, length_wAxis]

/-- DM conserves the energy of every row exactly -/
theorem dm_energy (dConv fs D : ℝ) (xs : List (Cx ℝ)) : sumSq (dmRow dConv fs D xs) = sumSq xs := by
  have := sumSq_applyH 1 (dmH dConv (wAxis xs.length fs) D) xs (by simp [dmH, length_wAxis]) (dm_allpass _ _ _)
  simpa [dmRow] using this

theorem dmH_mul (dConv : ℝ) (w : List ℝ) (D1 D2 : ℝ) :
    List.zipWith (· * ·) (dmH dConv w D1) (dmH dConv w D2) = dmH dConv w (D1 + D2) := by
  simp only [dmH, zipWith_map_map]
  apply List.map_congr_left
  intro wk _
  rw [Cx.cis_mul]
  congr 1
  simp only [Nat.cast_ofNat]
  ring

/-- DM(D1) after DM(D2) = DM(D1 + D2) -/
theorem dm_add (dConv fs D1 D2 : ℝ) (xs : List (Cx ℝ)) :
    dmRow dConv fs D1 (dmRow dConv fs D2 xs) = dmRow dConv fs (D1 + D2) xs := by
  simp only [dmRow, dm_length]
  have : (applyH (dmH dConv (wAxis xs.length fs) D2) xs).length = xs.length :=
    length_applyH _ _ (by simp [dmH, length_wAxis])
  rw [this, applyH_applyH, dmH_mul, add_comm]

theorem dm_zero (dConv fs : ℝ) (xs : List (Cx ℝ)) : dmRow dConv fs 0 xs = xs := by
  apply applyH_ones
  · simp [dmH, length_wAxis]
  · intro h hh
    simp only [dmH, List.mem_map] at hh
    obtain ⟨wk, _, rfl⟩ := hh
    simp [Cx.cis]

/-- DM(-D) undoes DM(D) -/
theorem dm_inv (dConv fs D : ℝ) (xs : List (Cx ℝ)) : dmRow dConv fs (-D) (dmRow dConv fs D xs) = xs := by
  rw [dm_add]
  simp [dm_zero]

/-- `retH` describes the filter actually applied: un-shifting the returned response gives the applied H -/
theorem dm_retH_matches (dConv : ℝ) (n : ℕ) (fs D : ℝ) :
    ifftshift (dmRetH dConv n fs D) = dmH dConv (wAxis n fs) D := by
  simp [dmRetH, Fourier.ifftshift_fftshift]

/-! ### FIBER, gamma = 0 -/

theorem fiber_length (wConv kappa fs alpha b2 b3 L : ℝ) (xs : List (Cx ℝ)) :
    (fiberLinRow wConv kappa fs alpha b2 b3 L xs).length = xs.length := by
  apply length_applyH
  simp [fiberH, length_wAxis]

/-- the power leaving the fibre is exp(-alpha' L) times the input power, alpha' = alpha/kappa, in every row
    (dispersion of any order and sign does not change it) -/
theorem fiber_loss (wConv kappa fs alpha b2 b3 L : ℝ) (xs : List (Cx ℝ)) :
    sumSq (fiberLinRow wConv kappa fs alpha b2 b3 L xs) = Real.exp (-(alpha / kappa) * L) * sumSq xs := by
  apply sumSq_applyH
  · simp [fiberH, length_wAxis]
  · intro h hh
    simp only [fiberH, List.mem_map] at hh
    obtain ⟨wk, _, rfl⟩ := hh
    rw [Cx.normSq_exp]
    congr 1
    simp only [Nat.cast_ofNat]
    ring

theorem fiberH_mul (wConv : ℝ) (w : List ℝ) (a b2 b3 L1 L2 : ℝ) :
    List.zipWith (· * ·) (fiberH wConv w a b2 b3 L1) (fiberH wConv w a b2 b3 L2) = fiberH wConv w a b2 b3 (L1 + L2) := by
  simp only [fiberH, zipWith_map_map]
  apply List.map_congr_left
  intro wk _
  rw [Cx.exp_mul]
  congr 1
  apply Cx.ext' <;> simp <;> ring

/-- two spans in sequence = one span of the summed length -/
theorem fiber_span_add (wConv kappa fs alpha b2 b3 L1 L2 : ℝ) (xs : List (Cx ℝ)) :
    fiberLinRow wConv kappa fs alpha b2 b3 L2 (fiberLinRow wConv kappa fs alpha b2 b3 L1 xs)
      = fiberLinRow wConv kappa fs alpha b2 b3 (L1 + L2) xs := by
  simp only [fiberLinRow]
  have : (applyH (fiberH wConv (wAxis xs.length fs) (alpha / kappa) b2 b3 L1) xs).length = xs.length :=
    length_applyH _ _ (by simp [fiberH, length_wAxis])
  rw [this, applyH_applyH, fiberH_mul]

/-- FIBER(L, beta2) with alpha = beta3 = 0 is DM(beta2 · L) — including the unit conversions -/
theorem fiber_eq_dm (wConv dConv kappa fs b2 L : ℝ) (hunits : dConv = wConv * wConv) (xs : List (Cx ℝ)) :
    fiberLinRow wConv kappa fs 0 b2 0 L xs = dmRow dConv fs (b2 * L) xs := by
  simp only [fiberLinRow, dmRow]
  congr 1
  simp only [fiberH, dmH]
  apply List.map_congr_left
  intro wk _
  simp only [Cx.exp, Cx.smul, Cx.cis, Transc.exp_real, Transc.cos_real, Transc.sin_real, hunits, Nat.cast_ofNat]
  have e0 : -(0 / kappa / 2) * L = 0 := by ring
  have e1 : (-(b2 / 2 * (wk * wConv * (wk * wConv))) - 0 / 6 * (wk * wConv * (wk * wConv) * (wk * wConv))) * L
      = -(wk * wk * (b2 * L * (wConv * wConv)) / 2) := by ring
  rw [e0, e1, Real.exp_zero, one_mul, one_mul]

/-- with the constants found in the source, FIBER(L, beta2) = DM(beta2 L) -/
theorem fiber_eq_dm_source (kappa fs b2 L : ℝ) (xs : List (Cx ℝ)) :
    fiberLinRow ((Gen.FiberConst.wConv : ℚ) : ℝ) kappa fs 0 b2 0 L xs
      = dmRow ((Gen.FiberConst.dConv : ℚ) : ℝ) fs (b2 * L) xs := by
  apply fiber_eq_dm
  rw [units_consistent]
  push_cast
  ring

/-! ### every row (polarisation) is filtered independently, shape preserved -/

theorem rows_independent (f : List (Cx ℝ) → List (Cx ℝ)) (rows : List (List (Cx ℝ)))
    (hlen : ∀ r, (f r).length = r.length) :
    (rows.map f).map List.length = rows.map List.length := by
  simp [List.map_map, Function.comp_def, hlen]

/-! ### whole containers: every polarisation alike, noise handed through -/

/-- `DM` leaves the noise component exactly as it was (its `fft`/`ifft` round trip is the identity, C02) and keeps its
    presence; every signal row is filtered by the same response -/
theorem dm_container (dConv fs D : ℝ) (p : Payload ℝ) :
    (dmPayload dConv fs D p).noise = p.noise ∧ (dmPayload dConv fs D p).sig = p.sig.map (dmRow dConv fs D) := by
  refine ⟨?_, rfl⟩
  cases h : p.noise with
  | none => simp [dmPayload, h]
  | some nz =>
    simp only [dmPayload, h, Option.map_some]
    congr 1
    conv_rhs => rw [← List.map_id nz]
    apply List.map_congr_left
    intro r _
    simp [Fourier.idft_dft]

/-- energy conservation and invertibility lift to containers: per polarisation, with the noise untouched -/
theorem dm_container_energy (dConv fs D : ℝ) (p : Payload ℝ) :
    (dmPayload dConv fs D p).sig.map sumSq = p.sig.map sumSq := by
  simp [dmPayload, List.map_map, Function.comp_def, dm_energy]

theorem dm_container_inv (dConv fs D : ℝ) (p : Payload ℝ) :
    dmPayload dConv fs (-D) (dmPayload dConv fs D p) = p := by
  obtain ⟨sig, noise⟩ := p
  have h1 : (sig.map (dmRow dConv fs D)).map (dmRow dConv fs (-D)) = sig := by
    rw [List.map_map]
    conv_rhs => rw [← List.map_id sig]
    apply List.map_congr_left
    intro r _
    simp [dm_inv]
  have h2 := (dm_container dConv fs (-D) (dmPayload dConv fs D ⟨sig, noise⟩)).1
  have h3 := (dm_container dConv fs D ⟨sig, noise⟩).1
  simp only [dmPayload] at *
  simp only [h1]
  congr 1
  rw [h2, h3]

theorem fiber_container (wConv kappa fs alpha b2 b3 L : ℝ) (p : Payload ℝ) :
    (fiberLinPayload wConv kappa fs alpha b2 b3 L p).noise = p.noise ∧
    (fiberLinPayload wConv kappa fs alpha b2 b3 L p).sig.map List.length = p.sig.map List.length := by
  refine ⟨rfl, ?_⟩
  simp [fiberLinPayload, List.map_map, Function.comp_def, fiber_length]

/-! ### linear in the field: superposition, and an unlit polarisation stays exactly dark -/

/-- DM of a sum of two fields of equal length is the sum of the DM outputs -/
theorem dm_superposition (dConv fs D : ℝ) (xs ys : List (Cx ℝ)) (h : xs.length = ys.length) :
    dmRow dConv fs D (addRows xs ys) = addRows (dmRow dConv fs D xs) (dmRow dConv fs D ys) := by
  unfold dmRow
  rw [length_addRows xs ys h, ← h]
  exact applyH_add _ xs ys h (by simp [dmH, length_wAxis])

/-- the linear fibre obeys superposition as well -/
theorem fiber_superposition (wConv kappa fs alpha b2 b3 L : ℝ) (xs ys : List (Cx ℝ)) (h : xs.length = ys.length) :
    fiberLinRow wConv kappa fs alpha b2 b3 L (addRows xs ys)
      = addRows (fiberLinRow wConv kappa fs alpha b2 b3 L xs) (fiberLinRow wConv kappa fs alpha b2 b3 L ys) := by
  unfold fiberLinRow
  rw [length_addRows xs ys h, ← h]
  exact applyH_add _ xs ys h (by simp [fiberH, length_wAxis])

/-- an unlit polarisation (identically zero row) leaves DM identically zero: no NaN, no leakage -/
theorem dm_dark_row (dConv fs D : ℝ) (n : ℕ) : dmRow dConv fs D (zeroRow n) = zeroRow n := by
  unfold dmRow
  have hl : (zeroRow n).length = n := by simp [zeroRow]
  rw [hl]
  exact applyH_zeroRow _ n (by simp [dmH, length_wAxis])

/-- and leaves the linear fibre identically zero -/
theorem fiber_dark_row (wConv kappa fs alpha b2 b3 L : ℝ) (n : ℕ) :
    fiberLinRow wConv kappa fs alpha b2 b3 L (zeroRow n) = zeroRow n := by
  unfold fiberLinRow
  have hl : (zeroRow n).length = n := by simp [zeroRow]
  rw [hl]
  exact applyH_zeroRow _ n (by simp [fiberH, length_wAxis])

/-! ### non-vacuity -/
example : ∃ xs : List (Cx ℝ), xs.length = 3 ∧ sumSq (dmRow 1 1 5 xs) = sumSq xs :=
  ⟨[⟨1, 0⟩, ⟨0, 2⟩, ⟨-1, 1⟩], rfl, dm_energy _ _ _ _⟩

end OptiVerif.Props.C07
