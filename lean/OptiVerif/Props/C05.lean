/-
C05 — DAC waveforms are slot-exact and SAMPLER inverts them; argument validation.
Property theorems only (helper lemmas live in Lemmas/Dac.lean).  The model (`Dac.dac`, `Dac.sampler`, `Dac.validate`)
is built on `Gen/DacLimits.lean`, which the translator regenerates from `/repo/opticomlib/devices.py` on every run.
The Gaussian branch is modelled generically (`Model/DacGauss.lean`, constants and the formula of `k` from `Gen/DacGauss.lean`);
the theorems below are about the continuous prototype pulse, the impulse train and the (linear) convolution.  What stays
oracle-only is the DISCRETISATION: the pulse sampled on `linspace(-4·sps, 4·sps, 8·sps)`, the average of two impulses one sample
apart, and the truncation at ±4·sps (sampled peak position, 5 % height, ±1-sample width).
-/
import OptiVerif.Lemmas.Dac
import OptiVerif.Lemmas.DacGauss

namespace OptiVerif.Props.C05
open OptiVerif OptiVerif.Dac OptiVerif.Gen.DacLimits

/-! ### the translated limits are the documented ones -/

/-- `Vout` and `bias` are rejected exactly when `|·| ≥ 48` (48 V is the limit written in the source) -/
theorem level_limits_documented (v : ℚ) :
    (voutBad v = true ↔ 48 ≤ |v|) ∧ (biasBad v = true ↔ 48 ≤ |v|) := by
  simp [voutBad, biasBad, ratAbs_eq_abs]

/-- `T` is rejected exactly outside `0 < T ≤ 2·sps`, `m` exactly when `m ≤ 0` -/
theorem gauss_limits_documented (v sps : ℤ) :
    (tBad v sps = true ↔ ¬ (0 < v ∧ v ≤ 2 * sps)) ∧ (mBad v = true ↔ ¬ 1 ≤ v) := by
  simp only [tBad, mBad, Bool.or_eq_true, decide_eq_true_eq]
  constructor <;> constructor <;> intro h <;> omega

/-- the RZ pulse occupies the first `sps // 2` samples of a slot -/
theorem rzDuty_documented (sps : ℕ) : rzDuty sps = sps / 2 := rfl

/-- pulse-shape names, accepted types, kwargs defaults and exception classes found in the source -/
theorem tables_documented :
    nrzNames = ["rect", "nrz", "NRZ"] ∧ rzNames = ["rz", "RZ"] ∧ gaussNames = ["gaussian", "GAUSSIAN"] ∧
    cTypes = ["int", "float"] ∧ mTypes = ["int"] ∧ tTypes = ["int"] ∧
    voutTypes = ["int", "float"] ∧ biasTypes = ["int", "float"] ∧ cDefault = 0 ∧ mDefault = 1 ∧
    unknownShapeErr = .ValueError ∧
    cTypeErr = .TypeError ∧ mTypeErr = .TypeError ∧ tTypeErr = .TypeError ∧ voutTypeErr = .TypeError ∧
    biasTypeErr = .TypeError ∧
    mBadErr = .ValueError ∧ tBadErr = .ValueError ∧ voutBadErr = .ValueError ∧ biasBadErr = .ValueError := by
  refine ⟨rfl, rfl, rfl, rfl, rfl, rfl, rfl, rfl, ?_, rfl, rfl, rfl, rfl, rfl, rfl, rfl, rfl, rfl, rfl, rfl⟩
  simp [cDefault]

/-! ### what an accepted request computes -/

/-- **length**: an accepted `DAC(bits)` has exactly `len(bits)·sps` samples (NRZ and RZ) -/
theorem len_dac {bits sh sps c m T vout bias y}
    (h : dac bits (some sh) sps c m T vout bias = .ok (some y)) : y.length = bits.length * sps := by
  obtain ⟨x, hw, rfl, _⟩ := dac_ok h
  cases sh with
  | nrz => simp only [wave, Option.some.injEq] at hw; subst hw; simp [scale, length_kron]
  | rz =>
    simp only [wave, Option.some.injEq] at hw; subst hw
    simp [scale, length_kron, length_tile, length_rzPulse]
  | gauss => simp [wave] at hw

/-- **NRZ**: every sample `i < sps` of slot `j` equals the level of bit `j`
    (`lvl Vout bias b` = `b·Vout + bias`, with `None` meaning "not applied") -/
theorem nrz_slot {bits sps c m T vout bias y}
    (h : dac bits (some .nrz) sps c m T vout bias = .ok (some y))
    (j i : ℕ) (hj : j < bits.length) (hi : i < sps) :
    y[j * sps + i]? = some (lvl vout.toRat? bias.toRat? (bits[j] : ℚ)) := by
  obtain ⟨x, hw, rfl, _⟩ := dac_ok h
  simp only [wave, Option.some.injEq] at hw; subst hw
  simp [scale, getElem?_kron bits sps j i hi, List.getElem?_eq_getElem hj]

/-- **RZ**: the first `sps // 2` samples of slot `j` carry the level of bit `j`, the rest the level of 0
    (odd `sps` included: `sps // 2` is the floor) -/
theorem rz_slot {bits sps c m T vout bias y}
    (h : dac bits (some .rz) sps c m T vout bias = .ok (some y))
    (j i : ℕ) (hj : j < bits.length) (hi : i < sps) :
    y[j * sps + i]? = some (lvl vout.toRat? bias.toRat? (if i < sps / 2 then (bits[j] : ℚ) else 0)) := by
  obtain ⟨x, hw, rfl, _⟩ := dac_ok h
  simp only [wave, Option.some.injEq] at hw; subst hw
  have ht : (tile (rzPulse sps) bits.length)[j * sps + i]? = some (if i < sps / 2 then 1 else 0) := by
    have := getElem?_tile (rzPulse sps) bits.length j i (by rw [length_rzPulse]; exact hi) hj
    rw [length_rzPulse] at this
    rw [this, getElem?_rzPulse sps i hi, rzDuty_documented]
  have hkr : (kron bits sps)[j * sps + i]? = some (bits[j] : ℚ) := by
    rw [getElem?_kron bits sps j i hi, List.getElem?_eq_getElem hj]; rfl
  simp only [scale, List.getElem?_map, List.getElem?_zipWith, hkr, ht]
  split <;> simp

/-- with numeric `Vout` and `bias` the level is the documented `bias + Vout·b` -/
theorem lvl_some (V B x : ℚ) : lvl (some V) (some B) x = B + V * x := by simp [lvl]; ring

/-- **NRZ, documented form**: sample = `bias + Vout·bits[j]` -/
theorem nrz_slot_value {bits sps c m T vout bias y V B}
    (h : dac bits (some .nrz) sps c m T vout bias = .ok (some y))
    (hV : vout.toRat? = some V) (hB : bias.toRat? = some B)
    (j i : ℕ) (hj : j < bits.length) (hi : i < sps) :
    y[j * sps + i]? = some (B + V * (bits[j] : ℚ)) := by
  rw [nrz_slot h j i hj hi, hV, hB, lvl_some]

/-- **RZ, documented form**: `bias + Vout·bits[j]` on the first `sps // 2` samples, `bias` on the rest -/
theorem rz_slot_value {bits sps c m T vout bias y V B}
    (h : dac bits (some .rz) sps c m T vout bias = .ok (some y))
    (hV : vout.toRat? = some V) (hB : bias.toRat? = some B)
    (j i : ℕ) (hj : j < bits.length) (hi : i < sps) :
    y[j * sps + i]? = some (if i < sps / 2 then B + V * (bits[j] : ℚ) else B) := by
  rw [rz_slot h j i hj hi, hV, hB, lvl_some]
  split <;> simp

/-! ### SAMPLER -/

/-- **SAMPLER(x, k)** (0 ≤ k) returns exactly the samples `k, k+sps, k+2·sps, …` of the signal and of the noise,
    and keeps "no noise" as "no noise" -/
theorem sampler_spec {sig noise k sps s n} (hk : 0 ≤ k)
    (h : sampler sig noise k sps = .ok (s, n)) :
    (∀ m, s[m]? = if k.toNat + m * sps < sig.length then sig[k.toNat + m * sps]? else none) ∧
    (noise = none → n = none) ∧
    (∀ nz, noise = some nz → ∃ n', n = some n' ∧
      ∀ m, n'[m]? = if k.toNat + m * sps < nz.length then nz[k.toNat + m * sps]? else none) := by
  unfold sampler at h
  split at h
  · simp at h
  · rename_i hs
    have hs : 0 < sps := Nat.pos_of_ne_zero hs
    dsimp only at h
    split at h
    · simp at h
    · simp only [Except.ok.injEq, Prod.mk.injEq] at h
      obtain ⟨rfl, rfl⟩ := h
      have key : ∀ (xs : List ℚ) (m : ℕ), (slice xs (normStart xs.length k) sps)[m]? =
          if k.toNat + m * sps < xs.length then xs[k.toNat + m * sps]? else none := by
        intro xs m
        rw [getElem?_slice _ _ _ _ hs]
        unfold normStart
        rw [if_neg (show ¬ k < 0 by omega)]
        by_cases hlt : k.toNat ≤ xs.length
        · rw [Nat.min_eq_left hlt]
        · have h1 : ¬ min k.toNat xs.length + m * sps < xs.length := by
            rw [Nat.min_eq_right (by omega)]; omega
          have h2 : ¬ k.toNat + m * sps < xs.length := by omega
          rw [if_neg h1, if_neg h2]
      refine ⟨key sig, ?_, ?_⟩
      · intro hn; subst hn; rfl
      · intro nz hn; subst hn
        exact ⟨_, rfl, key nz⟩

/-- number of samples returned: one per started stride -/
theorem sampler_length {sig noise k sps s n} (hk : 0 ≤ k) (hlt : k.toNat < sig.length)
    (h : sampler sig noise k sps = .ok (s, n)) :
    s.length = (sig.length - k.toNat + sps - 1) / sps := by
  unfold sampler at h
  split at h
  · simp at h
  · rename_i hs
    dsimp only at h
    split at h
    · simp at h
    · simp only [Except.ok.injEq, Prod.mk.injEq] at h
      obtain ⟨rfl, -⟩ := h
      rw [length_slice _ _ _ (Nat.pos_of_ne_zero hs)]
      unfold normStart sliceCount
      rw [if_neg (show ¬ k < 0 by omega), Nat.min_eq_left (by omega), if_neg (by omega)]

/-- **NRZ inverse**: sampling an NRZ waveform at ANY instant `k < sps` returns the level of every bit -/
theorem sampler_dac_nrz {bits sps c m T vout bias y} (k : ℕ) (hk : k < sps)
    (h : dac bits (some .nrz) sps c m T vout bias = .ok (some y)) :
    sampler y none k sps = .ok (bits.map (fun (b : ℕ) => lvl vout.toRat? bias.toRat? (b : ℚ)), none) := by
  have hlen := len_dac h
  have hsl : slice y k sps = bits.map (fun (b : ℕ) => lvl vout.toRat? bias.toRat? (b : ℚ)) := by
    apply slice_slots y bits sps k hk hlen
    intro j hj
    rw [nrz_slot h j k hj hk]
  obtain ⟨_, _, _, hne⟩ := dac_ok h
  have hbits : bits ≠ [] := by
    intro hb; subst hb
    apply hne
    apply List.eq_nil_of_length_eq_zero
    simpa using hlen
  unfold sampler
  have hs : sps ≠ 0 := by omega
  have hst : normStart y.length (k : ℤ) = k := by
    unfold normStart
    rw [if_neg (show ¬ (k : ℤ) < 0 by omega)]
    simp only [Int.toNat_natCast]
    apply Nat.min_eq_left
    rw [hlen]
    have : 1 ≤ bits.length := Nat.pos_of_ne_zero (by simpa using hbits)
    nlinarith
  rw [if_neg hs]
  simp only [hst, hsl, Option.map_none]
  rw [if_neg]
  simpa using hbits

/-- **RZ inverse**: sampling an RZ waveform at any instant inside the pulse (`k < sps // 2`) returns the level of every bit -/
theorem sampler_dac_rz {bits sps c m T vout bias y} (k : ℕ) (hk : k < sps / 2)
    (h : dac bits (some .rz) sps c m T vout bias = .ok (some y)) :
    sampler y none k sps = .ok (bits.map (fun (b : ℕ) => lvl vout.toRat? bias.toRat? (b : ℚ)), none) := by
  have hk' : k < sps := by omega
  have hlen := len_dac h
  have hsl : slice y k sps = bits.map (fun (b : ℕ) => lvl vout.toRat? bias.toRat? (b : ℚ)) := by
    apply slice_slots y bits sps k hk' hlen
    intro j hj
    rw [rz_slot h j k hj hk', if_pos hk]
  obtain ⟨_, _, _, hne⟩ := dac_ok h
  have hbits : bits ≠ [] := by
    intro hb; subst hb
    apply hne
    apply List.eq_nil_of_length_eq_zero
    simpa using hlen
  unfold sampler
  have hs : sps ≠ 0 := by omega
  have hst : normStart y.length (k : ℤ) = k := by
    unfold normStart
    rw [if_neg (show ¬ (k : ℤ) < 0 by omega)]
    simp only [Int.toNat_natCast]
    apply Nat.min_eq_left
    rw [hlen]
    have : 1 ≤ bits.length := Nat.pos_of_ne_zero (by simpa using hbits)
    nlinarith
  rw [if_neg hs]
  simp only [hst, hsl, Option.map_none]
  rw [if_neg]
  simpa using hbits

/-- **decision**: comparing the level `bias + Vout·b` of a bit `b ∈ {0,1}` with `bias + Vout/2` (nearer level, written
    `(x − (bias + Vout/2))·Vout > 0` so that it is valid for negative `Vout` too) returns `b`, for every `Vout ≠ 0` -/
theorem decision_returns_bit (V B : ℚ) (hV : V ≠ 0) (b : ℕ) (hb : b ≤ 1) :
    decideBit V B (lvl (some V) (some B) (b : ℚ)) = b := by
  have hsq : 0 < V * V := mul_self_pos.mpr hV
  unfold decideBit
  rw [lvl_some]
  rcases Nat.le_one_iff_eq_zero_or_eq_one.mp hb with rfl | rfl
  · have : ¬ (B + V * ((0 : ℕ) : ℚ) - (B + V / 2)) * V > 0 := by
      have : (B + V * ((0 : ℕ) : ℚ) - (B + V / 2)) * V = -(V * V) / 2 := by push_cast; ring
      rw [this]; linarith
    rw [if_neg this]
  · have : (B + V * ((1 : ℕ) : ℚ) - (B + V / 2)) * V > 0 := by
      have : (B + V * ((1 : ℕ) : ℚ) - (B + V / 2)) * V = (V * V) / 2 := by push_cast; ring
      rw [this]; linarith
    rw [if_pos this]

/-- **DAC → SAMPLER → decision returns the input bits** (NRZ: any `k < sps`; RZ: `k < sps // 2`),
    for every bit list, every `sps`, every `Vout ≠ 0` and every bias the DAC accepts -/
theorem roundtrip_returns_bits {bits sh sps V B k ds}
    (hk : (sh = .nrz ∧ k < sps) ∨ (sh = .rz ∧ k < sps / 2)) (hV : V ≠ 0)
    (h : roundtrip bits sh sps V B k = .ok ds) : ds = bits := by
  unfold roundtrip at h
  cases hd : dac bits (some sh) sps none none none (.float V) (.float B) with
  | error e => simp [hd, bind, Except.bind] at h
  | ok oy =>
    cases oy with
    | none => simp [hd, bind, Except.bind, throw, throwThe, MonadExceptOf.throw] at h
    | some y =>
      -- the bits are 0/1 because the request was accepted
      have hbits : ∀ b ∈ bits, b ≤ 1 := by
        have hd' := hd
        unfold dac at hd'
        cases hv : validate (bits.all (· ≤ 1)) (some sh) sps none none none (.float V) (.float B) with
        | error e => simp [hv, bind, Except.bind] at hd'
        | ok vb =>
          unfold validate at hv
          by_cases hall : bits.all (· ≤ 1) = true
          · simpa using hall
          · simp [hall, bind, Except.bind, throw, throwThe, MonadExceptOf.throw] at hv
      have hsam : sampler y none k sps = .ok (bits.map (fun (b : ℕ) => lvl (some V) (some B) (b : ℚ)), none) := by
        rcases hk with ⟨rfl, hk⟩ | ⟨rfl, hk⟩
        · exact sampler_dac_nrz k hk hd
        · exact sampler_dac_rz k hk hd
      simp only [hd, bind, Except.bind, hsam, pure, Except.pure, Except.ok.injEq] at h
      subst h
      rw [List.map_map]
      conv_rhs => rw [← List.map_id bits]
      apply List.map_congr_left
      intro b hb
      exact decision_returns_bit V B hV b (hbits b hb)

/-- … and the round trip does succeed on every in-range request (so the theorem above is not vacuous) -/
theorem roundtrip_succeeds {bits sh sps V B k}
    (hk : (sh = .nrz ∧ k < sps) ∨ (sh = .rz ∧ k < sps / 2))
    (hb : ∀ b ∈ bits, b ≤ 1) (hne : bits ≠ []) (hV : |V| < 48) (hB : |B| < 48) :
    ∃ ds, roundtrip bits sh sps V B k = .ok ds := by
  have hall : bits.all (· ≤ 1) = true := by simpa using hb
  have hvb : voutBad V = false := by
    have := (level_limits_documented V).1
    cases hx : voutBad V
    · rfl
    · rw [hx] at this; have := this.mp rfl; linarith
  have hbb : biasBad B = false := by
    have := (level_limits_documented B).2
    cases hx : biasBad B
    · rfl
    · rw [hx] at this; have := this.mp rfl; linarith
  have hsps : sps ≠ 0 := by rcases hk with ⟨_, h⟩ | ⟨_, h⟩ <;> omega
  have hshape : sh = .nrz ∨ sh = .rz := by rcases hk with ⟨h, _⟩ | ⟨h, _⟩ <;> simp [h]
  have hval : validate (bits.all (· ≤ 1)) (some sh) sps none none none (.float V) (.float B)
      = .ok (some V, some B) := by
    rcases hshape with rfl | rfl <;>
    simp [validate, hall, bind, Except.bind, pure, Except.pure, checkLevel, isInst, voutTypes, biasTypes,
      PyVal.toRat?, hvb, hbb]
  have hlen : ∀ x, wave sh bits sps = some x → (scale x (some V) (some B)).isEmpty = false := by
    intro x hx
    have hl : x.length = bits.length * sps := by
      rcases hshape with rfl | rfl
      · simp only [wave, Option.some.injEq] at hx; subst hx; exact length_kron _ _
      · simp only [wave, Option.some.injEq] at hx; subst hx
        simp [length_kron, length_tile, length_rzPulse]
    have : 0 < x.length := by
      rw [hl]
      have : 0 < bits.length := List.length_pos_iff.mpr hne
      positivity
    cases x with
    | nil => simp at this
    | cons a l => simp [scale]
  obtain ⟨x, hx⟩ : ∃ x, wave sh bits sps = some x := by
    rcases hshape with rfl | rfl <;> exact ⟨_, rfl⟩
  have hd : dac bits (some sh) sps none none none (.float V) (.float B) = .ok (some (scale x (some V) (some B))) := by
    unfold dac
    simp only [hval, bind, Except.bind, hx, hlen x hx, pure, Except.pure]
    simp
  have hsam : sampler (scale x (some V) (some B)) none k sps
      = .ok (bits.map (fun (b : ℕ) => lvl (some V) (some B) (b : ℚ)), none) := by
    rcases hk with ⟨rfl, hk⟩ | ⟨rfl, hk⟩
    · exact sampler_dac_nrz k hk hd
    · exact sampler_dac_rz k hk hd
  refine ⟨(bits.map (fun (b : ℕ) => lvl (some V) (some B) (b : ℚ))).map (decideBit V B), ?_⟩
  unfold roundtrip
  simp only [hd, bind, Except.bind, hsam, pure, Except.pure]


/-! ### Gaussian branch: prototype pulse, impulse train, convolution (over ℝ / ℂ) -/

section Gauss
open OptiVerif.DacGauss OptiVerif.Gen.DacGauss

/-- the literals found in the Gaussian branch of the source, and the translated formula of `k` -/
theorem gauss_constants_documented :
    pulseDen = 2 ∧ pulseExpFactor = 2 ∧ spanLo = 4 ∧ spanHi = 4 ∧ pointsPerSps = 8 ∧ convDiv = 2 ∧
    (∀ sps, strideA sps = sps / 2 ∧ strideB sps = sps / 2 - 1) ∧
    (∀ m : ℕ, (kFormula m : ℝ) = 2 * Real.exp (1 / (2 * (m : ℝ)) * Real.log (2 * Real.log 2))) :=
  ⟨rfl, rfl, rfl, rfl, rfl, rfl, fun _ => ⟨rfl, rfl⟩, kFormula_real⟩

/-- the modulus of the prototype `p(t, Tw) = exp(−(1+jc)/2·(t/Tw)^(2m))` is the super-Gaussian `exp(−½·(t/Tw)^(2m))` -/
theorem gauss_modulus (c : ℝ) (m : ℕ) (t Tw : ℝ) :
    cabs (pulseAt c m t Tw) = Real.exp (-(1 / 2) * (t / Tw) ^ (2 * m)) := cabs_pulseAt c m t Tw

/-- **peak**: `|p(0)| = 1` for every order `m ≥ 1`, every width and chirp -/
theorem gauss_peak (c : ℝ) (m : ℕ) (hm : 1 ≤ m) (Tw : ℝ) : cabs (pulseAt c m 0 Tw) = 1 := by
  rw [cabs_pulseAt, zero_div, zero_pow (by omega), mul_zero, Real.exp_zero]

/-- **half maximum at ±T/2**: with the code's `k`, `|p(±T/2, T/k)| = 1/2` for every `m ≥ 1` and `T > 0` —
    the amplitude FWHM of the prototype is exactly `T` -/
theorem gauss_half_at_half_T (c : ℝ) (m : ℕ) (hm : 1 ≤ m) (T : ℝ) (hT : 0 < T) :
    cabs (pulseAt c m (T / 2) (T / kFormula m)) = 1 / 2 ∧ cabs (pulseAt c m (-(T / 2)) (T / kFormula m)) = 1 / 2 := by
  have h := cabs_pulseAt_half c m hm T hT.ne'
  exact ⟨h, by rw [pulseAt_neg]; exact h⟩

/-- **even**: `p(−t) = p(t)` (the complex sample, not only its modulus) -/
theorem gauss_even (c : ℝ) (m : ℕ) (t Tw : ℝ) : pulseAt c m (-t) Tw = pulseAt c m t Tw := pulseAt_neg c m t Tw

/-- **strictly decreasing in |t|** (`m ≥ 1`, positive width) -/
theorem gauss_strict_anti (c : ℝ) (m : ℕ) (hm : 1 ≤ m) (Tw : ℝ) (hT : 0 < Tw) (t₁ t₂ : ℝ) (h : |t₁| < |t₂|) :
    cabs (pulseAt c m t₂ Tw) < cabs (pulseAt c m t₁ Tw) := by
  rw [cabs_pulseAt_abs c m t₁, cabs_pulseAt_abs c m t₂]
  exact cabs_pulseAt_strictAnti c m hm Tw hT (abs_nonneg t₁) (abs_nonneg t₂) h

/-- hence the pulse is above half maximum exactly on `|t| < T/2` -/
theorem gauss_above_half_iff (c : ℝ) (m : ℕ) (hm : 1 ≤ m) (T : ℝ) (hT : 0 < T) (t : ℝ) :
    1 / 2 < cabs (pulseAt c m t (T / kFormula m)) ↔ |t| < T / 2 := by
  have hTw : 0 < T / (kFormula m : ℝ) := div_pos hT (kFormula_pos m)
  have hhalf := (gauss_half_at_half_T c m hm T hT).1
  have hanti := cabs_pulseAt_strictAnti c m hm _ hTw
  have h2 : (T / 2) ∈ Set.Ici (0 : ℝ) := by simp only [Set.mem_Ici]; linarith
  have ht : |t| ∈ Set.Ici (0 : ℝ) := abs_nonneg t
  rw [cabs_pulseAt_abs c m t, ← hhalf]
  constructor
  · intro h
    by_contra hc
    rcases (not_lt.mp hc).lt_or_eq with hlt | heq
    · exact absurd (hanti h2 ht hlt) (not_lt.mpr h.le)
    · rw [heq] at h; exact lt_irrefl _ h
  · intro h
    exact hanti ht h2 h

/-- **the chirp does not change the modulus** -/
theorem gauss_chirp_modulus (c : ℝ) (m : ℕ) (t Tw : ℝ) : cabs (pulseAt c m t Tw) = cabs (pulseAt 0 m t Tw) := by
  rw [cabs_pulseAt, cabs_pulseAt]

/-- **impulse train**: `s` has `len·sps` samples; in slot `q` the two positions `sps//2` and `sps//2 − 1` carry `data[q]`,
    every other position is 0 — for every list and every `sps ≥ 2` -/
theorem impulse_train_spec (data : List ℝ) (sps : ℕ) (hs : 2 ≤ sps) :
    (train data sps).length = data.length * sps ∧
    ∀ q r, q < data.length → r < sps →
      (train data sps)[q * sps + r]? = if r = sps / 2 ∨ r = sps / 2 - 1 then data[q]? else some 0 := by
  refine ⟨length_train data sps, ?_⟩
  intro q r hq hr
  have hj : q * sps + r < data.length * sps := by
    have : (q + 1) * sps ≤ data.length * sps := Nat.mul_le_mul_right _ hq
    have e : (q + 1) * sps = q * sps + sps := by ring
    omega
  have hmod : (q * sps + r) % sps = r := by
    rw [Nat.add_comm, Nat.add_mul_mod_self_right, Nat.mod_eq_of_lt hr]
  have hdiv : (q * sps + r) / sps = q := by
    rw [Nat.add_comm, Nat.add_mul_div_right _ _ (by omega : 0 < sps), Nat.div_eq_of_lt hr, Nat.zero_add]
  rw [getElem?_train data sps hs _ hj, hmod, hdiv]
  rfl

/-- **length**: the Gaussian waveform has `len·sps` samples ("same" keeps the length of the impulse train) -/
theorem gauss_len (data : List ℝ) (sps : ℕ) (c : ℝ) (m T : ℕ) (vout bias : Option ℝ) :
    (DacGauss.scale (core data sps c m T) vout bias).length = data.length * sps := by
  unfold DacGauss.scale
  cases vout <;> cases bias <;> simp [length_core]

/-- **the convolution is the direct sum** `x[i]·2 = Σ_k s[k]·pulse[start + i − k]` with zero padding and scipy's "same" start
    `(len(pulse) − 1)//2` -/
theorem conv_direct_sum (s : List ℝ) (h : List (Cx ℝ)) (i : ℕ) (hi : i < s.length) :
    ∃ z, (convSame s h)[i]? = some z ∧
      z.toC = ∑ k ∈ Finset.range s.length, (optR s[k]? : ℂ) * Hc h ((((h.length - 1) / 2 + i : ℕ) : ℤ) - (k : ℤ)) :=
  convSame_spec s h i hi

/-- **linearity / superposition**: for every slot data, `sps ≥ 2`, `c`, `m`, `T`, sample `i` of the Gaussian waveform is
    `Σ_q data[q]·W(i − q·sps)`, where `W` is the waveform of ONE isolated bit as a function of the offset from its slot start.
    So the waveform of a bit list is the sum of the shifted single-bit waveforms. -/
theorem conv_linear (data : List ℝ) (sps : ℕ) (hs : 2 ≤ sps) (c : ℝ) (m T : ℕ) (i : ℕ) (hi : i < data.length * sps) :
    ∃ z, (core data sps c m T)[i]? = some z ∧
      z.toC = ∑ q ∈ Finset.range data.length,
        (optR data[q]? : ℂ) * W (pulse c m T sps) sps ((i : ℤ) - ((q * sps : ℕ) : ℤ)) :=
  core_superposition data sps hs c m T i hi

/-- an isolated 1 in slot `q₀` gives exactly the shifted single-bit waveform (this is what makes "isolated 1" representative) -/
theorem isolated_one (data : List ℝ) (sps : ℕ) (hs : 2 ≤ sps) (c : ℝ) (m T : ℕ) (q₀ : ℕ) (hq : q₀ < data.length)
    (h1 : data[q₀]? = some 1) (h0 : ∀ q, q ≠ q₀ → q < data.length → data[q]? = some 0)
    (i : ℕ) (hi : i < data.length * sps) :
    ∃ z, (core data sps c m T)[i]? = some z ∧ z.toC = W (pulse c m T sps) sps ((i : ℤ) - ((q₀ * sps : ℕ) : ℤ)) := by
  obtain ⟨z, hz, hsum⟩ := conv_linear data sps hs c m T i hi
  refine ⟨z, hz, ?_⟩
  rw [hsum, Finset.sum_eq_single q₀]
  · simp [h1, optR]
  · intro q hq' hne
    rw [h0 q hne (Finset.mem_range.mp hq')]
    simp [optR]
  · intro h; exact absurd (Finset.mem_range.mpr hq) h

/-! non-vacuity of the hypotheses above -/
example : cabs (pulseAt (3 / 2 : ℝ) 2 (5 / 2) (5 / kFormula 2)) = 1 / 2 :=
  (gauss_half_at_half_T (3 / 2) 2 (by norm_num) 5 (by norm_num)).1
example : cabs (pulseAt (0 : ℝ) 4 1 (8 / kFormula 4)) > 1 / 2 :=
  (gauss_above_half_iff 0 4 (by norm_num) 8 (by norm_num) 1).mpr (by norm_num)
example : (train ([0, 1, 1] : List ℝ) 4)[1 * 4 + 1]? = some (1 : ℝ) := by
  rw [(impulse_train_spec ([0, 1, 1] : List ℝ) 4 (by norm_num)).2 1 1 (by simp) (by norm_num)]; simp
example : ∃ z, (core ([0, 1, 0] : List ℝ) 4 (0 : ℝ) 1 4)[5]? = some z ∧
    z.toC = W (pulse (0 : ℝ) 1 4 4) 4 ((5 : ℤ) - ((1 * 4 : ℕ) : ℤ)) :=
  isolated_one ([0, 1, 0] : List ℝ) 4 (by norm_num) 0 1 4 1 (by simp) (by simp)
    (by intro q hne hq; have : q = 0 ∨ q = 2 := by simp at hq; omega
        rcases this with rfl | rfl <;> simp) 5 (by simp)

end Gauss

/-! ### validation: exact accept / TypeError / ValueError table -/

/-- accepted as a scalar by `isinstance(·, (int, float))`: Python `int`, `bool`, `float`, `numpy.float64` -/
def numLike : PyVal → Bool
  | .int _ | .bool _ | .float _ | .npfloat _ => true
  | _ => false

/-- accepted by `isinstance(·, int)`: Python `int`, `bool` -/
def intLike : PyVal → Bool
  | .int _ | .bool _ => true
  | _ => false

/-- documented rule for `Vout` / `bias`: `None` skips; non-scalars → TypeError; `|·| ≥ 48` → ValueError -/
def levelSpec (v : PyVal) : Except Wire.Err Unit :=
  if v = .pynone then .ok ()
  else if !numLike v then .error .TypeError
  else match v.toRat? with
    | some q => if 48 ≤ |q| then .error .ValueError else .ok ()
    | none => .error .TypeError

/-- documented rule for an integer keyword with admissible range `ok` -/
def intKwSpec (v : PyVal) (ok : ℤ → Prop) [DecidablePred ok] : Except Wire.Err Unit :=
  if !intLike v then .error .TypeError
  else match v.toInt? with
    | some n => if ok n then .ok () else .error .ValueError
    | none => .ok ()

/-- first failing check decides -/
def andThen (a b : Except Wire.Err Unit) : Except Wire.Err Unit :=
  match a with
  | .error e => .error e
  | .ok _ => b

/-- documented rule of the Gaussian keywords: `c` scalar, `m` int ≥ 1, `T` int with `0 < T ≤ 2·sps` (defaults 0, 1, sps) -/
def gaussSpec (sps : ℕ) (c m T : Option PyVal) : Except Wire.Err Unit :=
  if !numLike (c.getD (.float 0)) then .error .TypeError else
    andThen (intKwSpec (m.getD (.int 1)) (fun n => 1 ≤ n))
      (intKwSpec (T.getD (.int sps)) (fun n => 0 < n ∧ n ≤ 2 * (sps : ℤ)))

/-- the documented decision table, written independently of the generated constants -/
def spec (bitsOk : Bool) (shape : Option Shape) (sps : ℕ) (c m T : Option PyVal) (vout bias : PyVal) :
    Except Wire.Err Unit :=
  if !bitsOk then .error .ValueError else
  match shape with
  | none => .error .ValueError
  | some sh => andThen (if sh = .gauss then gaussSpec sps c m T else .ok ()) (andThen (levelSpec vout) (levelSpec bias))


theorem checkIntKw_m (v : PyVal) :
    checkIntKw v mTypes mTypeErr mBad mBadErr = intKwSpec v (fun n => 1 ≤ n) := by
  have hm : ∀ n, mBad n = !decide (1 ≤ n) := by
    intro n
    have := (gauss_limits_documented n 0).2
    by_cases h : 1 ≤ n <;> simp [h] <;> simpa [h] using this
  cases v <;> simp [checkIntKw, intKwSpec, isInst, intLike, mTypes, PyVal.toInt?, mTypeErr, mBadErr, hm] <;>
    split_ifs <;> first | rfl | omega

theorem checkIntKw_T (v : PyVal) (sps : ℕ) :
    checkIntKw v tTypes tTypeErr (fun t => tBad t sps) tBadErr = intKwSpec v (fun n => 0 < n ∧ n ≤ 2 * (sps : ℤ)) := by
  have ht : ∀ n, tBad n sps = !decide (0 < n ∧ n ≤ 2 * (sps : ℤ)) := by
    intro n
    have := (gauss_limits_documented n sps).1
    by_cases h : 0 < n ∧ n ≤ 2 * (sps : ℤ) <;> simp only [h, decide_false, Bool.not_false]
    · cases hx : tBad n sps
      · rfl
      · exact absurd h (this.mp hx)
    · exact this.mpr h
  cases v <;> simp only [checkIntKw, intKwSpec, isInst, intLike, tTypes, PyVal.toInt?, tTypeErr, tBadErr, ht] <;>
    simp <;> split_ifs <;> first | rfl | omega

theorem checkGauss_spec (sps : ℕ) (c m T : Option PyVal) :
    checkGauss sps c m T = gaussSpec sps c m T := by
  unfold checkGauss gaussSpec
  simp only [checkIntKw_m, checkIntKw_T, bind, Except.bind, throw, throwThe, MonadExceptOf.throw]
  have hc : ∀ v : PyVal, isInst v cTypes = numLike v := by intro v; cases v <;> rfl
  have hd : cDefault = 0 := by simp [cDefault]
  have hmd : mDefault = 1 := rfl
  rw [hc, hd, hmd, cTypeErr]
  cases numLike (c.getD (.float 0)) <;> simp
  cases intKwSpec (m.getD (.int 1)) (fun n => 1 ≤ n) <;> rfl

theorem level_aux (q : ℚ) (bad : ℚ → Bool) (hbad : ∀ q, bad q = true ↔ 48 ≤ |q|) :
    ((if bad q = true then Except.error Wire.Err.ValueError else Except.ok (some q) :
      Except Wire.Err (Option ℚ)).map fun _ => ()) =
    if 48 ≤ |q| then Except.error Wire.Err.ValueError else Except.ok () := by
  by_cases h : 48 ≤ |q|
  · simp [(hbad q).mpr h, h, Except.map]
  · have : bad q = false := by
      cases hx : bad q
      · rfl
      · exact absurd ((hbad q).mp hx) h
    simp [this, h, Except.map]

theorem checkLevel_spec (v : PyVal) :
    ((checkLevel v voutTypes voutTypeErr voutBad voutBadErr).map fun _ => ()) = levelSpec v ∧
    ((checkLevel v biasTypes biasTypeErr biasBad biasBadErr).map fun _ => ()) = levelSpec v := by
  have hv := fun q => (level_limits_documented q).1
  have hb := fun q => (level_limits_documented q).2
  constructor
  · cases v
    case int n => exact level_aux _ _ hv
    case bool n => exact level_aux _ _ hv
    case float n => exact level_aux _ _ hv
    case npfloat n => exact level_aux _ _ hv
    all_goals rfl
  · cases v
    case int n => exact level_aux _ _ hb
    case bool n => exact level_aux _ _ hb
    case float n => exact level_aux _ _ hb
    case npfloat n => exact level_aux _ _ hb
    all_goals rfl

theorem pair_map {α β : Type} (G : Except Wire.Err Unit) (A : Except Wire.Err α) (B : Except Wire.Err β) :
    ((do G; let a ← A; let b ← B; pure (a, b) : Except Wire.Err (α × β)).map fun _ => ()) =
      andThen G (andThen (A.map fun _ => ()) (B.map fun _ => ())) := by
  cases G <;> cases A <;> cases B <;> rfl

/-- **validate_spec**: the ladder found in the source decides exactly the documented table -/
theorem validate_spec (bitsOk : Bool) (shape : Option Shape) (sps : ℕ) (c m T : Option PyVal) (vout bias : PyVal) :
    ((validate bitsOk shape sps c m T vout bias).map fun _ => ()) = spec bitsOk shape sps c m T vout bias := by
  cases bitsOk
  · rfl
  · cases shape with
    | none => rfl
    | some sh =>
      have key : validate true (some sh) sps c m T vout bias =
          (do (match sh with | .gauss => checkGauss sps c m T | _ => pure ())
              let a ← checkLevel vout voutTypes voutTypeErr voutBad voutBadErr
              let b ← checkLevel bias biasTypes biasTypeErr biasBad biasBadErr
              pure (a, b)) := by
        cases sh <;> rfl
      rw [key, pair_map, (checkLevel_spec vout).1, (checkLevel_spec bias).2]
      cases sh
      · rfl
      · rfl
      · simp only [checkGauss_spec]; rfl

/-- anything the DAC accepts has `|Vout| < 48` and `|bias| < 48` -/
theorem accepted_levels_in_range {bitsOk shape sps c m T vout bias v b}
    (h : validate bitsOk shape sps c m T vout bias = .ok (v, b)) :
    (∀ V, v = some V → |V| < 48) ∧ (∀ B, b = some B → |B| < 48) := by
  have hs := validate_spec bitsOk shape sps c m T vout bias
  rw [h] at hs
  obtain ⟨rfl, rfl⟩ := validate_ok h
  have hl : ∀ w : PyVal, ∀ q, w.toRat? = some q → levelSpec w = .ok () → |q| < 48 := by
    intro w q hq hw
    unfold levelSpec at hw
    cases w <;> simp_all [PyVal.toRat?, numLike]
  cases bitsOk
  · simp [spec, Except.map] at hs
  · cases shape with
    | none => simp [spec, Except.map] at hs
    | some sh =>
      simp only [spec, Except.map, Bool.not_true, Bool.false_eq_true, if_false] at hs
      have h2 : levelSpec vout = .ok () ∧ levelSpec bias = .ok () := by
        revert hs
        cases (if sh = Shape.gauss then gaussSpec sps c m T else Except.ok ()) <;>
          cases levelSpec vout <;> cases levelSpec bias <;> simp [andThen]
      exact ⟨fun V hV => hl vout V hV h2.1, fun B hB => hl bias B hB h2.2⟩

/-- an unknown pulse shape (or a non-string) is rejected with ValueError whatever the other arguments are -/
theorem unknown_shape_rejected (sps : ℕ) (c m T : Option PyVal) (vout bias : PyVal) :
    validate true none sps c m T vout bias = .error .ValueError := rfl

/-- a `Vout` that is not an int/float instance (str, complex, list, numpy integer) is a TypeError (NRZ/RZ) -/
theorem vout_wrong_type_rejected (sh : Shape) (hsh : sh ≠ .gauss) (sps : ℕ) (c m T : Option PyVal) (vout bias : PyVal)
    (hv : vout = .complex ∨ vout = .str ∨ vout = .list ∨ ∃ n, vout = .npint n) :
    validate true (some sh) sps c m T vout bias = .error .TypeError := by
  rcases hv with rfl | rfl | rfl | ⟨n, rfl⟩ <;> cases sh <;> first | exact absurd rfl hsh | rfl

/-- a numeric `Vout` with `|Vout| ≥ 48` is a ValueError (NRZ/RZ) -/
theorem vout_out_of_range_rejected (sh : Shape) (hsh : sh ≠ .gauss) (sps : ℕ) (c m T : Option PyVal) (q : ℚ)
    (bias : PyVal) (hq : 48 ≤ |q|) :
    validate true (some sh) sps c m T (.float q) bias = .error .ValueError := by
  have hb : voutBad q = true := (level_limits_documented q).1.mpr hq
  cases sh <;> first
    | exact absurd rfl hsh
    | simp [validate, bind, Except.bind, checkLevel, isInst, voutTypes, PyVal.toRat?, hb, voutBadErr]

/-! ### concrete instances (tests, not theorems) -/

example : dac [0, 1, 1, 0] (some .rz) 5 none none none (.float (-5/2)) (.float (1/4)) =
    .ok (some [1/4, 1/4, 1/4, 1/4, 1/4, -9/4, -9/4, 1/4, 1/4, 1/4, -9/4, -9/4, 1/4, 1/4, 1/4, 1/4, 1/4, 1/4, 1/4, 1/4]) := by
  decide +kernel
example : roundtrip [0, 1, 1, 0, 1] .rz 5 (-5/2) (1/4) 1 = .ok [0, 1, 1, 0, 1] := by decide +kernel
example : roundtrip [0, 1, 1, 0, 1] .rz 5 (-5/2) (1/4) 2 = .ok [0, 0, 0, 0, 0] := by decide +kernel  -- outside the pulse
example : sampler [0, 1, 2, 3, 4, 5, 6] (some [0, 10, 20, 30, 40, 50, 60]) 1 3 = .ok ([1, 4], some [10, 40]) := by
  decide +kernel
example : validate true (some .gauss) 8 none (some (.int 0)) none (.int 1) (.int 0) = .error .ValueError := by
  decide +kernel
example : validate true (some .gauss) 8 none none (some (.int 17)) (.int 1) (.int 0) = .error .ValueError := by
  decide +kernel
example : validate true (some .gauss) 8 none none (some (.int 16)) (.int 1) (.int 0) = .ok (some 1, some 0) := by
  decide +kernel
example : validate true (some .nrz) 8 none none none (.int 48) (.int 0) = .error .ValueError := by decide +kernel

end OptiVerif.Props.C05
