#!/usr/bin/env python3
"""Markdown table of the behaviour-preserving refactorings (harmless/*/meta.json) for DESIGN.md §13; --write replaces it in place."""
import json, os, sys
VERIF = os.path.abspath(os.path.join(os.path.dirname(__file__), ".."))
rows, tally = [], {}
for d in sorted(os.listdir(os.path.join(VERIF, "harmless"))):
    mp = os.path.join(VERIF, "harmless", d, "meta.json")
    if not os.path.exists(mp):
        continue
    m = json.load(open(mp))
    r = m.get("our_check", {})
    title = (m.get("title") or m.get("summary") or m.get("change") or m.get("description") or "")
    if isinstance(title, list):
        title = "; ".join(map(str, title))
    title = str(title).replace("|", "/").replace("\n", " ")[:150]
    why = " ".join(x.strip() for x in r.get("summary", [])[1:]).replace("|", "/")[:140]
    out = r.get("outcome", "?")
    tally[out.split(" ")[0]] = tally.get(out.split(" ")[0], 0) + 1
    rows.append(f"| {d} | {title} | {out} | {why} |")
hdr = "| refactoring | what | outcome of the quick check | what no longer checked |\n|---|---|---|---|\n"
txt = hdr + "\n".join(rows) + "\n\nTally: " + ", ".join(f"{k}: {v}" for k, v in sorted(tally.items())) + "\n"
if "--write" in sys.argv:
    p = os.path.join(VERIF, "DESIGN.md")
    s = open(p).read()
    a = s.index("<!-- HARMLESS-TABLE-BEGIN"); a = s.index("\n", a) + 1
    b = s.index("<!-- HARMLESS-TABLE-END -->")
    open(p, "w").write(s[:a] + txt + s[b:])
else:
    print(txt)
