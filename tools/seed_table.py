#!/usr/bin/env python3
"""Prints the markdown table of seeded changes (seeded/*/meta.json) for DESIGN.md §12."""
import json, os
VERIF = os.path.abspath(os.path.join(os.path.dirname(__file__), ".."))
rows = []
for d in sorted(os.listdir(os.path.join(VERIF, "seeded"))):
    mp = os.path.join(VERIF, "seeded", d, "meta.json")
    if not os.path.exists(mp):
        continue
    m = json.load(open(mp))
    oc = m.get("our_check", {})
    cb = oc.get("caught_by") or {}
    title = (m.get("title") or m.get("what_it_breaks") or "").replace("|", "/").replace("\n", " ")[:110]
    needs = (m.get("needs") or "").replace("|", "/").replace("\n", " ")[:130]
    how = ("failing input, oracle `%s`" % cb.get("sig")) if cb.get("kind") == "failing-input" else \
          ("proof/correspondence broke, no failing input" if oc.get("check_violation_line") else "MISSED")
    if m.get("status_after_fix_127902b") and how == "MISSED":
        how = "behaviour-neutral since fix 127902b (caught on the pre-fix tree: oracle `C18:ADC:half-step`)"
    rows.append(f"| {d} | {title} | {needs} | {oc.get('tier','quick')}: {how} |")
if "--write" not in __import__("sys").argv: print("| seeded change | what | needs | caught by |\n|---|---|---|---|")
if "--write" not in __import__("sys").argv: print("\n".join(rows))

if "--write" in __import__("sys").argv:
    p = os.path.join(VERIF, "DESIGN.md")
    s = open(p).read()
    a = s.index("<!-- SEED-TABLE-BEGIN")
    a = s.index("\n", a) + 1
    b = s.index("<!-- SEED-TABLE-END -->")
    s = s[:a] + "| seeded change | what | needs | caught by |\n|---|---|---|---|\n" + "\n".join(rows) + "\n" + s[b:]
    open(p, "w").write(s)
