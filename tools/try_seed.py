#!/usr/bin/env python3
"""Confirm a seeded change and run the property's check against it.

    try_seed.py <Cxx> <dir with patch.diff, demo.py, meta.json> <name> [--thorough]

In a scratch worktree of /repo (removed afterwards): applies the patch, runs the repository's own tests (must pass),
runs demo.py with the patch (must exit 1) and without it (must exit 0), then runs the registered quick check with
VERIF_REPO pointing at the patched tree and records whether it reported a VIOLATION and how.  Keeps the change under
/verif/seeded/<Cxx>-<name>/ (patch.diff, demo.py, meta.json) only if all confirmations hold."""
import json, os, re, shutil, subprocess, sys, time

VERIF = os.path.abspath(os.path.join(os.path.dirname(__file__), ".."))
PY = "/venv/bin/python"


def sh(cmd, cwd=None, env=None, timeout=3000):
    e = dict(os.environ)
    e.update(env or {})
    p = subprocess.run(cmd, shell=True, cwd=cwd, env=e, stdout=subprocess.PIPE, stderr=subprocess.STDOUT, text=True, timeout=timeout)
    return p.returncode, p.stdout


def main():
    pid, src, name = sys.argv[1], os.path.abspath(sys.argv[2]), sys.argv[3]
    tier = "thorough" if "--thorough" in sys.argv else "quick"
    wt = f"/tmp/wt/seedtry_{pid}_{name}"
    sh(f"git -C /repo worktree remove --force {wt}")
    rc, out = sh(f"git -C /repo worktree add -q {wt} HEAD")
    assert rc == 0, out
    rec = {"property": pid, "name": name}
    try:
        rc, out = sh(f"git -C {wt} apply {src}/patch.diff")
        rec["applies"] = rc == 0
        if rc != 0:
            print("patch does not apply:", out)
            return 2
        rc, out = sh(f"{PY} -m pytest -q -p no:cacheprovider tests 2>&1 | tail -3", cwd=wt, env={"PYTHONPATH": wt})
        rec["tests_with_patch"] = out.strip().split("\n")[-1]
        tests_ok = "49 passed" in out and "failed" not in out
        rc1, out1 = sh(f"timeout 600 {PY} {src}/demo.py", cwd=wt, env={"PYTHONPATH": wt})
        rec["demo_with_patch_exit"] = rc1
        t0 = time.time()
        rcc, outc = sh(f"{PY} harness/check.py {pid} {tier}", cwd=VERIF, env={"VERIF_REPO": wt}, timeout=7200)
        rec["check_exit"] = rcc
        rec["check_seconds"] = round(time.time() - t0, 1)
        vio = [l for l in outc.split("\n") if l.startswith("VIOLATION")]
        rec["check_violation_line"] = vio[0] if vio else None
        rec["check_summary"] = [l for l in outc.split("\n") if l.startswith("[") or l.startswith("  ")][:6]
        if vio:
            m = re.search(r"replay=(\S+)", vio[0])
            if m and os.path.exists(m.group(1)):
                r = json.load(open(m.group(1)))
                rec["caught_by"] = {"kind": r.get("kind"), "sig": r.get("sig"), "what": (r.get("what") or "")[:300],
                                    "no_longer_checks": r.get("no_longer_checks") or r.get("broken")}
        sh(f"git -C {wt} checkout -- .")
        rc0, out0 = sh(f"timeout 600 {PY} {src}/demo.py", cwd=wt, env={"PYTHONPATH": wt})
        rec["demo_without_patch_exit"] = rc0
        confirmed = tests_ok and rc1 == 1 and rc0 == 0
        rec["confirmed"] = confirmed
        rec["detected"] = bool(vio)
        print(json.dumps(rec, indent=1))
        if confirmed:
            dst = os.path.join(VERIF, "seeded", f"{pid}-{name}")
            os.makedirs(dst, exist_ok=True)
            if os.path.realpath(src) != os.path.realpath(dst):
                shutil.copy(os.path.join(src, "patch.diff"), dst)
                shutil.copy(os.path.join(src, "demo.py"), dst)
            meta = {}
            if os.path.exists(os.path.join(src, "meta.json")):
                try:
                    meta = json.load(open(os.path.join(src, "meta.json")))
                except Exception:
                    meta = {"author_meta_unreadable": True}
            meta["property"] = pid
            meta["confirmed_by_us"] = {k: rec[k] for k in ("tests_with_patch", "demo_with_patch_exit", "demo_without_patch_exit")}
            meta["our_check"] = {k: rec.get(k) for k in ("check_exit", "check_violation_line", "caught_by", "check_seconds", "check_summary")}
            meta["our_check"]["tier"] = tier
            meta["what_we_ran"] = [f"git -C <scratch worktree> apply patch.diff", "pytest tests (49 passed required)",
                                   "demo.py with patch (exit 1) / without (exit 0)",
                                   f"VERIF_REPO=<scratch worktree> {PY} harness/check.py {pid} {tier}"]
            json.dump(meta, open(os.path.join(dst, "meta.json"), "w"), indent=1)
        return 0
    finally:
        sh(f"git -C /repo worktree remove --force {wt}")
        # regenerate Gen/ from the real tree
        sh("flock lean/.lake/verif.lock python3 tools/extract.py", cwd=VERIF)


if __name__ == "__main__":
    sys.exit(main())
