#!/usr/bin/env python3
"""Writes /verif/MANIFEST.json from the table below (kept as code so it stays consistent)."""
import json, os
VERIF = os.path.abspath(os.path.join(os.path.dirname(__file__), ".."))
PY = "/venv/bin/python"

def load_claims():
    """A property is claimed iff harness/props/<id>.py contains a literal `MANIFEST = {...}` with keys
    text, note, technique, design (read with ast, the module is not imported)."""
    import ast
    claims = {}
    d = os.path.join(VERIF, "harness", "props")
    for fn in sorted(os.listdir(d)):
        if fn.startswith("c") and fn.endswith(".py"):
            integrated = json.load(open(os.path.join(VERIF, "claims.json")))["integrated"]
            if fn[:-3].upper() not in integrated:
                continue      # work in progress: not claimed until it is integrated (reviewed, passing, listed in claims.json)
            tree = ast.parse(open(os.path.join(d, fn)).read())
            for node in tree.body:
                if isinstance(node, ast.Assign) and len(node.targets) == 1 and getattr(node.targets[0], "id", None) == "MANIFEST":
                    claims[fn[:-3].upper()] = ast.literal_eval(node.value)
    return claims


CLAIMED = load_claims()
NOT_YET = {}

def main():
    props = [json.loads(l) for l in open(os.path.join(VERIF, "properties.jsonl"))]
    checks, na = [], []
    for p in props:
        pid = p["id"]
        if pid in CLAIMED:
            c = CLAIMED[pid]
            checks.append({
                "property_id": pid,
                "quick_cmd": f"{PY} harness/check.py {pid} quick",
                "thorough_cmd": f"{PY} harness/check.py {pid} thorough",
                "evidence_file": f"evidence/{pid}.json",
                "replay_cmd_template": f"{PY} harness/check.py replay {{path}}",
                "engine": "lean4-optiverif",
                "level_claimed": {"category": "proof", "text": c["text"], "design_ref": c["design"]},
                "level_note": c["note"],
                "technique": c["technique"],
            })
        else:
            na.append({"property_id": pid, "reason": NOT_YET.get(pid, "not claimed yet: model/theorems/correspondence for this property are still being built (see DESIGN.md §5); no check is registered until it is sound")})
    m = {
        "version": 1,
        "setup_cmd": "python3 tools/setup.py",
        "hooks": {
            "guard": "OPTICOMLIB_VERIF",
            "enable": "no source hooks: all instrumentation (spies on numpy.random/scipy/sklearn, fake VISA session) is installed from the harness process; the variable is set by harness/check.py but read by nothing in /repo",
            "baseline_off_cmd": "cd /repo && /venv/bin/python -m pytest -ra -q -p no:cacheprovider --timeout=900 --continue-on-collection-errors",
            "source_commits": [],
            "add_only": True,
        },
        "engines": [{
            "name": "lean4-optiverif", "path": "lean/",
            "serves_properties": sorted(CLAIMED),
            "kind_free_text": "Lean 4.33 + Mathlib lake project: Gen/ (regenerated from /repo by tools/extract.py), Model/ (executable, Mathlib-free, compiled into the line-protocol `driver`), Lemmas/, Props/ (property theorems); harness/check.py runs translator, lake build, #print axioms audit, differential correspondence and the property oracle",
        }],
        "checks": checks,
        "not_applicable": na,
        "notes": "exit 2 = infrastructure problem (never a verdict). Replays are written under out/replays/.",
    }
    with open(os.path.join(VERIF, "MANIFEST.json"), "w") as f:
        json.dump(m, f, indent=1)
    print(len(checks), "checks,", len(na), "unclaimed")

if __name__ == "__main__":
    main()
