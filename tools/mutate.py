#!/usr/bin/env python3
"""Systematic mutation run: how many mechanical single-site changes of the anchored code do the checks notice?

    mutate.py gen  [--per 30] [--seed 1]        -> out/mutation/mutants.jsonl   (property, file, function, operator, site, diff)
    mutate.py run  [--workers 5] [--only C04,C07] -> out/mutation/results.jsonl (one line per mutant, appended; resumable)
    mutate.py report                             -> table per property (killed by tests / caught / survived) + survivors

A mutant is ONE syntactic change (comparison / arithmetic / boolean operator, small constant, look-alike helper such as
fftshift<->ifftshift or min<->max, negated branch condition, removed statement, augmented assignment) inside a function the
property is anchored in.  Each is applied in a scratch worktree of /repo (one per worker, under /tmp/wt, removed at the end),
must still import, and is first run against the repository's own tests: only mutants that PASS the 49 tests are interesting.
Those are then judged by the property's registered quick check with VERIF_REPO=<worktree>.  Survivors (tests pass, check
exits 0) are either equivalent mutants or blind spots; they are triaged by hand (out/mutation/triage.md).  This is a measuring
device for the machinery, not part of any registered check."""
import ast, copy, difflib, json, os, random, subprocess, sys, time
from concurrent.futures import ProcessPoolExecutor, as_completed

VERIF = os.path.abspath(os.path.join(os.path.dirname(__file__), ".."))
REPO = "/repo"
PY = "/venv/bin/python"
OUT = os.path.join(VERIF, "mutation")

T, D, U, O, P, L = "opticomlib/typing.py", "opticomlib/devices.py", "opticomlib/utils.py", "opticomlib/ook.py", "opticomlib/ppm.py", "opticomlib/lab.py"
ES, OS_, BS, GV = "electrical_signal", "optical_signal", "binary_sequence", "global_variables"
TARGETS = {
    "C01": [(T, f"{ES}.{m}") for m in ("__init__", "__add__", "__radd__", "__sub__", "__rsub__", "__mul__", "__rmul__", "__getitem__", "copy", "len", "__call__")]
           + [(T, f"{OS_}.__init__"), (T, f"{OS_}.__getitem__")],
    "C02": [(T, f"{ES}.{m}") for m in ("__call__", "w", "fs", "power", "abs")],
    "C03": [(D, "DAC"), (D, "MZM"), (D, "PD"), (D, "LPF"), (D, "SAMPLER"), (O, "DSP"), (O, "BER_analizer"), (O, "THRESHOLD_EST"),
            (P, "DSP"), (P, "BER_analizer"), (P, "PPM_ENCODER"), (P, "PPM_DECODER"), (P, "SDD"), (P, "HDD"), (P, "THRESHOLD_EST"),
            (T, f"{ES}.__gt__"), (T, f"{ES}.__lt__")],
    "C04": [(D, "PRBS")],
    "C05": [(D, "DAC"), (D, "SAMPLER")],
    "C06": [(D, "MZM"), (D, "PM"), (D, "LASER")],
    "C07": [(D, "DM"), (D, "FIBER"), (T, f"{ES}.w"), (T, f"{ES}.fs")],
    "C08": [(D, "FIBER")],
    "C09": [(D, "PD")],
    "C10": [(D, "EDFA")],
    "C11": [(D, "LPF"), (D, "BPF")],
    "C12": [(P, "PPM_ENCODER"), (P, "PPM_DECODER"), (P, "HDD"), (P, "SDD"), (U, "dec2bin")],
    "C13": [(U, "p_ase"), (U, "average_voltages"), (U, "noise_variances"), (U, "optimum_threshold"), (U, "theory_BER"),
            (O, "theory_BER"), (O, "THRESHOLD_EST"), (O, "BER_analizer"), (P, "theory_BER"), (P, "THRESHOLD_EST"), (P, "BER_analizer")],
    "C14": [(T, f"{GV}.__init__"), (T, f"{GV}.__call__"), (T, f"{GV}.clean")],
    "C15": [(T, f"{BS}.{m}") for m in ("__init__", "__add__", "__radd__", "__invert__", "__getitem__", "ones", "zeros", "len")]
           + [(T, f"{ES}.__gt__"), (T, f"{ES}.__lt__"), (U, "str2array")],
    "C16": [(D, "FBG")],
    "C17": [(D, "GET_EYE"), (U, "shortest_int")],
    "C18": [(D, "ADC"), (U, "shortest_int")],
    "C19": [(U, f) for f in ("db", "dbm", "idb", "idbm", "Q", "gaus", "rcos", "dec2bin", "str2array", "si")],
    "C20": [(L, f"PPG3204.{m}") for m in ("_check_channels", "set_patt_len", "set_freq", "set_skew", "set_output_voltage", "set_offset",
                                          "set_prbs_order", "set_data", "get_data", "set_bits_shift", "set_mode")] + [(L, "SYNC")],
}

CMP = {ast.Lt: ast.LtE, ast.LtE: ast.Lt, ast.Gt: ast.GtE, ast.GtE: ast.Gt, ast.Eq: ast.NotEq, ast.NotEq: ast.Eq}
BIN = {ast.Add: ast.Sub, ast.Sub: ast.Add, ast.Mult: ast.Div, ast.Div: ast.Mult, ast.FloorDiv: ast.Div, ast.Pow: ast.Mult, ast.Mod: ast.FloorDiv}
NAMES = {"fftshift": "ifftshift", "ifftshift": "fftshift", "fft": "ifft", "ifft": "fft", "min": "max", "max": "min",
         "argmin": "argmax", "argmax": "argmin", "floor": "ceil", "ceil": "floor", "real": "imag", "imag": "real",
         "zeros": "ones", "ones": "zeros", "zeros_like": "ones_like", "ones_like": "zeros_like", "sum": "mean", "mean": "sum",
         "cos": "sin", "sin": "cos", "any": "all", "all": "any", "cumsum": "cumprod", "round": "floor"}


def find_fn(tree, qual):
    parts = qual.split(".")
    body = tree.body
    node = None
    for p in parts:
        node = next((n for n in body if isinstance(n, (ast.FunctionDef, ast.ClassDef)) and n.name == p), None)
        if node is None:
            return None
        body = node.body
    return node


def sites(fn):
    """[(operator name, index among nodes of that kind)] for every applicable site in fn"""
    out = []
    doc = ast.get_docstring(fn, clean=False)
    k = {}

    def add(kind, node):
        i = k.get(kind, 0)
        k[kind] = i + 1
        out.append((kind, i))
    for n in ast.walk(fn):
        if isinstance(n, ast.Compare) and len(n.ops) == 1 and type(n.ops[0]) in CMP:
            add("cmp", n)
        elif isinstance(n, ast.BinOp) and type(n.op) in BIN and not (isinstance(n.op, ast.Mod) and isinstance(n.left, ast.Constant) and isinstance(n.left.value, str)):
            add("bin", n)
        elif isinstance(n, ast.BoolOp):
            add("bool", n)
        elif isinstance(n, ast.UnaryOp) and isinstance(n.op, (ast.Not, ast.USub)):
            add("unary", n)
        elif isinstance(n, ast.Constant) and isinstance(n.value, (int, float)) and not isinstance(n.value, bool):
            add("const+", n)
            if isinstance(n.value, int):
                add("const-", n)
        elif isinstance(n, (ast.Name, ast.Attribute)) and (n.id if isinstance(n, ast.Name) else n.attr) in NAMES:
            add("name", n)
        elif isinstance(n, ast.If):
            add("ifneg", n)
        elif isinstance(n, ast.AugAssign) and type(n.op) in BIN:
            add("aug", n)
    # statement removal: simple statements that are not the docstring / not a def / not a return
    for n in ast.walk(fn):
        for fld in ("body", "orelse", "finalbody"):
            for st in getattr(n, fld, []) if isinstance(getattr(n, fld, None), list) else []:
                if isinstance(st, (ast.Assign, ast.AugAssign, ast.Raise)) or (isinstance(st, ast.Expr) and not (isinstance(st.value, ast.Constant) and isinstance(st.value.value, str))):
                    add("del", st)
    return out


class Mut(ast.NodeTransformer):
    def __init__(self, kind, idx):
        self.kind, self.idx, self.seen, self.done = kind, idx, {}, None

    def hit(self, kind):
        i = self.seen.get(kind, 0)
        self.seen[kind] = i + 1
        return kind == self.kind and i == self.idx and self.done is None


def mutate_fn(fn, kind, idx):
    """returns (mutated copy of fn, description) — sites are enumerated exactly as in sites()"""
    fn = copy.deepcopy(fn)
    seen = {}
    desc = None

    def hit(k):
        i = seen.get(k, 0)
        seen[k] = i + 1
        return k == kind and i == idx
    for n in ast.walk(fn):
        if isinstance(n, ast.Compare) and len(n.ops) == 1 and type(n.ops[0]) in CMP:
            if hit("cmp"):
                old = ast.unparse(n)
                n.ops = [CMP[type(n.ops[0])]()]
                desc = f"{old}  ->  {ast.unparse(n)}"
        elif isinstance(n, ast.BinOp) and type(n.op) in BIN and not (isinstance(n.op, ast.Mod) and isinstance(n.left, ast.Constant) and isinstance(n.left.value, str)):
            if hit("bin"):
                old = ast.unparse(n)
                n.op = BIN[type(n.op)]()
                desc = f"{old}  ->  {ast.unparse(n)}"
        elif isinstance(n, ast.BoolOp):
            if hit("bool"):
                old = ast.unparse(n)
                n.op = ast.Or() if isinstance(n.op, ast.And) else ast.And()
                desc = f"{old}  ->  {ast.unparse(n)}"
        elif isinstance(n, ast.UnaryOp) and isinstance(n.op, (ast.Not, ast.USub)):
            if hit("unary"):
                old = ast.unparse(n)
                n.op = ast.UAdd() if isinstance(n.op, ast.USub) else ast.Not()
                if isinstance(n.op, ast.Not):       # `not x` -> `not not x`
                    n.operand = ast.UnaryOp(op=ast.Not(), operand=n.operand)
                desc = f"{old}  ->  {ast.unparse(n)}"
        elif isinstance(n, ast.Constant) and isinstance(n.value, (int, float)) and not isinstance(n.value, bool):
            orig = n.value
            if hit("const+"):
                n.value = orig + 1 if isinstance(orig, int) else (orig * 2 if orig != 0 else 1.0)
                desc = f"constant {orig!r} -> {n.value!r}"
            if isinstance(orig, int) and hit("const-"):
                n.value = orig - 1
                desc = f"constant {orig!r} -> {n.value!r}"
        elif isinstance(n, (ast.Name, ast.Attribute)) and (n.id if isinstance(n, ast.Name) else n.attr) in NAMES:
            if hit("name"):
                if isinstance(n, ast.Name):
                    desc = f"{n.id} -> {NAMES[n.id]}"
                    n.id = NAMES[n.id]
                else:
                    desc = f".{n.attr} -> .{NAMES[n.attr]}"
                    n.attr = NAMES[n.attr]
        elif isinstance(n, ast.If):
            if hit("ifneg"):
                old = ast.unparse(n.test)
                n.test = ast.UnaryOp(op=ast.Not(), operand=n.test)
                desc = f"if {old}  ->  if not ({old})"
        elif isinstance(n, ast.AugAssign) and type(n.op) in BIN:
            if hit("aug"):
                old = ast.unparse(n)
                n.op = BIN[type(n.op)]()
                desc = f"{old}  ->  {ast.unparse(n)}"
    if kind == "del":
        for n in ast.walk(fn):
            for fld in ("body", "orelse", "finalbody"):
                lst = getattr(n, fld, None)
                if not isinstance(lst, list):
                    continue
                for j, st in enumerate(lst):
                    if isinstance(st, (ast.Assign, ast.AugAssign, ast.Raise)) or (isinstance(st, ast.Expr) and not (isinstance(st.value, ast.Constant) and isinstance(st.value.value, str))):
                        if hit("del"):
                            desc = f"statement removed: {ast.unparse(st)[:100]}"
                            lst[j] = ast.Pass()
    return fn, desc


def render(src, fn_old, fn_new):
    """replace the source lines of fn_old by the unparsed fn_new (indented like the original)"""
    lines = src.split("\n")
    start = min([fn_old.lineno] + [d.lineno for d in fn_old.decorator_list]) - 1
    end = fn_old.end_lineno
    ind = " " * fn_old.col_offset
    new = [ind + l if l else l for l in ast.unparse(ast.fix_missing_locations(fn_new)).split("\n")]
    return "\n".join(lines[:start] + new + lines[end:])


def gen(per, seed):
    os.makedirs(OUT, exist_ok=True)
    rng = random.Random(seed)
    n_all = 0
    with open(os.path.join(OUT, "mutants.jsonl"), "w") as f:
        for pid, tg in TARGETS.items():
            cands = []
            for rel, qual in tg:
                src = open(os.path.join(REPO, rel)).read()
                tree = ast.parse(src)
                fn = find_fn(tree, qual)
                if fn is None:
                    print("missing", rel, qual)
                    continue
                # "normalise" the function once so that the diff shows only the mutation
                base = render(src, fn, copy.deepcopy(fn))
                for kind, idx in sites(fn):
                    cands.append((rel, qual, kind, idx))
            rng.shuffle(cands)
            # spread over operator kinds: round-robin by kind
            bykind = {}
            for c in cands:
                bykind.setdefault(c[2], []).append(c)
            pick = []
            while len(pick) < per and any(bykind.values()):
                for k in sorted(bykind):
                    if bykind[k] and len(pick) < per:
                        pick.append(bykind[k].pop())
            for rel, qual, kind, idx in pick:
                f.write(json.dumps({"property": pid, "file": rel, "function": qual, "kind": kind, "index": idx}) + "\n")
                n_all += 1
            print(pid, "candidates", len(cands), "picked", len(pick))
    print("total", n_all)


def build_mutant(m, repo=REPO):
    src = open(os.path.join(repo, m["file"])).read()
    tree = ast.parse(src)
    fn = find_fn(tree, m["function"])
    new, desc = mutate_fn(fn, m["kind"], m["index"])
    if desc is None:
        return None, None, None
    base = render(src, fn, copy.deepcopy(fn))
    mut = render(src, fn, new)
    if mut == base:
        return None, None, None
    diff = "".join(difflib.unified_diff(base.splitlines(True), mut.splitlines(True), m["file"], m["file"], n=1))
    return mut, desc, diff


def sh(cmd, cwd=None, env=None, timeout=1800):
    e = dict(os.environ)
    e.update(env or {})
    try:
        p = subprocess.run(cmd, shell=True, cwd=cwd, env=e, stdout=subprocess.PIPE, stderr=subprocess.STDOUT, text=True, timeout=timeout)
        return p.returncode, p.stdout
    except subprocess.TimeoutExpired as ex:
        return 124, (ex.stdout or "") if isinstance(ex.stdout, str) else ""


def work(args):
    m, slot = args
    wt = f"/tmp/wt/mut_{slot}"
    if not os.path.isdir(wt):
        sh(f"git -C {REPO} worktree add -q {wt} HEAD")
    sh(f"git -C {wt} checkout -q -- .")
    rec = dict(m)
    t0 = time.time()
    mut, desc, diff = build_mutant(m, wt)
    if mut is None:
        rec["outcome"] = "no-op"
        return rec
    rec["desc"], rec["diff"] = desc, diff[:3000]
    with open(os.path.join(wt, m["file"]), "w") as f:
        f.write(mut)
    try:
        rc, out = sh(f"timeout 60 {PY} -c 'import opticomlib'", cwd=wt, env={"PYTHONPATH": wt})
        if rc != 0:
            rec["outcome"] = "does-not-import"
            return rec
        rc, out = sh(f"timeout 300 {PY} -m pytest -x -q -p no:cacheprovider tests 2>&1 | tail -3", cwd=wt, env={"PYTHONPATH": wt})
        if "49 passed" not in out:
            rec["outcome"] = "killed-by-tests"
            return rec
        rc, out = sh(f"{PY} harness/check.py {m['property']} quick", cwd=VERIF, env={"VERIF_REPO": wt, "VERIF_SEED": "0"}, timeout=1500)
        vio = [l for l in out.split("\n") if l.startswith("VIOLATION")]
        rec["check_exit"] = rc
        if rc == 0:
            rec["outcome"] = "survived"
        elif rc == 1 and vio:
            rec["outcome"] = "caught:no-failing-input" if vio[0].rstrip().endswith("no-failing-input-found") else "caught:failing-input"
            fv = [l.strip() for l in out.split("\n") if "first violation" in l or "first disagreement" in l or "no longer checks" in l]
            rec["how"] = (fv[0] if fv else "")[:300]
        else:
            rec["outcome"] = f"infrastructure({rc})"
            rec["tail"] = out[-500:]
        return rec
    finally:
        rec["seconds"] = round(time.time() - t0, 1)
        sh(f"git -C {wt} checkout -q -- .")


def run(workers, only):
    os.makedirs(OUT, exist_ok=True)
    muts = [json.loads(l) for l in open(os.path.join(OUT, "mutants.jsonl"))]
    if only:
        muts = [m for m in muts if m["property"] in only]
    done = set()
    rp = os.path.join(OUT, "results.jsonl")
    if os.path.exists(rp):
        for l in open(rp):
            r = json.loads(l)
            done.add((r["property"], r["file"], r["function"], r["kind"], r["index"]))
    todo = [m for m in muts if (m["property"], m["file"], m["function"], m["kind"], m["index"]) not in done]
    # interleave properties so that slow ones do not pile up at the end
    print(f"{len(todo)} mutants to run ({len(done)} already done)")
    with ProcessPoolExecutor(max_workers=workers) as ex, open(rp, "a") as f:
        # a worker process keeps its own slot: use pid-independent slot assignment by chunking
        futs = []
        for i, m in enumerate(todo):
            futs.append(ex.submit(work_slot, m))
        for fu in as_completed(futs):
            r = fu.result()
            f.write(json.dumps(r) + "\n")
            f.flush()
            print(r["property"], r["function"], r["kind"], r["index"], "->", r["outcome"], r.get("seconds"), flush=True)
    import glob
    for wt in glob.glob("/tmp/wt/mut_*"):
        sh(f"git -C {REPO} worktree remove --force {wt}")
    sh("flock lean/.lake/verif.lock python3 tools/extract.py", cwd=VERIF)


def work_slot(m):
    return work((m, os.getpid()))


def report():
    rs = [json.loads(l) for l in open(os.path.join(OUT, "results.jsonl"))]
    tab = {}
    for r in rs:
        t = tab.setdefault(r["property"], {})
        o = r["outcome"].split("(")[0]
        t[o] = t.get(o, 0) + 1
    cols = ["killed-by-tests", "does-not-import", "no-op", "caught:failing-input", "caught:no-failing-input", "survived", "infrastructure"]
    print("| property | " + " | ".join(cols) + " | kill rate among test-passing |")
    print("|---|" + "---|" * (len(cols) + 1))
    tot = {}
    for pid in sorted(tab):
        t = tab[pid]
        c = t.get("caught:failing-input", 0) + t.get("caught:no-failing-input", 0)
        s = t.get("survived", 0)
        print(f"| {pid} | " + " | ".join(str(t.get(k, 0)) for k in cols) + f" | {c}/{c + s} |")
        for k in cols:
            tot[k] = tot.get(k, 0) + t.get(k, 0)
    c = tot.get("caught:failing-input", 0) + tot.get("caught:no-failing-input", 0)
    print(f"| all | " + " | ".join(str(tot.get(k, 0)) for k in cols) + f" | {c}/{c + tot.get('survived', 0)} |")
    print()
    for r in rs:
        if r["outcome"] == "survived":
            print(f"SURVIVOR {r['property']} {r['file']}::{r['function']} [{r['kind']} #{r['index']}] {r.get('desc')}")


if __name__ == "__main__":
    a = sys.argv[1:]
    if a and a[0] == "gen":
        gen(int(a[a.index("--per") + 1]) if "--per" in a else 30, int(a[a.index("--seed") + 1]) if "--seed" in a else 1)
    elif a and a[0] == "run":
        run(int(a[a.index("--workers") + 1]) if "--workers" in a else 5, set(a[a.index("--only") + 1].split(",")) if "--only" in a else None)
    elif a and a[0] == "report":
        report()
    else:
        print(__doc__)
