"""constants of utils.shortest_int and devices.ADC  ->  Gen/Quant.lean

    lag = int(len(data) * percent/K)                           -> percentDivisor = K
    dmin = np.min(diff)
    i = np.where(np.abs(diff - dmin) <= TOL * np.abs(dmin))[0] -> tieTol = TOL   (relative tie tolerance)
    i = i[len(i)//D]                                           -> centralDivisor = D
    V_min, V_max = shortest_int(signal, P)        (in ADC)     -> adcPercent = P
"""
import ast
from extract import AnchorMissing, parse, find_def, assigns_to, lit_number, lean_rat, HEADER

NAME = "Quant"


def generate(repo):
    tree, _ = parse(repo, "opticomlib/utils.py")
    fn = find_def(tree, "shortest_int")
    lag = assigns_to(fn, "lag")
    if len(lag) != 1:
        raise AnchorMissing("shortest_int: lag = ...")
    v = lag[0].value
    # int(len(data) * percent / K)
    if not (isinstance(v, ast.Call) and ast.unparse(v.func) == "int" and len(v.args) == 1
            and isinstance(v.args[0], ast.BinOp) and isinstance(v.args[0].op, ast.Div)
            and ast.unparse(v.args[0].left) == "len(data) * percent"):
        raise AnchorMissing("shortest_int: lag = int(len(data) * percent/K)")
    div = lit_number(v.args[0].right)
    # data = np.sort(data)
    if not any(ast.unparse(a.value) == "np.sort(data)" for a in assigns_to(fn, "data")):
        raise AnchorMissing("shortest_int: data = np.sort(data)")
    # diff = diff_lag(data, lag);  diff_lag = lambda data, lag: data[lag:] - data[:len(data)-lag]
    if not any(ast.unparse(a.value) == "diff_lag(data, lag)" for a in assigns_to(fn, "diff")):
        raise AnchorMissing("shortest_int: diff = diff_lag(data, lag)")
    lam = assigns_to(fn, "diff_lag")
    if len(lam) != 1 or ast.unparse(lam[0].value) != "lambda data, lag: data[lag:] - data[:len(data) - lag]":
        raise AnchorMissing("shortest_int: diff_lag lambda")
    idx = assigns_to(fn, "i")
    if len(idx) != 2:
        raise AnchorMissing("shortest_int: two assignments to i")
    dm = assigns_to(fn, "dmin")
    if len(dm) != 1 or ast.unparse(dm[0].value) != "np.min(diff)":
        raise AnchorMissing("shortest_int: dmin = np.min(diff)")
    w = idx[0].value
    # np.where(np.abs(diff - dmin) <= TOL * np.abs(dmin))[0]     (ties up to a RELATIVE tolerance)
    tol = None
    if (isinstance(w, ast.Subscript) and isinstance(w.value, ast.Call) and ast.unparse(w.value.func) == "np.where"
            and ast.unparse(w.slice) == "0" and len(w.value.args) == 1 and isinstance(w.value.args[0], ast.Compare)):
        c = w.value.args[0]
        r = c.comparators[0]
        if (len(c.ops) == 1 and isinstance(c.ops[0], ast.LtE) and ast.unparse(c.left) == "np.abs(diff - dmin)"
                and isinstance(r, ast.BinOp) and isinstance(r.op, ast.Mult) and ast.unparse(r.right) == "np.abs(dmin)"):
            tol = lit_number(r.left)
    if tol is None:
        raise AnchorMissing("shortest_int: np.where(np.abs(diff - dmin) <= TOL * np.abs(dmin))[0]")
    s = idx[1].value
    if not (isinstance(s, ast.Subscript) and ast.unparse(s.value) == "i" and isinstance(s.slice, ast.BinOp)
            and isinstance(s.slice.op, ast.FloorDiv) and ast.unparse(s.slice.left) == "len(i)"):
        raise AnchorMissing("shortest_int: i = i[len(i)//D]")
    cdiv = lit_number(s.slice.right)
    if cdiv.denominator != 1 or cdiv <= 0:
        raise AnchorMissing("shortest_int: central divisor")
    rets = [n for n in ast.walk(fn) if isinstance(n, ast.Return)]
    if len(rets) != 1 or ast.unparse(rets[0].value) != "np.array((data[i], data[i + lag]))":
        raise AnchorMissing("shortest_int: return np.array((data[i], data[i + lag]))")

    tree2, _ = parse(repo, "opticomlib/devices.py")
    adc = find_def(tree2, "ADC")
    pct = None
    for node in ast.walk(adc):
        if isinstance(node, ast.Call) and ast.unparse(node.func) == "shortest_int":
            if len(node.args) == 2 and ast.unparse(node.args[0]) == "signal":
                pct = lit_number(node.args[1])
    if pct is None:
        raise AnchorMissing("ADC: shortest_int(signal, P)")
    return HEADER + f"""namespace OptiVerif.Gen.Quant

/-- `lag = int(len(data) * percent/percentDivisor)` -/
def percentDivisor : Rat := {lean_rat(div)}

/-- `np.abs(diff - dmin) <= tieTol * np.abs(dmin)` with `dmin = np.min(diff)`: RELATIVE tie tolerance -/
def tieTol : Rat := {lean_rat(tol)}

/-- `i = i[len(i)//centralDivisor]` -/
def centralDivisor : Nat := {int(cdiv)}

/-- `V_min, V_max = shortest_int(signal, adcPercent)` in `devices.ADC` -/
def adcPercent : Rat := {lean_rat(pct)}

end OptiVerif.Gen.Quant
"""
