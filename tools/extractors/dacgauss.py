"""Gaussian branch of devices.DAC: prototype pulse, time grid, scaling factor k, impulse train, convolution  ->  Gen/DacGauss.lean

Recognised shapes inside the `elif pulse_shape in ["gaussian", …]:` branch (anything else raises AnchorMissing):
  def p(t, T): return np.exp(-(1 + 1j * c) / <H> * (t / T) ** (<P> * m))
  t = np.linspace(-<A> * sps, <B> * sps, <C> * sps)
  k = <real expression of m>             translated operator by operator (+ - * / **, np.log, np.sqrt, np.exp, literals, m)
  pulse = p(t, T / k)
  s = np.zeros(input.len() * sps)
  s[int(<int expr of sps>)::sps] = input.data        (twice)
  x = sg.fftconvolve(s, pulse, mode='same') / <D>
`a ** b` is emitted as `rpow a b = exp(b·log a)` (positive base), which is what the theorems need to be told about the code's k.
"""
import ast
import re
from fractions import Fraction
from decimal import Decimal
from extract import AnchorMissing, find_def, parse, int_expr, HEADER

NAME = "DacGauss"


def _lit(v):
    if isinstance(v, bool):
        raise AnchorMissing("bool literal")
    if isinstance(v, int):
        if v < 0:
            return f"(-(lit {-v}))"
        return f"(lit {v})"
    q = Fraction(Decimal(repr(v)))
    s = f"(lit {abs(q.numerator)} / lit {q.denominator})"
    return f"(-{s})" if q < 0 else s


def real_expr(node):
    """Python real expression of `m` -> Lean term over a generic carrier"""
    if isinstance(node, ast.Constant) and isinstance(node.value, (int, float)):
        return _lit(node.value)
    if isinstance(node, ast.Name) and node.id == "m":
        return "(lit m)"
    if isinstance(node, ast.UnaryOp) and isinstance(node.op, ast.USub):
        return f"(-{real_expr(node.operand)})"
    if isinstance(node, ast.BinOp):
        a, b = real_expr(node.left), real_expr(node.right)
        if isinstance(node.op, ast.Add):
            return f"({a} + {b})"
        if isinstance(node.op, ast.Sub):
            return f"({a} - {b})"
        if isinstance(node.op, ast.Mult):
            return f"({a} * {b})"
        if isinstance(node.op, ast.Div):
            return f"({a} / {b})"
        if isinstance(node.op, ast.Pow):
            return f"(rpow {a} {b})"
    if isinstance(node, ast.Call) and len(node.args) == 1 and not node.keywords:
        f = ast.unparse(node.func)
        fn = {"np.log": "Transc.log", "np.sqrt": "Transc.sqrt", "np.exp": "Transc.exp"}.get(f)
        if fn:
            return f"({fn} {real_expr(node.args[0])})"
    raise AnchorMissing(f"unsupported real expression {ast.unparse(node)[:60]}")


def _int(s):
    return int(s)


def generate(repo):
    tree, _ = parse(repo, "opticomlib/devices.py")
    fn = find_def(tree, "DAC")
    branch = None
    for node in ast.walk(fn):
        if isinstance(node, ast.If) and isinstance(node.test, ast.Compare) and ast.unparse(node.test.left) == "pulse_shape" \
                and isinstance(node.test.ops[0], ast.In) and "gaussian" in ast.unparse(node.test.comparators[0]):
            branch = node.body
    if branch is None:
        raise AnchorMissing("gaussian branch")
    # def p(t, T)
    pdef = [s for s in branch if isinstance(s, ast.FunctionDef) and s.name == "p"]
    if len(pdef) != 1 or [a.arg for a in pdef[0].args.args] != ["t", "T"] or len(pdef[0].body) != 1 \
            or not isinstance(pdef[0].body[0], ast.Return):
        raise AnchorMissing("def p(t, T): return …")
    m = re.fullmatch(r"np\.exp\(-\(1 \+ 1j \* c\) / (\d+) \* \(t / T\) \*\* \((\d+) \* m\)\)", ast.unparse(pdef[0].body[0].value))
    if not m:
        raise AnchorMissing(f"prototype pulse is {ast.unparse(pdef[0].body[0].value)!r}")
    pulse_den, exp_fac = _int(m.group(1)), _int(m.group(2))
    assigns = {}
    for s in branch:
        if isinstance(s, ast.Assign) and len(s.targets) == 1 and isinstance(s.targets[0], ast.Name):
            if s.targets[0].id in assigns:
                raise AnchorMissing(f"{s.targets[0].id} assigned twice")
            assigns[s.targets[0].id] = s.value
    for name in ("t", "k", "pulse", "s", "x"):
        if name not in assigns:
            raise AnchorMissing(f"{name} = …")
    m = re.fullmatch(r"np\.linspace\(-(\d+) \* sps, (\d+) \* sps, (\d+) \* sps\)", ast.unparse(assigns["t"]))
    if not m:
        raise AnchorMissing(f"time grid is {ast.unparse(assigns['t'])!r}")
    lo, hi, pts = map(_int, m.groups())
    k_expr = real_expr(assigns["k"])
    if ast.unparse(assigns["pulse"]) != "p(t, T / k)":
        raise AnchorMissing("pulse = p(t, T / k)")
    if ast.unparse(assigns["s"]) != "np.zeros(input.len() * sps)":
        raise AnchorMissing("s = np.zeros(input.len() * sps)")
    m = re.fullmatch(r"sg\.fftconvolve\(s, pulse, mode='same'\) / (\d+)", ast.unparse(assigns["x"]))
    if not m:
        raise AnchorMissing(f"convolution is {ast.unparse(assigns['x'])!r}")
    conv_div = _int(m.group(1))
    strides = []
    for s in branch:
        if isinstance(s, ast.Assign) and isinstance(s.targets[0], ast.Subscript) and ast.unparse(s.targets[0].value) == "s":
            sl = s.targets[0].slice
            if not (isinstance(sl, ast.Slice) and sl.upper is None and sl.step is not None and ast.unparse(sl.step) == "sps"
                    and isinstance(sl.lower, ast.Call) and ast.unparse(sl.lower.func) == "int" and len(sl.lower.args) == 1
                    and ast.unparse(s.value) == "input.data"):
                raise AnchorMissing(f"impulse assignment {ast.unparse(s)!r}")
            strides.append(int_expr(sl.lower.args[0], {"sps"}))
    if len(strides) != 2:
        raise AnchorMissing("two impulse assignments s[int(…)::sps] = input.data")
    return HEADER + f"""import OptiVerif.Model.Num
set_option linter.unusedSectionVars false
namespace OptiVerif.Gen.DacGauss
open OptiVerif

section
variable {{R : Type}} [Add R] [Sub R] [Mul R] [Div R] [Neg R] [NatCast R] [Transc R]

/-- numeric literal -/
@[reducible] def lit (n : Nat) : R := ((n : Nat) : R)

/-- `a ** b` for a positive base -/
def rpow (a b : R) : R := Transc.exp (b * Transc.log a)

/-- `k = …` : scaling factor between the requested width `T` and the width parameter handed to `p` -/
def kFormula (m : Nat) : R := {k_expr}
end

/-- `np.exp(-(1 + 1j*c) / pulseDen * (t/T) ** (pulseExpFactor*m))` -/
def pulseDen : Nat := {pulse_den}
def pulseExpFactor : Nat := {exp_fac}

/-- `t = np.linspace(-spanLo*sps, spanHi*sps, pointsPerSps*sps)` -/
def spanLo : Nat := {lo}
def spanHi : Nat := {hi}
def pointsPerSps : Nat := {pts}

/-- `s[int(…)::sps] = input.data`, in source order -/
def strideA (sps : Nat) : Nat := {strides[0]}
def strideB (sps : Nat) : Nat := {strides[1]}

/-- `x = sg.fftconvolve(s, pulse, mode='same') / convDiv` -/
def convDiv : Nat := {conv_div}

end OptiVerif.Gen.DacGauss
"""
