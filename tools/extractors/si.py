"""if-ladder of utils.si  ->  Gen/SiLadder.lean

Recognised shape (anything else raises AnchorMissing):

    def si(x, unit=..., k=...):
        if A <= x:            return f'{x*S:.{k}f} P{unit}'
        if A <= x < B:        return f'{x*S:.{k}f} P{unit}'      (or  f'{x:.{k}f} {unit}'  for scale 1)
        ...
        if x == 0:            return f'0 {unit}'

Each row becomes (A, B or none, S, P) with the float literals converted exactly from their decimal text.
"""
import ast
from extract import AnchorMissing, parse, find_def, lit_number, lean_rat, HEADER

NAME = "SiLadder"


def _is_x(node):
    return isinstance(node, ast.Name) and node.id == "x"


def _bounds(test):
    if not isinstance(test, ast.Compare) or not all(isinstance(o, (ast.LtE, ast.Lt)) for o in test.ops):
        raise AnchorMissing("si: test is not a chain of <=/<")
    terms = [test.left] + list(test.comparators)
    if len(terms) == 2 and isinstance(test.ops[0], ast.LtE) and _is_x(terms[1]):
        return lit_number(terms[0]), None
    if (len(terms) == 3 and isinstance(test.ops[0], ast.LtE) and isinstance(test.ops[1], ast.Lt)
            and _is_x(terms[1])):
        return lit_number(terms[0]), lit_number(terms[2])
    raise AnchorMissing("si: test shape " + ast.unparse(test))


def _fmt_k(spec):
    # format spec must be  .{k}f
    if not isinstance(spec, ast.JoinedStr) or len(spec.values) != 3:
        return False
    a, b, c = spec.values
    return (isinstance(a, ast.Constant) and a.value == "." and isinstance(b, ast.FormattedValue)
            and isinstance(b.value, ast.Name) and b.value.id == "k" and isinstance(c, ast.Constant) and c.value == "f")


def _row_return(ret):
    if not (isinstance(ret, ast.Return) and isinstance(ret.value, ast.JoinedStr)):
        raise AnchorMissing("si: body is not `return f'...'`")
    parts = ret.value.values
    if len(parts) != 3:
        raise AnchorMissing("si: f-string shape")
    val, mid, unit = parts
    if not (isinstance(val, ast.FormattedValue) and _fmt_k(val.format_spec)):
        raise AnchorMissing("si: mantissa format is not :.{k}f")
    if not (isinstance(unit, ast.FormattedValue) and isinstance(unit.value, ast.Name) and unit.value.id == "unit"):
        raise AnchorMissing("si: unit placeholder")
    if not (isinstance(mid, ast.Constant) and isinstance(mid.value, str) and mid.value.startswith(" ")):
        raise AnchorMissing("si: prefix text")
    prefix = mid.value[1:]
    if " " in prefix:
        raise AnchorMissing("si: prefix contains a blank")
    v = val.value
    if _is_x(v):
        scale = lit_number(ast.Constant(1))
    elif isinstance(v, ast.BinOp) and isinstance(v.op, ast.Mult) and _is_x(v.left):
        scale = lit_number(v.right)
    else:
        raise AnchorMissing("si: mantissa expression " + ast.unparse(v))
    return scale, prefix


def generate(repo):
    tree, _ = parse(repo, "opticomlib/utils.py")
    fn = find_def(tree, "si")
    body = [s for s in fn.body if not (isinstance(s, ast.Expr) and isinstance(s.value, ast.Constant))]
    rows = []
    zero = False
    for k, st in enumerate(body):
        if not (isinstance(st, ast.If) and not st.orelse and len(st.body) == 1):
            raise AnchorMissing("si: statement %d is not a plain `if …: return …`" % k)
        t = st.test
        if (isinstance(t, ast.Compare) and len(t.ops) == 1 and isinstance(t.ops[0], ast.Eq) and _is_x(t.left)
                and isinstance(t.comparators[0], ast.Constant) and t.comparators[0].value == 0):
            if k != len(body) - 1:
                raise AnchorMissing("si: zero case is not last")
            r = st.body[0]
            if not (isinstance(r, ast.Return) and isinstance(r.value, ast.JoinedStr) and len(r.value.values) == 2
                    and isinstance(r.value.values[0], ast.Constant) and r.value.values[0].value == "0 "):
                raise AnchorMissing("si: zero case text")
            zero = True
            continue
        lo, hi = _bounds(t)
        scale, prefix = _row_return(st.body[0])
        rows.append((lo, hi, scale, prefix))
    if not rows:
        raise AnchorMissing("si: no rows")

    def opt(q):
        return "none" if q is None else f"some {lean_rat(q)}"

    def cps(s):
        return "[" + ", ".join(str(ord(c)) for c in s) + "]"
    rows_s = ",\n  ".join(f"({lean_rat(lo)}, {opt(hi)}, {lean_rat(sc)}, {cps(p)})" for lo, hi, sc, p in rows)
    return HEADER + f"""namespace OptiVerif.Gen.SiLadder

/-- the if-ladder of `utils.si` in source order:
    (A, B?, S, P) for `if A <= x [< B]: return f'{{x*S:.{{k}}f}} P{{unit}}'`; P as code points.  Float literals are
    converted exactly from their decimal text. -/
def rows : List (Rat × Option Rat × Rat × List Nat) := [
  {rows_s}]

/-- the ladder ends with `if x == 0: return f'0 {{unit}}'` -/
def zeroCase : Bool := {"true" if zero else "false"}

end OptiVerif.Gen.SiLadder
"""
