"""PRBS tap table, loop body and seed expressions of devices.PRBS  ->  Gen/Prbs.lean"""
import ast
from extract import AnchorMissing, parse, find_def, assigns_to, int_expr, HEADER

NAME = "Prbs"


def generate(repo):
    tree, _ = parse(repo, "opticomlib/devices.py")
    fn = find_def(tree, "PRBS")
    # taps = { order: [a, b], ... }
    tap_assign = assigns_to(fn, "taps")
    if len(tap_assign) != 1 or not isinstance(tap_assign[0].value, ast.Dict):
        raise AnchorMissing("taps dict")
    d = tap_assign[0].value
    rows = []
    for k, v in zip(d.keys, d.values):
        if not (isinstance(k, ast.Constant) and isinstance(k.value, int) and isinstance(v, (ast.List, ast.Tuple))
                and len(v.elts) == 2 and all(isinstance(e, ast.Constant) and isinstance(e.value, int) for e in v.elts)):
            raise AnchorMissing("taps entry shape")
        rows.append((k.value, v.elts[0].value, v.elts[1].value))
    # tap1, tap2 = np.array(taps[order]) - K
    off = None
    for node in ast.walk(fn):
        if isinstance(node, ast.Assign) and isinstance(node.targets[0], ast.Tuple):
            names = [getattr(e, "id", None) for e in node.targets[0].elts]
            if names == ["tap1", "tap2"]:
                v = node.value
                if (isinstance(v, ast.BinOp) and isinstance(v.op, ast.Sub) and isinstance(v.right, ast.Constant)
                        and isinstance(v.right.value, int) and ast.unparse(v.left) == "np.array(taps[order])"):
                    off = v.right.value
    if off is None:
        raise AnchorMissing("tap1, tap2 = np.array(taps[order]) - K")
    # loop body
    loops = [n for n in ast.walk(fn) if isinstance(n, ast.While)]
    if len(loops) != 1:
        raise AnchorMissing("while loop")
    body = loops[0].body
    if ast.unparse(loops[0].test) != "index < len":
        raise AnchorMissing("loop test")
    stmts = [ast.unparse(s) for s in body]
    if len(body) != 4 or stmts[3] != "index += 1":
        raise AnchorMissing("loop body shape")
    s0, s1, s2 = body[0], body[1], body[2]
    if not (isinstance(s0, ast.Assign) and ast.unparse(s0.targets[0]) == "prbs[index]"):
        raise AnchorMissing("prbs[index] = ...")
    if not (isinstance(s1, ast.Assign) and ast.unparse(s1.targets[0]) == "new"):
        raise AnchorMissing("new = ...")
    if not (isinstance(s2, ast.Assign) and ast.unparse(s2.targets[0]) == "lfsr"):
        raise AnchorMissing("lfsr = ...")
    out_e = int_expr(s0.value, {"lfsr"})
    new_e = int_expr(s1.value, {"lfsr", "tap1", "tap2"})
    nxt_e = int_expr(s2.value, {"lfsr", "new", "order"})
    # seed = seed % (2**order) if seed is not None else (1 << order) - 1
    seeds = assigns_to(fn, "seed")
    ifexp = [a.value for a in seeds if isinstance(a.value, ast.IfExp)]
    if len(ifexp) != 1 or ast.unparse(ifexp[0].test) != "seed is not None":
        raise AnchorMissing("seed normalisation")
    mod_e = int_expr(ifexp[0].body, {"seed", "order"})
    def_e = int_expr(ifexp[0].orelse, {"order"})
    # lfsr = seed  (initial state)
    if not any(ast.unparse(a.value) == "seed" for a in assigns_to(fn, "lfsr")):
        raise AnchorMissing("lfsr = seed")
    rows_s = ", ".join(f"({a}, {b}, {c})" for a, b, c in rows)
    return HEADER + f"""namespace OptiVerif.Gen.Prbs

/-- `taps` literal of `devices.PRBS`: (order, taps[order][0], taps[order][1]) -/
def taps : List (Nat × Nat × Nat) := [{rows_s}]

/-- `tap1, tap2 = np.array(taps[order]) - tapOffset` -/
def tapOffset : Nat := {off}

/-- `prbs[index] = …` -/
def outBit (lfsr : Nat) : Nat := {out_e}

/-- `new = …` -/
def newBit (lfsr tap1 tap2 : Nat) : Nat := {new_e}

/-- `lfsr = …` -/
def next (lfsr new order : Nat) : Nat := {nxt_e}

/-- `seed % (2**order)` branch of the seed normalisation (Python `%`, divisor positive) -/
def seedMod (seed : Int) (order : Nat) : Int := {mod_e}

/-- default seed when `seed is None` -/
def seedDefault (order : Nat) : Nat := {def_e}

end OptiVerif.Gen.Prbs
"""
