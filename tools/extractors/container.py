"""Operator tables of electrical_signal (+, -, reflected -, *) and the n_pol defaults of optical_signal.__init__
   (opticomlib/typing.py)  ->  Gen/Container.lean

For each of __add__, __sub__, __rsub__, __mul__ the method must have the shape

    if not isinstance(other, <self.type() | self.__class__>): other = self.__class__(other)
    if <test over self.len(), other.len(), int literals>: raise <Exc>(...)
    dtype = np.result_type(self.signal, other.signal)
    if self.noise is None and other.noise is None: return self.__class__(SIG, dtype=dtype)
    elif self.noise is None:  return self.__class__(SIG, N1, dtype=dtype)     # N1 over other.noise, maybe np.broadcast_to(.., ..)
    elif other.noise is None: return self.__class__(SIG, N2, dtype=dtype)     # N2 over self.noise
    return self.__class__(SIG, N3, dtype=dtype)                               # N3 over self.noise, other.noise

and is re-emitted as Lean functions over a generic carrier; __radd__/__rmul__ must delegate to __add__/__mul__.
"""
import ast
from extract import AnchorMissing, parse, find_def, HEADER

NAME = "Container"

_B = {ast.Add: "+", ast.Sub: "-", ast.Mult: "*"}


def arith(node, names):
    """Python arithmetic over the attribute expressions in `names` (source text -> Lean variable) -> Lean term"""
    src = ast.unparse(node)
    if src in names:
        return names[src]
    if isinstance(node, ast.UnaryOp) and isinstance(node.op, ast.USub):
        return f"(-{arith(node.operand, names)})"
    if isinstance(node, ast.BinOp) and type(node.op) in _B:
        return f"({arith(node.left, names)} {_B[type(node.op)]} {arith(node.right, names)})"
    raise AnchorMissing(f"unsupported array expression `{src[:60]}`")


def lentest(node):
    """boolean test over self.len(), other.len() and int literals -> Lean Bool term"""
    src = ast.unparse(node)
    if src == "self.len()":
        return "selfLen"
    if src == "other.len()":
        return "otherLen"
    if isinstance(node, ast.Constant) and isinstance(node.value, int) and not isinstance(node.value, bool):
        return str(node.value)
    if isinstance(node, ast.BoolOp):
        op = " && " if isinstance(node.op, ast.And) else " || "
        return "(" + op.join(lentest(v) for v in node.values) + ")"
    if isinstance(node, ast.UnaryOp) and isinstance(node.op, ast.Not):
        return f"(!{lentest(node.operand)})"
    if isinstance(node, ast.Compare) and len(node.ops) == 1:
        ops = {ast.NotEq: "!=", ast.Eq: "==", ast.Lt: "<", ast.LtE: "<=", ast.Gt: ">", ast.GtE: ">="}
        if type(node.ops[0]) in ops:
            a, b = lentest(node.left), lentest(node.comparators[0])
            if ops[type(node.ops[0])] in ("<", "<=", ">", ">="):
                return f"(decide ({a} {ops[type(node.ops[0])]} {b}))"
            return f"({a} {ops[type(node.ops[0])]} {b})"
    raise AnchorMissing(f"unsupported length test `{src[:60]}`")


def body_of(fn):
    b = fn.body
    if b and isinstance(b[0], ast.Expr) and isinstance(getattr(b[0], "value", None), ast.Constant) and isinstance(b[0].value.value, str):
        b = b[1:]
    return b


def ctor_call(ret, nargs):
    """`return self.__class__(a1[, a2], dtype=dtype)` -> positional args"""
    if not (isinstance(ret, ast.Return) and isinstance(ret.value, ast.Call) and ast.unparse(ret.value.func) == "self.__class__"):
        raise AnchorMissing("return self.__class__(...)")
    c = ret.value
    if len(c.args) != nargs or [k.arg for k in c.keywords] != ["dtype"] or ast.unparse(c.keywords[0].value) != "dtype":
        raise AnchorMissing(f"constructor call shape `{ast.unparse(c)[:70]}`")
    return c.args


def operator(cls, name):
    fn = find_def(cls, name)
    b = body_of(fn)
    if len(b) != 5:
        raise AnchorMissing(f"{name}: expected 5 statements, found {len(b)}")
    conv, chk, dt, lad, last = b
    if not (isinstance(conv, ast.If) and ast.unparse(conv.test) in ("not isinstance(other, self.type())", "not isinstance(other, self.__class__)")
            and len(conv.body) == 1 and ast.unparse(conv.body[0]) == "other = self.__class__(other)" and not conv.orelse):
        raise AnchorMissing(f"{name}: operand conversion")
    if not (isinstance(chk, ast.If) and len(chk.body) == 1 and isinstance(chk.body[0], ast.Raise) and not chk.orelse
            and isinstance(chk.body[0].exc, ast.Call) and isinstance(chk.body[0].exc.func, ast.Name)):
        raise AnchorMissing(f"{name}: length check")
    rej = lentest(chk.test)
    exc = chk.body[0].exc.func.id
    if ast.unparse(dt) != "dtype = np.result_type(self.signal, other.signal)":
        raise AnchorMissing(f"{name}: dtype = np.result_type(self.signal, other.signal)")
    branches = []
    node = lad
    tests = ["self.noise is None and other.noise is None", "self.noise is None", "other.noise is None"]
    for k, t in enumerate(tests):
        if not (isinstance(node, ast.If) and ast.unparse(node.test) == t and len(node.body) == 1):
            raise AnchorMissing(f"{name}: noise ladder branch {k}")
        branches.append(node.body[0])
        if k < 2:
            if len(node.orelse) != 1:
                raise AnchorMissing(f"{name}: noise ladder shape")
            node = node.orelse[0]
        elif node.orelse:
            raise AnchorMissing(f"{name}: noise ladder tail")
    branches.append(last)
    sig_names = {"self.signal": "s", "other.signal": "o"}
    a0 = ctor_call(branches[0], 1)
    a1 = ctor_call(branches[1], 2)
    a2 = ctor_call(branches[2], 2)
    a3 = ctor_call(branches[3], 2)
    sig = arith(a0[0], sig_names)
    for a in (a1, a2, a3):
        if arith(a[0], sig_names) != sig:
            raise AnchorMissing(f"{name}: the four signal expressions differ")
    n1 = a1[1]
    bcast = False
    if isinstance(n1, ast.Call) and ast.unparse(n1.func) == "np.broadcast_to":
        if len(n1.args) != 2 or ast.unparse(n1.args[1]) != "np.broadcast_shapes(self.signal.shape, other.signal.shape)":
            raise AnchorMissing(f"{name}: broadcast_to target shape")
        bcast = True
        n1 = n1.args[0]
    only_other = arith(n1, {"other.noise": "n"})
    only_self = arith(a2[1], {"self.noise": "n"})
    both = arith(a3[1], {"self.noise": "sn", "other.noise": "on"})
    return dict(name=name, rej=rej, exc=exc, sig=sig, only_other=only_other, bcast=bcast, only_self=only_self, both=both)


def npol_defaults(cls):
    fn = find_def(cls, "__init__")
    blk = None
    for node in ast.walk(fn):
        if isinstance(node, ast.If) and ast.unparse(node.test) == "self.__class__ == optical_signal":
            blk = node
    if blk is None:
        raise AnchorMissing("optical_signal.__init__: class guard")
    ladder = [s for s in blk.body if isinstance(s, ast.If) and ast.unparse(s.test).startswith("signal.ndim == 0")]
    if len(ladder) != 1:
        raise AnchorMissing("optical_signal.__init__: ndim ladder")
    want = ["signal.ndim == 0", "signal.ndim == 1", "signal.ndim == 2 and signal.shape[0] == 1",
            "signal.ndim == 2 and signal.shape[0] == 2"]
    out = []
    node = ladder[0]
    for k, t in enumerate(want):
        if not (isinstance(node, ast.If) and ast.unparse(node.test) == t):
            raise AnchorMissing(f"optical_signal.__init__: ladder branch `{t}`")
        first = node.body[0]
        if not (isinstance(first, ast.If) and ast.unparse(first.test) == "n_pol is None" and len(first.body) == 1
                and isinstance(first.body[0], ast.Assign) and ast.unparse(first.body[0].targets[0]) == "n_pol"
                and isinstance(first.body[0].value, ast.Constant) and isinstance(first.body[0].value.value, int)):
            raise AnchorMissing(f"optical_signal.__init__: default n_pol in branch `{t}`")
        out.append(first.body[0].value.value)
        if k < 3:
            if len(node.orelse) != 1:
                raise AnchorMissing("optical_signal.__init__: ladder shape")
            node = node.orelse[0]
    return out


def generate(repo):
    tree, _ = parse(repo, "opticomlib/typing.py")
    E = find_def(tree, "electrical_signal")
    O = find_def(tree, "optical_signal")
    ops = [operator(E, n) for n in ("__add__", "__sub__", "__rsub__", "__mul__")]
    for r, m in (("__radd__", "__add__"), ("__rmul__", "__mul__")):
        b = body_of(find_def(E, r))
        if len(b) != 1 or ast.unparse(b[0]) != f"return self.{m}(other)":
            raise AnchorMissing(f"{r} must delegate to {m}")
    for cls, nm in ((O, "optical_signal"),):
        for n in ("__add__", "__radd__", "__sub__", "__rsub__", "__mul__", "__rmul__", "copy", "len"):
            if any(isinstance(x, ast.FunctionDef) and x.name == n for x in cls.body):
                raise AnchorMissing(f"{nm} overrides {n}")
    d = npol_defaults(O)
    out = [HEADER, "namespace OptiVerif.Gen.Container\n",
           "section\nvariable {α : Type} [Add α] [Sub α] [Neg α] [Mul α]\n"]
    for o in ops:
        k = o["name"].strip("_")
        out.append(f"/-- `{o['name']}`: signal expression (s = self.signal, o = other.signal) -/\n"
                   f"def {k}_sig (s o : α) : α := {o['sig']}\n"
                   f"/-- `{o['name']}`: noise handed on when only `other` carries noise (n = other.noise) -/\n"
                   f"def {k}_onlyOther (n : α) : α := {o['only_other']}\n"
                   f"/-- … wrapped in `np.broadcast_to(·, np.broadcast_shapes(self.signal.shape, other.signal.shape))` -/\n"
                   f"def {k}_otherBroadcast : Bool := {'true' if o['bcast'] else 'false'}\n"
                   f"/-- `{o['name']}`: noise when only `self` carries noise (n = self.noise) -/\n"
                   f"def {k}_onlySelf (n : α) : α := {o['only_self']}\n"
                   f"/-- `{o['name']}`: noise when both carry noise -/\n"
                   f"def {k}_both (sn on : α) : α := {o['both']}\n")
    out.append("end\n")
    for o in ops:
        k = o["name"].strip("_")
        out.append(f"/-- `{o['name']}`: the test that raises -/\n"
                   f"def {k}_reject (selfLen otherLen : Nat) : Bool := {o['rej']}\n"
                   f"def {k}_exc : String := \"{o['exc']}\"\n")
    out.append("/-- default `n_pol` of optical_signal.__init__ for scalar, 1-D, (1,N), (2,N) input -/\n"
               f"def npolDefault_scalar : Nat := {d[0]}\ndef npolDefault_vec : Nat := {d[1]}\n"
               f"def npolDefault_row1 : Nat := {d[2]}\ndef npolDefault_row2 : Nat := {d[3]}\n")
    out.append("end OptiVerif.Gen.Container\n")
    return "\n".join(out)
