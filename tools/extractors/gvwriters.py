"""Static table of every write to the global grid `gv` inside devices.py / ppm.py / ook.py / utils.py  ->  Gen/GvWriters.lean

A "write" is any of (anywhere in the module, i.e. in every public and private function, nested function, class method and at
module level; docstrings are not code and are not scanned):
  store      gv.<a> = …, gv.<a> += …, gv.<a>: T = …, del gv.<a>, for gv.<a> in …, with … as gv.<a>
  element    gv.<a>[…] = …, gv.<a>[…] += …, del gv.<a>[…]                 (in-place change of a grid array)
  call       gv(…), gv.clean(), gv.__call__(…), gv.__init__(…), gv.__setattr__/__delattr__(…)
  setattr    setattr(gv, …), delattr(gv, …), object.__setattr__(gv, …)
  dict       gv.__dict__ / vars(gv)                                        (any access)
  mutcall    gv.<a>.<m>(…) with m an in-place ndarray/list/dict method, or a call with out=gv.<a>
  rebind     gv = …, global gv, import … as gv (other than `from .typing import gv`), def gv, a parameter named gv
  escape     gv used as a bare value (assigned, passed, returned, stored) — it could then be written under another name
  qualified  <x>.gv used in any store / call context (e.g. typing.gv.sps = …)
Reads `gv.<a>` and `gv.<a>[…]` in load context are not writes.
"""
import ast
import os
from extract import AnchorMissing, HEADER

NAME = "GvWriters"
MODULES = ["devices", "ppm", "ook", "utils"]
MUTATORS = {"sort", "fill", "resize", "put", "itemset", "setflags", "partition", "byteswap", "setfield", "append", "extend",
            "insert", "pop", "remove", "clear", "update", "reverse", "__setitem__", "__delitem__", "__iadd__", "__imul__",
            "setdefault", "popitem"}
WRITE_METHODS = {"clean", "__call__", "__init__", "__setattr__", "__delattr__"}


def _is_gv(node):
    return isinstance(node, ast.Name) and node.id == "gv"


def _gv_attr(node):
    """gv.<a> -> a"""
    if isinstance(node, ast.Attribute) and _is_gv(node.value):
        return node.attr
    return None


def _lean_str(s):
    return '"' + s.replace("\\", "\\\\").replace('"', '\\"').replace("\n", " ") + '"'


class Scanner(ast.NodeVisitor):
    def __init__(self, module, src):
        self.module = module
        self.src = src
        self.stack = []
        self.rows = []          # (module, function, line, kind, text)
        self.functions = 0
        self.public = []
        self.reads = 0
        self.parents = {}

    def row(self, node, kind):
        fn = ".".join(self.stack) or "<module>"
        text = ast.get_source_segment(self.src, node) or ast.unparse(node)
        self.rows.append((self.module, fn, getattr(node, "lineno", 0), kind, " ".join(text.split())[:100]))

    # -- scopes
    def visit_FunctionDef(self, node):
        self.functions += 1
        if not self.stack and not node.name.startswith("_"):
            self.public.append(node.name)
        if node.name == "gv":
            self.row(node, "rebind")
        a = node.args
        for arg in a.posonlyargs + a.args + a.kwonlyargs + [x for x in (a.vararg, a.kwarg) if x]:
            if arg.arg == "gv":
                self.row(node, "rebind")
        self.stack.append(node.name)
        self.generic_visit(node)
        self.stack.pop()

    visit_AsyncFunctionDef = visit_FunctionDef

    def visit_ClassDef(self, node):
        if node.name == "gv":
            self.row(node, "rebind")
        self.stack.append(node.name)
        self.generic_visit(node)
        self.stack.pop()

    def visit_Lambda(self, node):
        a = node.args
        for arg in a.posonlyargs + a.args + a.kwonlyargs + [x for x in (a.vararg, a.kwarg) if x]:
            if arg.arg == "gv":
                self.row(node, "rebind")
        self.generic_visit(node)

    # -- imports / globals
    def visit_Global(self, node):
        if "gv" in node.names:
            self.row(node, "rebind")

    visit_Nonlocal = visit_Global

    def visit_Import(self, node):
        for al in node.names:
            if (al.asname or al.name.split(".")[0]) == "gv":
                self.row(node, "rebind")

    def visit_ImportFrom(self, node):
        for al in node.names:
            bound = al.asname or al.name
            if bound == "gv" and not (node.module == "typing" and node.level == 1 and al.name == "gv" and not self.stack):
                self.row(node, "rebind")
            if al.name == "gv" and al.asname not in (None, "gv"):
                self.row(node, "escape")

    # -- names and attributes
    def visit_Name(self, node):
        if node.id != "gv":
            return
        if isinstance(node.ctx, (ast.Store, ast.Del)):
            self.row(node, "rebind")
            return
        p = self.parents.get(node)
        # allowed load contexts: gv.<attr> (handled in visit_Attribute) — everything else lets the object escape
        if isinstance(p, ast.Attribute) and p.value is node:
            return
        if isinstance(p, ast.Call) and p.func is node:
            return                      # gv(...) reported by visit_Call
        self.row(p if p is not None else node, "escape")

    def visit_Attribute(self, node):
        a = _gv_attr(node)
        if a is not None:
            if isinstance(node.ctx, (ast.Store, ast.Del)):
                self.row(self.parents.get(node, node), "store")
            elif a in ("__dict__", "__slots__", "__class__"):
                self.row(self.parents.get(node, node), "dict")
            else:
                self.reads += 1
        elif node.attr == "gv" and not isinstance(self.parents.get(node), ast.ImportFrom):
            self.row(self.parents.get(node, node), "qualified")
        self.generic_visit(node)

    def visit_Subscript(self, node):
        if isinstance(node.ctx, (ast.Store, ast.Del)):
            base = node.value
            while isinstance(base, (ast.Subscript, ast.Attribute)) and not _gv_attr(base):
                base = base.value
            if _gv_attr(base) is not None:
                self.row(self.parents.get(node, node), "element")
        self.generic_visit(node)

    def visit_Call(self, node):
        f = node.func
        if _is_gv(f):
            self.row(node, "call")
        elif isinstance(f, ast.Attribute):
            if _is_gv(f.value) and f.attr in WRITE_METHODS:
                self.row(node, "call")
            elif _gv_attr(f.value) is not None and f.attr in MUTATORS:
                self.row(node, "mutcall")
            elif f.attr in ("__setattr__", "__delattr__") and any(_is_gv(a) for a in node.args):
                self.row(node, "setattr")
        elif isinstance(f, ast.Name) and f.id in ("setattr", "delattr", "vars") and node.args and _is_gv(node.args[0]):
            self.row(node, "setattr" if f.id != "vars" else "dict")
        for kw in node.keywords:
            if kw.arg == "out" and any(_gv_attr(n) is not None for n in ast.walk(kw.value)):
                self.row(node, "mutcall")
        self.generic_visit(node)


def scan(repo, module):
    path = os.path.join(repo, "opticomlib", module + ".py")
    with open(path, encoding="utf-8") as f:
        src = f.read()
    tree = ast.parse(src, filename=path)
    sc = Scanner(module, src)
    for parent in ast.walk(tree):
        for child in ast.iter_child_nodes(parent):
            sc.parents[child] = parent
    sc.visit(tree)
    # a row may be reported twice through different visitors: keep one per (line, kind, text)
    seen, rows = set(), []
    for r in sc.rows:
        if r not in seen:
            seen.add(r)
            rows.append(r)
    return sc, rows


def generate(repo):
    rows, stats = [], []
    for m in MODULES:
        try:
            sc, r = scan(repo, m)
        except FileNotFoundError:
            raise AnchorMissing(f"module {m}.py")
        rows += r
        stats.append((m, sc.functions, len(sc.public), sc.reads))
    rows_s = ",\n  ".join(f"({_lean_str(a)}, {_lean_str(b)}, {c}, {_lean_str(d)}, {_lean_str(e)})" for a, b, c, d, e in rows)
    stats_s = ", ".join(f"({_lean_str(m)}, {n}, {p}, {r})" for m, n, p, r in stats)
    return HEADER + f"""namespace OptiVerif.Gen.GvWriters

/-- every syntactic write to `gv` found in devices/ppm/ook/utils: (module, function, line, kind, source text) -/
def writers : List (String × String × Nat × String × String) := [{rows_s}]

/-- what was scanned: (module, functions incl. nested/methods, public module-level functions, reads `gv.<attr>` seen) -/
def scanned : List (String × Nat × Nat × Nat) := [{stats_s}]

end OptiVerif.Gen.GvWriters
"""
