"""constants and shapes of devices.FBG  ->  Gen/Fbg.lean

    def FBG(input, neff=NEFF, v=V, ..., F=F0, ...)                                       -> neffDefault, vDefault, chirpDefault
    def apo_func(z): return rcos(z, alpha=A, T=T)                                        -> rcosAlpha, rcosT
    def apo_func(z): return np.exp(-G1 * np.log(G2) * (G3 * z) ** 2)                      -> gaussA, gaussB, gaussC
    def apo_func(z): return P0 - (P1 * z) ** 2                                            -> parabOne, parabC
    s_ = δ + s - F * z ; dRdz = 1j * (s_ * R + k * S) ; dSdz = -1j * (s_ * S + k * R)     -> shape checked (no constants)
    solve_ivp(ode_system, t_span=[A, B], y0=y0, method='RK45', ..., vectorized=True)       -> tSpanStart, tSpanEnd
    H = H * np.exp(-1j * input.w(shift=True) * tau_g(H, gv.fs)[ic] * PS)                   -> psConv
    output = ifft(fft(input.signal) * ifftshift(H))                                       -> shape checked
and of utils.rcos (scalar branch)
    return 1 if first_condition else 0 if third_condition else H2*(1+np.cos(pi*T/alpha*(np.abs(x)-(1-alpha)/(2*T))))  -> rcosHalf
"""
import ast
from extract import AnchorMissing, parse, find_def, assigns_to, lit_number, lean_rat, HEADER

NAME = "Fbg"


def _inner_defs(fn, name):
    return [n for n in ast.walk(fn) if isinstance(n, ast.FunctionDef) and n.name == name]


def _single_return(fd):
    rets = [n for n in ast.walk(fd) if isinstance(n, ast.Return)]
    if len(rets) != 1:
        raise AnchorMissing(f"{fd.name}: single return")
    return rets[0].value


def generate(repo):
    tree, _ = parse(repo, "opticomlib/devices.py")
    fn = find_def(tree, "FBG")
    # defaults
    names = [a.arg for a in fn.args.args]
    defaults = dict(zip(names[len(names) - len(fn.args.defaults):], fn.args.defaults))
    try:
        neff, v, chirp = (lit_number(defaults[k]) for k in ("neff", "v", "F"))
    except KeyError as e:
        raise AnchorMissing(f"FBG default {e}")
    # apodisation profiles: three inner `apo_func` definitions
    rc = gs = pb = None
    for fd in _inner_defs(fn, "apo_func"):
        r = _single_return(fd)
        if isinstance(r, ast.Call) and ast.unparse(r.func) == "rcos":
            kws = {k.arg: lit_number(k.value) for k in r.keywords}
            if [ast.unparse(a) for a in r.args] != ["z"] or set(kws) != {"alpha", "T"}:
                raise AnchorMissing("rcos(z, alpha=., T=.)")
            rc = (kws["alpha"], kws["T"])
        elif isinstance(r, ast.Call) and ast.unparse(r.func) == "np.exp":
            # -G1 * np.log(G2) * (G3 * z) ** 2
            e = r.args[0]
            ok = (isinstance(e, ast.BinOp) and isinstance(e.op, ast.Mult) and isinstance(e.left, ast.BinOp)
                  and isinstance(e.left.op, ast.Mult) and isinstance(e.right, ast.BinOp) and isinstance(e.right.op, ast.Pow)
                  and isinstance(e.left.right, ast.Call) and ast.unparse(e.left.right.func) == "np.log"
                  and isinstance(e.right.left, ast.BinOp) and isinstance(e.right.left.op, ast.Mult)
                  and ast.unparse(e.right.left.right) == "z" and lit_number(e.right.right) == 2)
            if not ok:
                raise AnchorMissing("np.exp(-G1 * np.log(G2) * (G3 * z) ** 2)")
            gs = (-lit_number(e.left.left), lit_number(e.left.right.args[0]), lit_number(e.right.left.left))
        elif isinstance(r, ast.BinOp) and isinstance(r.op, ast.Sub):
            q = r.right
            ok = (isinstance(q, ast.BinOp) and isinstance(q.op, ast.Pow) and lit_number(q.right) == 2
                  and isinstance(q.left, ast.BinOp) and isinstance(q.left.op, ast.Mult) and ast.unparse(q.left.right) == "z")
            if not ok:
                raise AnchorMissing("P0 - (P1 * z) ** 2")
            pb = (lit_number(r.left), lit_number(q.left.left))
        else:
            raise AnchorMissing("unrecognised apo_func body: " + ast.unparse(r)[:60])
    if rc is None or gs is None or pb is None:
        raise AnchorMissing("three built-in apo_func definitions (rcos, gaussian, parabolic)")
    # the right-hand side: shape only
    ode = _inner_defs(fn, "ode_system")
    if len(ode) != 1:
        raise AnchorMissing("def ode_system")
    want = {"s_": "δ + s - F * z", "dRdz": "1j * (s_ * R + k * S)", "dSdz": "-1j * (s_ * S + k * R)", "p": "apo_func(z)"}
    for name, text in want.items():
        got = [ast.unparse(a.value) for a in assigns_to(ode[0], name)]
        if got != [text]:
            raise AnchorMissing(f"ode_system: {name} = {text} (found {got})")
    if sorted(ast.unparse(a.value) for a in assigns_to(ode[0], "s") + assigns_to(ode[0], "k")) != ["k * p", "s * p"]:
        raise AnchorMissing("ode_system: s = s * p ; k = k * p")
    if ast.unparse(_single_return(ode[0])) != "[dRdz, dSdz]":
        raise AnchorMissing("ode_system: return [dRdz, dSdz]")
    # the solver call
    calls = [n for n in ast.walk(fn) if isinstance(n, ast.Call) and ast.unparse(n.func) == "solve_ivp"]
    if len(calls) != 1:
        raise AnchorMissing("one solve_ivp call")
    kws = {k.arg: k.value for k in calls[0].keywords}
    ts = kws.get("t_span")
    if not (isinstance(ts, (ast.List, ast.Tuple)) and len(ts.elts) == 2):
        raise AnchorMissing("t_span=[a, b]")
    t0, t1 = lit_number(ts.elts[0]), lit_number(ts.elts[1])
    if ast.unparse(kws.get("method", ast.Constant(None))) != "'RK45'" or ast.unparse(kws.get("vectorized", ast.Constant(None))) != "True":
        raise AnchorMissing("method='RK45', vectorized=True")
    if ast.unparse(kws.get("args", ast.Constant(None))) != "(δ, s, k, F, apo_func)":
        raise AnchorMissing("args=(δ, s, k, F, apo_func)")
    # group-delay correction and application
    ps = None
    for a in assigns_to(fn, "H"):
        u = ast.unparse(a.value)
        if u.startswith("H * np.exp(-1j * input.w(shift=True) * tau_g(H, gv.fs)[ic] * "):
            ps = lit_number(a.value.right.args[0].right)
    if ps is None:
        raise AnchorMissing("H = H * np.exp(-1j * input.w(shift=True) * tau_g(H, gv.fs)[ic] * <literal>)")
    if "ifft(fft(input.signal) * ifftshift(H))" not in [ast.unparse(a.value) for a in assigns_to(fn, "output")]:
        raise AnchorMissing("output = ifft(fft(input.signal) * ifftshift(H))")
    if [ast.unparse(a.value) for a in assigns_to(fn, "H")][0] != "S / R":
        raise AnchorMissing("H = S / R")
    # utils.rcos, scalar branch
    utree, _ = parse(repo, "opticomlib/utils.py")
    rf = find_def(utree, "rcos")
    half = None
    for n in ast.walk(rf):
        if isinstance(n, ast.Return) and isinstance(n.value, ast.IfExp):
            u = ast.unparse(n.value)
            tail = " * (1 + np.cos(pi * T / alpha * (np.abs(x) - (1 - alpha) / (2 * T))))"
            head = "1 if first_condition else 0 if third_condition else "
            if u.startswith(head) and u.endswith(tail):
                half = lit_number(n.value.orelse.orelse.left)
    if half is None:
        raise AnchorMissing("rcos: scalar return")
    conds = {k: [ast.unparse(a.value) for a in assigns_to(rf, k)] for k in ("first_condition", "third_condition")}
    if conds != {"first_condition": ["np.abs(x) <= (1 - alpha) / (2 * T)"], "third_condition": ["np.abs(x) > (1 + alpha) / (2 * T)"]}:
        raise AnchorMissing("rcos: first/third condition")

    def d(name, doc, q):
        return f"/-- {doc} -/\ndef {name} : Rat := {lean_rat(q)}\n\n"
    body = (d("neffDefault", "`neff: float = ...` in the signature of FBG", neff) + d("vDefault", "`v: float = ...`", v)
            + d("chirpDefault", "`F: float = ...`", chirp)
            + d("rcosAlpha", "`rcos(z, alpha=..., T=...)` in the 'rcos' profile", rc[0]) + d("rcosT", "idem", rc[1])
            + d("rcosHalf", "`0.5*(1+np.cos(...))` in utils.rcos", half)
            + d("gaussA", "`np.exp(-gaussA * np.log(gaussB) * (gaussC * z) ** 2)`", gs[0]) + d("gaussB", "idem", gs[1]) + d("gaussC", "idem", gs[2])
            + d("parabOne", "`parabOne - (parabC * z) ** 2`", pb[0]) + d("parabC", "idem", pb[1])
            + d("tSpanStart", "`t_span=[tSpanStart, tSpanEnd]` of the solve_ivp call", t0) + d("tSpanEnd", "idem", t1)
            + d("psConv", "`tau_g(H, gv.fs)[ic] * psConv` (ps → s) in the group-delay correction", ps))
    return HEADER + "namespace OptiVerif.Gen.Fbg\n\n" + body + "end OptiVerif.Gen.Fbg\n"
