"""Validation ladder, pulse-shape names, RZ duty expression and kwargs defaults of devices.DAC  ->  Gen/DacLimits.lean

Recognised shapes (anything else raises AnchorMissing):
  if pulse_shape in [<str literals>]: ... elif pulse_shape in [...]: ... elif pulse_shape in [...]: ... else: raise <Exc>(...)
  rz_pulse[: <int expr of sps>] = 1
  <v> = kwargs.get("<v>", <literal | sps>)                       for v in c, m, T
  if not isinstance(<v>, <Name | tuple of Names>): raise <Exc>   for v in c, m, T, Vout, bias
  if <comparison over v (and sps)>: raise <Exc>                   for v in m, T, Vout, bias
  if <v> is not None:                                             guards of the Vout / bias blocks
comparisons: `a OP b` with OP in > >= < <=, joined by `or`; operands: the variable, np.abs(variable), numeric literals,
integer expressions of `sps`.
"""
import ast
from extract import AnchorMissing, find_def, parse, int_expr, lit_number, lean_rat, HEADER

NAME = "DacLimits"

_CMP = {ast.Gt: ">", ast.GtE: "≥", ast.Lt: "<", ast.LtE: "≤"}


def _names_list(node):
    if not (isinstance(node, (ast.List, ast.Tuple)) and node.elts
            and all(isinstance(e, ast.Constant) and isinstance(e.value, str) for e in node.elts)):
        raise AnchorMissing("pulse_shape name list")
    return [e.value for e in node.elts]


def _raised(body):
    """name of the exception class raised by a one-statement body `raise X(...)`"""
    if len(body) == 1 and isinstance(body[0], ast.Raise) and isinstance(body[0].exc, ast.Call) \
            and isinstance(body[0].exc.func, ast.Name):
        return body[0].exc.func.id
    raise AnchorMissing("raise <Exc>(...) expected")


def _operand(node, var, kind):
    """Lean term for one side of a comparison; kind = 'rat' (Vout, bias) or 'int' (m, T)"""
    if kind == "rat":
        if isinstance(node, ast.Name) and node.id == var:
            return "v"
        if (isinstance(node, ast.Call) and ast.unparse(node.func) in ("np.abs", "abs") and len(node.args) == 1
                and isinstance(node.args[0], ast.Name) and node.args[0].id == var):
            return "(ratAbs v)"
        return lean_rat(lit_number(node))
    # integer context: the variable, literals, expressions of sps
    return int_expr(node, {var, "sps"}, {var: "v"})


def _cmp(node, var, kind):
    if isinstance(node, ast.BoolOp) and isinstance(node.op, ast.Or):
        return "(" + " || ".join(_cmp(v, var, kind) for v in node.values) + ")"
    if isinstance(node, ast.Compare) and len(node.ops) == 1 and type(node.ops[0]) in _CMP:
        a = _operand(node.left, var, kind)
        b = _operand(node.comparators[0], var, kind)
        return f"decide ({a} {_CMP[type(node.ops[0])]} {b})"
    raise AnchorMissing(f"unsupported test {ast.unparse(node)[:60]}")


def _mentions(node, var):
    return any(isinstance(n, ast.Name) and n.id == var for n in ast.walk(node))


def generate(repo):
    tree, _ = parse(repo, "opticomlib/devices.py")
    fn = find_def(tree, "DAC")

    # --- the pulse_shape ladder --------------------------------------------------------------------
    ladder = None
    for node in fn.body:
        if isinstance(node, ast.If) and isinstance(node.test, ast.Compare) and ast.unparse(node.test.left) == "pulse_shape" \
                and isinstance(node.test.ops[0], ast.In):
            ladder = node
            break
    if ladder is None:
        raise AnchorMissing("if pulse_shape in [...]")
    branches = []
    cur = ladder
    while True:
        t = cur.test
        if not (isinstance(t, ast.Compare) and ast.unparse(t.left) == "pulse_shape" and len(t.ops) == 1
                and isinstance(t.ops[0], ast.In)):
            raise AnchorMissing("pulse_shape ladder test")
        branches.append((_names_list(t.comparators[0]), cur.body))
        if len(cur.orelse) == 1 and isinstance(cur.orelse[0], ast.If):
            cur = cur.orelse[0]
        else:
            unknown_exc = _raised(cur.orelse)
            break
    if len(branches) != 3:
        raise AnchorMissing(f"expected 3 pulse_shape branches, found {len(branches)}")
    (nrz_names, nrz_body), (rz_names, rz_body), (ga_names, ga_body) = branches
    if "nrz" not in nrz_names or "rz" not in rz_names or "gaussian" not in ga_names:
        raise AnchorMissing("branch order nrz / rz / gaussian")

    # nrz: x = np.kron(input.data, np.ones(sps))
    if [ast.unparse(s) for s in nrz_body] != ["x = np.kron(input.data, np.ones(sps))"]:
        raise AnchorMissing("nrz body")
    # rz: rz_pulse = np.zeros(sps); rz_pulse[:E] = 1; mask = np.tile(rz_pulse, input.len()); x = kron * mask
    rz_src = [ast.unparse(s) for s in rz_body]
    if len(rz_body) != 4 or rz_src[0] != "rz_pulse = np.zeros(sps)" or rz_src[2] != "mask = np.tile(rz_pulse, input.len())" \
            or rz_src[3] != "x = np.kron(input.data, np.ones(sps)) * mask":
        raise AnchorMissing("rz body")
    s1 = rz_body[1]
    if not (isinstance(s1, ast.Assign) and isinstance(s1.targets[0], ast.Subscript)
            and ast.unparse(s1.targets[0].value) == "rz_pulse" and isinstance(s1.targets[0].slice, ast.Slice)
            and s1.targets[0].slice.lower is None and s1.targets[0].slice.step is None
            and isinstance(s1.value, ast.Constant) and s1.value.value == 1):
        raise AnchorMissing("rz_pulse[:E] = 1")
    duty = int_expr(s1.targets[0].slice.upper, {"sps"})

    # --- gaussian kwargs defaults ------------------------------------------------------------------
    defaults = {}
    for s in ga_body:
        if isinstance(s, ast.Assign) and isinstance(s.targets[0], ast.Name) and isinstance(s.value, ast.Call) \
                and ast.unparse(s.value.func) == "kwargs.get" and len(s.value.args) == 2:
            key = s.value.args[0]
            if not (isinstance(key, ast.Constant) and key.value == s.targets[0].id):
                raise AnchorMissing("kwargs.get key")
            defaults[key.value] = s.value.args[1]
    if set(defaults) != {"c", "m", "T"}:
        raise AnchorMissing("kwargs.get of c, m, T")
    c_def = lean_rat(lit_number(defaults["c"]))
    m_def = int_expr(defaults["m"], set())
    if not (isinstance(defaults["T"], ast.Name) and defaults["T"].id == "sps"):
        raise AnchorMissing("T default = sps")

    # --- isinstance / range checks -------------------------------------------------------------------
    types, type_exc, bad, bad_exc = {}, {}, {}, {}
    guards = {}

    def scan(stmts, scope):
        for s in stmts:
            if not isinstance(s, ast.If):
                continue
            t = s.test
            # `if X is not None:` guard
            if isinstance(t, ast.Compare) and isinstance(t.ops[0], ast.IsNot) and isinstance(t.left, ast.Name) \
                    and isinstance(t.comparators[0], ast.Constant) and t.comparators[0].value is None:
                guards[t.left.id] = True
                scan(s.body, scope)
                continue
            if isinstance(t, ast.UnaryOp) and isinstance(t.op, ast.Not) and isinstance(t.operand, ast.Call) \
                    and ast.unparse(t.operand.func) == "isinstance" and isinstance(t.operand.args[0], ast.Name) \
                    and t.operand.args[0].id in ("c", "m", "T", "Vout", "bias"):
                var = t.operand.args[0].id
                ty = t.operand.args[1]
                names = [ty.id] if isinstance(ty, ast.Name) else \
                    [e.id for e in ty.elts] if isinstance(ty, ast.Tuple) and all(isinstance(e, ast.Name) for e in ty.elts) else None
                if names is None or var in types:
                    raise AnchorMissing(f"isinstance types of {var}")
                types[var] = names
                type_exc[var] = _raised(s.body)
                scan(s.orelse, scope)
                continue
            for var, kind in (("m", "int"), ("T", "int"), ("Vout", "rat"), ("bias", "rat")):
                if _mentions(t, var):
                    if var in bad:
                        raise AnchorMissing(f"second range test on {var}")
                    bad[var] = _cmp(t, var, kind)
                    bad_exc[var] = _raised(s.body)
                    break

    scan(ga_body, "gauss")
    scan(fn.body, "top")
    for v in ("c", "m", "T", "Vout", "bias"):
        if v not in types:
            raise AnchorMissing(f"isinstance check of {v}")
    for v in ("m", "T", "Vout", "bias"):
        if v not in bad:
            raise AnchorMissing(f"range check of {v}")
    if not (guards.get("Vout") and guards.get("bias")):
        raise AnchorMissing("`is not None` guards of Vout / bias")
    for v, e in list(type_exc.items()) + list(bad_exc.items()) + [("pulse_shape", unknown_exc)]:
        if e not in ("TypeError", "ValueError"):
            raise AnchorMissing(f"unexpected exception {e} for {v}")

    def strs(xs):
        return "[" + ", ".join('"' + x + '"' for x in xs) + "]"

    def exc(e):
        return "Wire.Err." + e

    return HEADER + f"""import OptiVerif.Model.Wire
namespace OptiVerif.Gen.DacLimits
open OptiVerif

def ratAbs (q : Rat) : Rat := if q < 0 then -q else q

/-- `if pulse_shape in [...]` ladder, in source order -/
def nrzNames : List String := {strs(nrz_names)}
def rzNames : List String := {strs(rz_names)}
def gaussNames : List String := {strs(ga_names)}
/-- exception of the final `else` -/
def unknownShapeErr : Wire.Err := {exc(unknown_exc)}

/-- `rz_pulse[: …] = 1` : number of leading samples of a slot that carry the pulse -/
def rzDuty (sps : Nat) : Nat := {duty}

/-- `kwargs.get` defaults (`T` defaults to `sps`) -/
def cDefault : Rat := {c_def}
def mDefault : Int := {m_def}

/-- second argument of `isinstance(·, …)` -/
def cTypes : List String := {strs(types['c'])}
def mTypes : List String := {strs(types['m'])}
def tTypes : List String := {strs(types['T'])}
def voutTypes : List String := {strs(types['Vout'])}
def biasTypes : List String := {strs(types['bias'])}
def cTypeErr : Wire.Err := {exc(type_exc['c'])}
def mTypeErr : Wire.Err := {exc(type_exc['m'])}
def tTypeErr : Wire.Err := {exc(type_exc['T'])}
def voutTypeErr : Wire.Err := {exc(type_exc['Vout'])}
def biasTypeErr : Wire.Err := {exc(type_exc['bias'])}

/-- range tests (true = rejected) -/
def mBad (v : Int) : Bool := {bad['m']}
def tBad (v sps : Int) : Bool := {bad['T']}
def voutBad (v : Rat) : Bool := {bad['Vout']}
def biasBad (v : Rat) : Bool := {bad['bias']}
def mBadErr : Wire.Err := {exc(bad_exc['m'])}
def tBadErr : Wire.Err := {exc(bad_exc['T'])}
def voutBadErr : Wire.Err := {exc(bad_exc['Vout'])}
def biasBadErr : Wire.Err := {exc(bad_exc['bias'])}

end OptiVerif.Gen.DacLimits
"""
