"""Decision tables and noise-power formulas of devices.PD  ->  Gen/PdTable.lean      (property C09)

Recognised shapes (anything else raises AnchorMissing):
  signature defaults  r, T, R_load, include_noise, i_dark, Fn
  if not isinstance(<v>, (int, float)): raise TypeError  elif <v OP lit [or v OP lit]>: raise ValueError     v in r, T, R_load
  if not isinstance(include_noise, str): raise TypeError
  i_sig = <real expression>                                  (`input.abs("signal")` is one opaque operand)
  include_noise = include_noise.lower()
  if "<a>" in include_noise or "<b>" in include_noise:       three blocks, recognised by the variable they assign
      S_T = <expr>;  i_T = np.random.normal(0, S_T**0.5, input.len())                      (thermal)
      [if input.noise is not None: i_ase = <expr> else: i_ase = 0]  S_N = <expr>; i_N = np.random.normal(0, S_N**0.5, input.len())   (shot)
      [if input.noise is not None: i_s_n = …; i_n_n = <expr> …]                               (ase)
  if include_noise == "<opt>": i_noise = <name + name + …>  elif … else: raise ValueError
  output = electrical_signal(signal=i_sig*R_load, noise=i_noise*R_load);  output = LPF(output, BW)
"""
import ast
import os
import sys

sys.path.insert(0, os.path.dirname(os.path.abspath(__file__)))
from extract import AnchorMissing, parse, find_def, lit_number, lean_rat, HEADER  # noqa: E402
import _fexpr  # noqa: E402

NAME = "PdTable"

_CMP = {ast.Gt: "gt", ast.GtE: "ge", ast.Lt: "lt", ast.LtE: "le"}


def _raised(body):
    if len(body) == 1 and isinstance(body[0], ast.Raise) and isinstance(body[0].exc, ast.Call) \
            and isinstance(body[0].exc.func, ast.Name):
        return body[0].exc.func.id
    raise AnchorMissing("raise <Exc>(...) expected")


def _isinstance_not(test, var):
    """`not isinstance(var, T)` -> list of type names"""
    if not (isinstance(test, ast.UnaryOp) and isinstance(test.op, ast.Not) and isinstance(test.operand, ast.Call)
            and ast.unparse(test.operand.func) == "isinstance" and len(test.operand.args) == 2
            and isinstance(test.operand.args[0], ast.Name) and test.operand.args[0].id == var):
        return None
    t = test.operand.args[1]
    elts = t.elts if isinstance(t, ast.Tuple) else [t]
    if not all(isinstance(e, ast.Name) for e in elts):
        raise AnchorMissing(f"isinstance types of {var}")
    return [e.id for e in elts]


def _cmps(test, var):
    parts = test.values if isinstance(test, ast.BoolOp) and isinstance(test.op, ast.Or) else [test]
    out = []
    for p in parts:
        if not (isinstance(p, ast.Compare) and len(p.ops) == 1 and type(p.ops[0]) in _CMP
                and isinstance(p.left, ast.Name) and p.left.id == var):
            raise AnchorMissing(f"range test of {var}: {ast.unparse(test)[:60]}")
        out.append((_CMP[type(p.ops[0])], lit_number(p.comparators[0])))
    return out


def _validation(fn, var):
    for node in fn.body:
        if isinstance(node, ast.If):
            types = _isinstance_not(node.test, var)
            if types is None:
                continue
            terr = _raised(node.body)
            rng, verr = [], None
            if node.orelse:
                if not (len(node.orelse) == 1 and isinstance(node.orelse[0], ast.If) and not node.orelse[0].orelse):
                    raise AnchorMissing(f"elif of {var}")
                rng = _cmps(node.orelse[0].test, var)
                verr = _raised(node.orelse[0].body)
            return types, terr, rng, verr
    raise AnchorMissing(f"validation of {var}")


def _triggers(test):
    parts = test.values if isinstance(test, ast.BoolOp) and isinstance(test.op, ast.Or) else [test]
    out = []
    for p in parts:
        if not (isinstance(p, ast.Compare) and len(p.ops) == 1 and isinstance(p.ops[0], ast.In)
                and isinstance(p.left, ast.Constant) and isinstance(p.left.value, str)
                and isinstance(p.comparators[0], ast.Name) and p.comparators[0].id == "include_noise"):
            return None
        out.append(p.left.value)
    return out


def _assign(body, name):
    hits = [n for n in body if isinstance(n, ast.Assign) and len(n.targets) == 1 and isinstance(n.targets[0], ast.Name)
            and n.targets[0].id == name]
    if len(hits) != 1:
        raise AnchorMissing(f"exactly one assignment to {name} expected")
    return hits[0].value


def _normal_call(node, var):
    """np.random.normal(0, var**0.5, input.len())"""
    if not (isinstance(node, ast.Call) and ast.unparse(node.func) == "np.random.normal" and len(node.args) == 3
            and not node.keywords):
        raise AnchorMissing("np.random.normal(loc, scale, size)")
    loc, scale, size = node.args
    if not (isinstance(scale, ast.BinOp) and isinstance(scale.op, ast.Pow) and isinstance(scale.left, ast.Name)
            and scale.left.id == var and isinstance(scale.right, ast.Constant) and scale.right.value == 0.5):
        raise AnchorMissing(f"scale must be {var}**0.5")
    if ast.unparse(size) != "input.len()":
        raise AnchorMissing("size must be input.len()")
    return lit_number(loc)


def _names_sum(node):
    if isinstance(node, ast.Name):
        return [node.id]
    if isinstance(node, ast.BinOp) and isinstance(node.op, ast.Add) and isinstance(node.right, ast.Name):
        return _names_sum(node.left) + [node.right.id]
    raise AnchorMissing("i_noise must be a left-to-right sum of names")


def _strs(xs):
    return "[" + ", ".join('"' + x + '"' for x in xs) + "]"


def generate(repo):
    tree, _ = parse(repo, "opticomlib/devices.py")
    fn = find_def(tree, "PD")
    # ---- defaults
    args = fn.args.args
    defaults = dict(zip([a.arg for a in args[len(args) - len(fn.args.defaults):]], fn.args.defaults))
    for k in ("r", "T", "R_load", "include_noise", "i_dark", "Fn"):
        if k not in defaults:
            raise AnchorMissing(f"default of {k}")
    if not (isinstance(defaults["include_noise"], ast.Constant) and isinstance(defaults["include_noise"].value, str)):
        raise AnchorMissing("default of include_noise")
    # ---- validation
    val = {v: _validation(fn, v) for v in ("r", "T", "R_load")}
    str_types, str_err = None, None
    for node in fn.body:
        if isinstance(node, ast.If):
            t = _isinstance_not(node.test, "include_noise")
            if t is not None:
                str_types, str_err = t, _raised(node.body)
    if str_types is None:
        raise AnchorMissing("isinstance(include_noise, str)")
    # first check: input type
    first_if = next((n for n in fn.body if isinstance(n, ast.If)), None)
    in_types = _isinstance_not(first_if.test, "input") if first_if is not None else None
    if in_types is None:
        raise AnchorMissing("first check must be isinstance(input, optical_signal)")
    in_err = _raised(first_if.body)
    # ---- lower()
    low = _assign(fn.body, "include_noise")
    if ast.unparse(low) != "include_noise.lower()":
        raise AnchorMissing("include_noise = include_noise.lower()")
    # ---- i_sig
    i_sig = _assign(fn.body, "i_sig")
    # ---- the three trigger blocks
    blocks = {}
    order = []
    for node in fn.body:
        if isinstance(node, ast.If):
            tr = _triggers(node.test)
            if tr is None:
                continue
            assigned = {n.targets[0].id for n in ast.walk(node) if isinstance(n, ast.Assign) and len(n.targets) == 1
                        and isinstance(n.targets[0], ast.Name)}
            kind = "thermal" if "i_T" in assigned else "shot" if "i_N" in assigned else "ase" if "i_s_n" in assigned else None
            if kind is None or kind in blocks or node.orelse:
                raise AnchorMissing("trigger block shape")
            blocks[kind] = (tr, node)
            order.append(kind)
    if sorted(blocks) != ["ase", "shot", "thermal"]:
        raise AnchorMissing("three trigger blocks expected")
    th = blocks["thermal"][1]
    sh = blocks["shot"][1]
    s_t = _assign(th.body, "S_T")
    loc_t = _normal_call(_assign(th.body, "i_T"), "S_T")
    s_n = _assign(sh.body, "S_N")
    loc_n = _normal_call(_assign(sh.body, "i_N"), "S_N")
    # i_ase: if input.noise is not None: i_ase = E else: i_ase = 0
    ase_if = [n for n in sh.body if isinstance(n, ast.If)]
    if not (len(ase_if) == 1 and ast.unparse(ase_if[0].test) == "input.noise is not None" and len(ase_if[0].orelse) == 1):
        raise AnchorMissing("i_ase block")
    i_ase = _assign(ase_if[0].body, "i_ase")
    i_ase0 = lit_number(_assign(ase_if[0].orelse, "i_ase"))
    ab = blocks["ase"][1]
    ab_if = [n for n in ab.body if isinstance(n, ast.If)]
    if not (len(ab_if) == 1 and ast.unparse(ab_if[0].test) == "input.noise is not None"):
        raise AnchorMissing("ase block")
    i_n_n = _assign(ab_if[0].body, "i_n_n")
    i_s_n = _assign(ab_if[0].body, "i_s_n")
    if ast.unparse(i_s_n) != "r * (input.signal * input.noise.conj() + input.noise * input.signal.conj()).real":
        raise AnchorMissing("i_s_n expression")
    # ---- ladder
    ladder, node = [], None
    for n in fn.body:
        if isinstance(n, ast.If) and isinstance(n.test, ast.Compare) and isinstance(n.test.ops[0], ast.Eq) \
                and ast.unparse(n.test.left) == "include_noise":
            node = n
    if node is None:
        raise AnchorMissing("include_noise == ... ladder")
    else_err = None
    while True:
        t = node.test
        if not (isinstance(t, ast.Compare) and len(t.ops) == 1 and isinstance(t.ops[0], ast.Eq)
                and ast.unparse(t.left) == "include_noise" and isinstance(t.comparators[0], ast.Constant)
                and isinstance(t.comparators[0].value, str)):
            raise AnchorMissing("ladder test")
        ladder.append((t.comparators[0].value, _names_sum(_assign(node.body, "i_noise"))))
        if len(node.orelse) == 1 and isinstance(node.orelse[0], ast.If):
            node = node.orelse[0]
            continue
        else_err = _raised(node.orelse)
        break
    # ---- output
    out = _assign(fn.body, "output") if False else None  # two assignments: handled below
    outs = [n.value for n in fn.body if isinstance(n, ast.Assign) and len(n.targets) == 1
            and isinstance(n.targets[0], ast.Name) and n.targets[0].id == "output"]
    if [ast.unparse(o) for o in outs] != ["electrical_signal(signal=i_sig * R_load, noise=i_noise * R_load)", "LPF(output, BW)"]:
        raise AnchorMissing("output = electrical_signal(signal=i_sig*R_load, noise=i_noise*R_load); output = LPF(output, BW)")

    def rej(v):
        return "[" + ", ".join(f'("{op}", {lean_rat(q)})' for op, q in val[v][2]) + "]"

    txt = HEADER + "import OptiVerif.Model.Wire\nnamespace OptiVerif.Gen.PdTable\nopen OptiVerif\n\n"
    txt += "/-- defaults of the signature -/\n"
    for k, nm in (("r", "rDefault"), ("T", "tDefault"), ("R_load", "rLoadDefault"), ("i_dark", "iDarkDefault"), ("Fn", "fnDefault")):
        txt += f"def {nm} : Rat := {lean_rat(lit_number(defaults[k]))}\n"
    txt += f'def selDefault : String := "{defaults["include_noise"].value}"\n\n'
    txt += "/-- first check: `isinstance(input, …)` -/\n"
    txt += f"def inputTypes : List String := {_strs(in_types)}\ndef inputErr : Wire.Err := Wire.Err.{in_err}\n\n"
    txt += "/-- `isinstance(v, …)` type lists, the exception raised otherwise, the rejecting comparisons `v OP literal` (joined by `or`) and their exception -/\n"
    for v, nm in (("r", "r"), ("T", "t"), ("R_load", "rLoad")):
        types, terr, _, verr = val[v]
        txt += f"def {nm}Types : List String := {_strs(types)}\ndef {nm}TypeErr : Wire.Err := Wire.Err.{terr}\n"
        txt += f"def {nm}Reject : List (String × Rat) := {rej(v)}\ndef {nm}RangeErr : Wire.Err := Wire.Err.{verr}\n"
    txt += f"def selTypes : List String := {_strs(str_types)}\ndef selTypeErr : Wire.Err := Wire.Err.{str_err}\n\n"
    txt += "/-- substring tests guarding the three noise blocks, and the source order of the blocks -/\n"
    for k in ("thermal", "shot", "ase"):
        txt += f"def {k}Triggers : List String := {_strs(blocks[k][0])}\n"
    txt += f"def blockOrder : List String := {_strs(order)}\n\n"
    txt += "/-- `loc` handed to `np.random.normal` (the scale is `S**0.5`, the size `input.len()`) -/\n"
    txt += f"def thermalLoc : Rat := {lean_rat(loc_t)}\ndef shotLoc : Rat := {lean_rat(loc_n)}\n"
    txt += f"/-- `i_ase` when the input has no noise component -/\ndef iAseNoNoise : Rat := {lean_rat(i_ase0)}\n\n"
    txt += "/-- the ladder `include_noise == <option>: i_noise = <terms, summed left to right>` in source order -/\n"
    txt += "def ladder : List (String × List String) := [\n" + ",\n".join(
        f'  ("{k}", {_strs(v)})' for k, v in ladder) + "]\n"
    txt += f"def ladderElseErr : Wire.Err := Wire.Err.{else_err}\n\n"
    txt += _fexpr.SECTION_OPEN
    txt += _fexpr.lean_def("iSig", i_sig, "i_sig = " + ast.unparse(i_sig), order=["r", "input_abs_signal"]) + "\n"
    txt += _fexpr.lean_def("iNN", i_n_n, "i_n_n = " + ast.unparse(i_n_n), order=["r", "input_abs_noise"]) + "\n"
    txt += _fexpr.lean_def("iAse", i_ase, "i_ase = " + ast.unparse(i_ase), order=["r", "input_power_noise_sum"]) + "\n"
    txt += _fexpr.lean_def("sT", s_t, "S_T = " + ast.unparse(s_t), order=["kB", "T", "gv_fs", "idb_Fn", "R_load"]) + "\n"
    txt += _fexpr.lean_def("sN", s_n, "S_N = " + ast.unparse(s_n), order=["e", "i_sig_mean", "i_ase", "i_dark", "gv_fs"]) + "\n"
    txt += _fexpr.SECTION_CLOSE
    txt += "\nend OptiVerif.Gen.PdTable\n"
    return txt
