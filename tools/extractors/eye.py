"""constants and shapes of devices.GET_EYE  ->  Gen/Eye.lean

    v75 = state_1 - Q * d01 ; v25 = state_0 + Q * d01                         -> quarter
    t_span0 = t_center - W * t_dist ; t_span1 = t_center + W * t_dist          -> spanFrac
    x = np.linspace(mu0, mu1, K)                                              -> thrPoints
    shortest_int(input[input > vm], percent=P) / (input < vm)                 -> percent
    eye_h = mu1 - E * s1 - mu0 - E * s0                                        -> eyeSigmas
    except ValueError: t_left = A ; t_right = B ; t_opt = C                   -> tLeftDefault, tRightDefault, tOptDefault
    sk.KMeans(n_clusters=2, n_init=N)                                         -> nClusters, nInit
    shapes checked: roll `-sps // 2 + 1`, the time axis, y_center, instant, the normalised clustering input
"""
import ast
from extract import AnchorMissing, parse, find_def, lit_number, lean_rat, HEADER

NAME = "Eye"


def _assign_values(fn, name):
    """values of every assignment (single or chained) one of whose targets is Name `name` or eye_dict["name"]"""
    out = []
    for node in ast.walk(fn):
        if isinstance(node, ast.Assign):
            for t in node.targets:
                if (isinstance(t, ast.Name) and t.id == name) or (
                        isinstance(t, ast.Subscript) and ast.unparse(t) == f"eye_dict['{name}']"):
                    out.append(node.value)
                    break
    return out


def _one(fn, name):
    v = _assign_values(fn, name)
    if len(v) != 1:
        raise AnchorMissing(f"GET_EYE: one assignment to {name} (found {len(v)})")
    return v[0]


def _lit_times(node, other, what):
    """node == <literal> * other  ->  the literal"""
    if isinstance(node, ast.BinOp) and isinstance(node.op, ast.Mult) and ast.unparse(node.right) == other:
        return lit_number(node.left)
    raise AnchorMissing(what)


def generate(repo):
    tree, _ = parse(repo, "opticomlib/devices.py")
    fn = find_def(tree, "GET_EYE")
    v75, v25 = _one(fn, "v75"), _one(fn, "v25")
    if not (isinstance(v75, ast.BinOp) and isinstance(v75.op, ast.Sub) and ast.unparse(v75.left) == "state_1"
            and isinstance(v25, ast.BinOp) and isinstance(v25.op, ast.Add) and ast.unparse(v25.left) == "state_0"):
        raise AnchorMissing("v75 = state_1 - Q*d01 ; v25 = state_0 + Q*d01")
    q75, q25 = _lit_times(v75.right, "d01", "v75"), _lit_times(v25.right, "d01", "v25")
    if q75 != q25:
        raise AnchorMissing("v25/v75 use different fractions")
    for name, text in (("state_1", "np.mean(top_int)"), ("state_0", "np.mean(bot_int)"), ("d01", "state_1 - state_0"),
                       ("y_center", "(state_0 + state_1) / 2"), ("t_dist", "t_right - t_left")):
        if ast.unparse(_one(fn, name)) != text:
            raise AnchorMissing(f"{name} = {text}")
    s0, s1 = _one(fn, "t_span0"), _one(fn, "t_span1")
    if not (isinstance(s0, ast.BinOp) and isinstance(s0.op, ast.Sub) and ast.unparse(s0.left) == "t_center"
            and isinstance(s1, ast.BinOp) and isinstance(s1.op, ast.Add) and ast.unparse(s1.left) == "t_center"):
        raise AnchorMissing("t_span0/1 = t_center -/+ W*t_dist")
    w0, w1 = _lit_times(s0.right, "t_dist", "t_span0"), _lit_times(s1.right, "t_dist", "t_span1")
    if w0 != w1:
        raise AnchorMissing("t_span0/t_span1 use different fractions")
    xs = [v for v in _assign_values(fn, "x") if isinstance(v, ast.Call) and ast.unparse(v.func) == "np.linspace"]
    if len(xs) != 1 or [ast.unparse(a) for a in xs[0].args[:2]] != ["mu0", "mu1"]:
        raise AnchorMissing("x = np.linspace(mu0, mu1, K)")
    kpts = lit_number(xs[0].args[2])
    pct = []
    for name, sel in (("top_int", "input[input > vm]"), ("bot_int", "input[input < vm]")):
        c = _one(fn, name)
        if not (isinstance(c, ast.Call) and ast.unparse(c.func) == "shortest_int" and ast.unparse(c.args[0]) == sel):
            raise AnchorMissing(f"{name} = shortest_int({sel}, percent=P)")
        pct.append(lit_number({k.arg: k.value for k in c.keywords}["percent"]))
    if pct[0] != pct[1]:
        raise AnchorMissing("different percent for top and bottom")
    eh = _one(fn, "eye_h")
    u = ast.unparse(eh)
    # mu1 - E * s1 - mu0 - E * s0
    try:
        e1 = _lit_times(eh.left.left.right, "s1", "eye_h")
        e0 = _lit_times(eh.right, "s0", "eye_h")
    except AttributeError:
        raise AnchorMissing("eye_h = mu1 - E*s1 - mu0 - E*s0")
    if e1 != e0 or u != f"mu1 - {ast.unparse(eh.left.left.right.left)} * s1 - mu0 - {ast.unparse(eh.right.left)} * s0":
        raise AnchorMissing("eye_h = mu1 - E*s1 - mu0 - E*s0")
    # defaults of the ValueError branch
    handler = None
    for node in ast.walk(fn):
        if isinstance(node, ast.ExceptHandler) and node.type is not None and ast.unparse(node.type) == "ValueError":
            handler = node
    if handler is None:
        raise AnchorMissing("except ValueError")
    dflt = {}
    for st in handler.body:
        if isinstance(st, ast.Assign):
            for t in st.targets:
                if isinstance(t, ast.Name) and t.id in ("t_left", "t_right", "t_center"):
                    dflt[t.id] = lit_number(st.value)
    if set(dflt) != {"t_left", "t_right", "t_center"}:
        raise AnchorMissing("defaults of t_left, t_right, t_center")
    km = [n for n in ast.walk(fn) if isinstance(n, ast.Call) and ast.unparse(n.func) == "sk.KMeans"]
    if len(km) != 1:
        raise AnchorMissing("one sk.KMeans(...)")
    kk = {k.arg: lit_number(k.value) for k in km[0].keywords}
    if set(kk) != {"n_clusters", "n_init"}:
        raise AnchorMissing("sk.KMeans(n_clusters=., n_init=.)")
    # shapes
    shapes = {
        "input": "np.roll(input, -sps // 2 + 1)",
        "ty": "np.vstack([t[cond], (input[cond] - state_0) / d01]).T",
        "ty_c": "kmeans.cluster_centers_ * [1, d01] + [0, state_0]",
        "instant": "np.abs(t - t_center).argmin() - sps_resamp // 2 + 1",
        "t": "np.kron(np.ones(nslots // 2), np.linspace(-1, 1 - 1 / sps_resamp, 2 * sps_resamp))",
    }
    for name, text in shapes.items():
        if text not in [ast.unparse(v) for v in _assign_values(fn, name)]:
            raise AnchorMissing(f"{name} = {text}")
    for text in ("int(instant / sps_resamp * sps)", "np.abs(t - t_center).argmin() - sps // 2 + 1"):
        if text not in [ast.unparse(v) for v in _assign_values(fn, "instant")]:
            raise AnchorMissing(f"instant = {text}")
    if "(input > v25) & (input < v75)" not in [ast.unparse(v) for v in _assign_values(fn, "cond")]:
        raise AnchorMissing("cond = (input > v25) & (input < v75)")

    def d(name, doc, q, typ="Rat"):
        val = lean_rat(q) if typ == "Rat" else str(int(q))
        return f"/-- {doc} -/\ndef {name} : {typ} := {val}\n\n"
    body = (d("quarter", "`v75 = state_1 - quarter*d01`, `v25 = state_0 + quarter*d01`", q75)
            + d("spanFrac", "`t_span0 = t_center - spanFrac*t_dist`, `t_span1 = t_center + spanFrac*t_dist`", w0)
            + d("thrPoints", "`x = np.linspace(mu0, mu1, thrPoints)`", kpts, "Nat")
            + d("percent", "`shortest_int(..., percent=percent)`", pct[0])
            + d("eyeSigmas", "`eye_h = mu1 - eyeSigmas*s1 - mu0 - eyeSigmas*s0`", e1)
            + d("tLeftDefault", "`except ValueError: t_left = ...`", dflt["t_left"])
            + d("tRightDefault", "`t_right = ...`", dflt["t_right"])
            + d("tOptDefault", "`t_opt = ...`", dflt["t_center"])
            + d("nClusters", "`sk.KMeans(n_clusters=...)`", kk["n_clusters"], "Nat")
            + d("nInit", "`sk.KMeans(n_init=...)`", kk["n_init"], "Nat"))
    return HEADER + "namespace OptiVerif.Gen.Eye\n\n" + body + "end OptiVerif.Gen.Eye\n"
