"""dB/km -> 1/km constant of devices.FIBER (`alpha = alpha / 4.343`)  ->  Gen/FiberConst.lean"""
import ast
from extract import AnchorMissing, parse, find_def, assigns_to, lit_number, HEADER

NAME = "FiberConst"


def generate(repo):
    tree, _ = parse(repo, "opticomlib/devices.py")
    fn = find_def(tree, "FIBER")
    hits = []
    for a in assigns_to(fn, "alpha"):
        v = a.value
        if isinstance(v, ast.BinOp) and isinstance(v.op, ast.Div) and isinstance(v.left, ast.Name) and v.left.id == "alpha":
            hits.append(lit_number(v.right))
    if len(hits) != 1:
        raise AnchorMissing("alpha = alpha / <literal>")
    q = hits[0]
    # units of w and of D in DM: `w = input.w() * 1e-12`, `D *= 1e-12**2`
    wconv = None
    for a in assigns_to(fn, "w"):
        v = a.value
        if isinstance(v, ast.BinOp) and isinstance(v.op, ast.Mult) and ast.unparse(v.left) == "input.w()":
            wconv = lit_number(v.right)
    if wconv is None:
        raise AnchorMissing("w = input.w() * <literal>")
    dm = find_def(tree, "DM")
    dconv = None
    for node in ast.walk(dm):
        if isinstance(node, ast.AugAssign) and isinstance(node.op, ast.Mult) and getattr(node.target, "id", None) == "D":
            dconv = lit_number(node.value)
    if dconv is None:
        raise AnchorMissing("D *= <literal>")
    return HEADER + f"""namespace OptiVerif.Gen.FiberConst

/-- `alpha = alpha / kappa` in FIBER (dB/km → 1/km) -/
def kappa : Rat := ({q.numerator} : Rat) / {q.denominator}

/-- `w = input.w() * wConv` in FIBER (rad/s → rad/ps) -/
def wConv : Rat := ({wconv.numerator} : Rat) / {wconv.denominator}

/-- `D *= dConv` in DM (ps² → s²) -/
def dConv : Rat := ({dconv.numerator} : Rat) / {dconv.denominator}

end OptiVerif.Gen.FiberConst
"""
