"""Arithmetic of MZM, PM, LASER, EDFA (devices.py) and idb/idbm (utils.py)  ->  Gen/OptDev.lean   (properties C06, C10)

Every formula of these blocks is re-read from the source on each run and re-emitted as a generic Lean definition over a
carrier `R` (`[Add R] [Sub R] [Mul R] [Div R] [Neg R] [NatCast R] [Transc R]`), keeping Python's left-to-right association by
full parenthesisation.  `Model/Modulators.lean` / `Model/Edfa.lean` are built from these definitions and `Props/C06.lean`,
`Props/C10.lean` pin them to the documented formulas, so a changed constant / operand / order breaks a theorem.

Real-valued expressions: integer literals, names (mapped to parameters), `pi`, `gv.x`, `+ - * /`, unary minus, `10**e`,
`e**0.5`, `np.sqrt/np.cos/np.sin(e)`, `idb(e)`, `idbm(e)`.
Complex-valued expressions containing the literal `1j` are split into (re, im) by the rules
  real*(re,im) = (real*re, real*im), (re,im)*real = (re*real, im*real), (re,im)/real = (re/real, im/real), real+(re,im) = (real+re, im),
with `1j` the unit (`1j*x` has imaginary part `x`, no real part).  `np.exp(z)` is accepted only for purely imaginary `z` and
yields the phase.  Anything else raises AnchorMissing (the previous Gen file is kept and the run reports it).
"""
import ast
from extract import AnchorMissing, parse, find_def, HEADER

NAME = "OptDev"

_OPS = {ast.Add: "+", ast.Sub: "-", ast.Mult: "*", ast.Div: "/"}
_FUN = {"np.sqrt": "Transc.sqrt", "np.cos": "Transc.cos", "np.sin": "Transc.sin", "idb": "idb", "idbm": "idbm"}


def _has_j(node):
    return any(isinstance(n, ast.Constant) and isinstance(n.value, complex) for n in ast.walk(node))


class Tr:
    """translator of one expression; `names`: source text of a leaf -> Lean parameter / constant"""

    def __init__(self, names, what):
        self.names = dict(names)
        self.names.setdefault("pi", "Transc.pi")
        self.what = what

    def fail(self, node, why):
        raise AnchorMissing(f"{self.what}: {why}: `{ast.unparse(node)[:70]}`")

    def real(self, n):
        src = ast.unparse(n)
        if src in self.names:
            return self.names[src]
        if isinstance(n, ast.Constant):
            if isinstance(n.value, bool) or not isinstance(n.value, int) or n.value < 0:
                self.fail(n, "unsupported literal")
            return f"(lit {n.value})"
        if isinstance(n, ast.UnaryOp) and isinstance(n.op, ast.USub):
            return f"(-{self.real(n.operand)})"
        if isinstance(n, ast.BinOp):
            if isinstance(n.op, ast.Pow):
                if isinstance(n.left, ast.Constant) and n.left.value == 10 and not isinstance(n.left.value, bool):
                    return f"(pow10 {self.real(n.right)})"
                if isinstance(n.right, ast.Constant) and n.right.value == 0.5 and isinstance(n.right.value, float):
                    return f"(Transc.sqrt {self.real(n.left)})"
                self.fail(n, "unsupported power")
            if type(n.op) in _OPS:
                return f"({self.real(n.left)} {_OPS[type(n.op)]} {self.real(n.right)})"
            self.fail(n, "unsupported operator")
        if isinstance(n, ast.Call) and not n.keywords and len(n.args) == 1 and ast.unparse(n.func) in _FUN:
            return f"({_FUN[ast.unparse(n.func)]} {self.real(n.args[0])})"
        self.fail(n, "unsupported real expression")

    def cplx(self, n):
        """(re, im) Lean terms; None = exactly zero; "1" marks the bare unit"""
        if not _has_j(n):
            return self.real(n), None
        if isinstance(n, ast.Constant):
            if n.value == 1j:
                return None, "1"
            self.fail(n, "unsupported complex literal")
        if isinstance(n, ast.BinOp) and type(n.op) in (ast.Mult, ast.Div):
            lj, rj = _has_j(n.left), _has_j(n.right)
            if lj and rj:
                self.fail(n, "product of two complex factors")
            op = _OPS[type(n.op)]
            if lj:
                re, im = self.cplx(n.left)
                r = self.real(n.right)

                def f(c):
                    if c is None:
                        return None
                    if c == "1":
                        if op == "/":
                            self.fail(n, "division of the bare unit")
                        return r
                    return f"({c} {op} {r})"
                return f(re), f(im)
            if isinstance(n.op, ast.Div):
                self.fail(n, "division by a complex term")
            re, im = self.cplx(n.right)
            l = self.real(n.left)

            def g(c):
                if c is None:
                    return None
                return l if c == "1" else f"({l} * {c})"
            return g(re), g(im)
        if isinstance(n, ast.BinOp) and isinstance(n.op, ast.Add):
            a, b = self.cplx(n.left), self.cplx(n.right)

            def s(x, y):
                if x is None:
                    return y
                if y is None:
                    return x
                return f"({x} + {y})"
            return s(a[0], b[0]), s(a[1], b[1])
        self.fail(n, "unsupported complex expression")

    def phase(self, call):
        """`np.exp(z)` with purely imaginary z -> the phase"""
        if not (isinstance(call, ast.Call) and ast.unparse(call.func) == "np.exp" and len(call.args) == 1 and not call.keywords):
            self.fail(call, "np.exp(1j*...) expected")
        re, im = self.cplx(call.args[0])
        if re is not None or im is None or im == "1":
            self.fail(call, "purely imaginary exponent expected")
        return im


def _stmts(body):
    """all statements in source order (descending into if/else bodies)"""
    for st in body:
        yield st
        for attr in ("body", "orelse"):
            sub = getattr(st, attr, None)
            if isinstance(sub, list) and not isinstance(st, (ast.FunctionDef, ast.ClassDef)):
                yield from _stmts(sub)


def _assigns(fn, target):
    """values assigned to `target` (source text of the single target), in source order"""
    return [st.value for st in _stmts(fn.body)
            if isinstance(st, ast.Assign) and len(st.targets) == 1 and ast.unparse(st.targets[0]) == target]


def _one(vals, what):
    if len(vals) != 1:
        raise AnchorMissing(f"{what}: {len(vals)} matches")
    return vals[0]


def _mul(node, what):
    if not (isinstance(node, ast.BinOp) and isinstance(node.op, ast.Mult)):
        raise AnchorMissing(f"{what}: a product expected in `{ast.unparse(node)[:70]}`")
    return node.left, node.right


def _defn(name, params, term, doc):
    sig = f" ({' '.join(params)} : R)" if params else ""
    return f"/-- `{doc}` -/\ndef {name}{sig} : R :=\n  {term}\n\n"


def generate(repo):
    dev, _ = parse(repo, "opticomlib/devices.py")
    utl, _ = parse(repo, "opticomlib/utils.py")
    out = []

    # ---- utils.idb / utils.idbm:  x = np.array(x); return <expr of x> -----------------------------------------------
    for fname in ("idb", "idbm"):
        fn = find_def(utl, fname)
        rets = [st for st in _stmts(fn.body) if isinstance(st, ast.Return)]
        if len(rets) != 1 or rets[0].value is None:
            raise AnchorMissing(f"utils.{fname}: single return")
        pre = [ast.unparse(st) for st in fn.body if isinstance(st, ast.Assign)]
        if pre != ["x = np.array(x)"]:
            raise AnchorMissing(f"utils.{fname}: body shape {pre}")
        out.append(_defn(fname, ["x"], Tr({"x": "x"}, f"utils.{fname}").real(rets[0].value), f"utils.{fname}: return {ast.unparse(rets[0].value)}"))

    # ---- MZM -------------------------------------------------------------------------------------------------------
    fn = find_def(dev, "MZM")
    v = _one(_assigns(fn, "loss"), "MZM loss")
    out.append(_defn("mzmLoss", ["loss_dB"], Tr({"loss_dB": "loss_dB"}, "MZM loss").real(v), f"loss = {ast.unparse(v)}"))
    v = _one(_assigns(fn, "eta"), "MZM eta")
    out.append(_defn("mzmEta", ["ER_dB"], Tr({"ER_dB": "ER_dB"}, "MZM eta").real(v), f"eta = {ast.unparse(v)}"))
    v = _one(_assigns(fn, "g_t"), "MZM g_t")
    out.append(_defn("mzmG", ["Vpi", "bias", "u"], Tr({"Vpi": "Vpi", "bias": "bias", "el_input.signal": "u"}, "MZM g_t").real(v),
                     f"g_t = {ast.unparse(v)}"))
    v = _one(_assigns(fn, "h_t"), "MZM h_t")
    re, im = Tr({"loss": "loss", "eta": "eta", "g_t": "g_t"}, "MZM h_t").cplx(v)
    if re is None or im is None or im == "1":
        raise AnchorMissing("MZM h_t: real and imaginary part expected")
    out.append(_defn("mzmHre", ["loss", "eta", "g_t"], re, f"Re of h_t = {ast.unparse(v)}"))
    out.append(_defn("mzmHim", ["loss", "eta", "g_t"], im, f"Im of h_t = {ast.unparse(v)}"))
    # the same h_t multiplies signal and noise
    for tgt in ("output.signal", "output.noise"):
        vals = [ast.unparse(x) for x in _assigns(fn, tgt) if isinstance(x, ast.BinOp)]
        if vals != [f"{tgt} * h_t"]:
            raise AnchorMissing(f"MZM: `{tgt} = {tgt} * h_t` expected, found {vals}")

    # ---- PM --------------------------------------------------------------------------------------------------------
    fn = find_def(dev, "PM")
    for tgt, src, name in (("output.signal", "op_input.signal", "pmPhaseSignal"), ("output.noise", "op_input.noise", "pmPhaseNoise")):
        vals = [x for x in _assigns(fn, tgt) if isinstance(x, ast.BinOp)]
        v = _one(vals, f"PM {tgt}")
        l, r = _mul(v, f"PM {tgt}")
        if ast.unparse(l) != src:
            raise AnchorMissing(f"PM: `{tgt} = {src} * np.exp(...)` expected")
        ph = Tr({"el_input": "u", "Vpi": "Vpi"}, f"PM {tgt}").phase(r)
        out.append(_defn(name, ["Vpi", "u"], ph, f"phase of {ast.unparse(r)} applied to {src}"))

    # ---- LASER -----------------------------------------------------------------------------------------------------
    fn = find_def(dev, "LASER")
    ops = _assigns(fn, "op_output")
    if len(ops) != 5:
        raise AnchorMissing(f"LASER: 5 assignments to op_output expected, found {len(ops)}")
    amp, ph, rin, off, wrap = ops
    l, r = _mul(amp, "LASER amplitude")
    if ast.unparse(l) != "np.ones_like(t)":
        raise AnchorMissing("LASER: np.ones_like(t) * <amplitude>")
    out.append(_defn("laserAmp", ["p"], Tr({"p": "p"}, "LASER amplitude").real(r), f"op_output = {ast.unparse(amp)}"))

    def normal_scale(target, what):
        v = _one(_assigns(fn, target), what)
        call = v
        if target == "phase_noise":
            if not (isinstance(v, ast.Call) and ast.unparse(v.func) == "np.cumsum" and len(v.args) == 1):
                raise AnchorMissing("LASER: phase_noise = np.cumsum(np.random.normal(...))")
            call = v.args[0]
        if not (isinstance(call, ast.Call) and ast.unparse(call.func) == "np.random.normal" and len(call.args) == 3
                and ast.unparse(call.args[0]) == "0" and ast.unparse(call.args[2]) == "t.size" and not call.keywords):
            raise AnchorMissing(f"{what}: np.random.normal(0, <scale>, t.size) expected")
        return call.args[1]
    s = normal_scale("phase_noise", "LASER phase noise")
    out.append(_defn("laserPhaseSigma", ["lw", "dt"], Tr({"lw": "lw", "gv.dt": "dt"}, "LASER phase sigma").real(s),
                     f"scale of the phase-increment draw: {ast.unparse(s)}"))
    s = normal_scale("rin_noise", "LASER RIN")
    out.append(_defn("laserRinSigma", ["rin", "fs"], Tr({"rin": "rin", "gv.fs": "fs"}, "LASER RIN sigma").real(s),
                     f"scale of the RIN draw: {ast.unparse(s)}"))
    for node, what in ((ph, "phase"), (rin, "rin"), (off, "offset")):
        l, _r = _mul(node, f"LASER {what}")
        if ast.unparse(l) != "op_output":
            raise AnchorMissing(f"LASER {what}: op_output * <factor> expected")
    out.append(_defn("laserPhaseArg", ["phase_noise"], Tr({"phase_noise": "phase_noise"}, "LASER phase").phase(ph.right),
                     f"phase of {ast.unparse(ph.right)}"))
    out.append(_defn("laserRinFactor", ["rin_noise"], Tr({"rin_noise": "rin_noise"}, "LASER RIN factor").real(rin.right),
                     f"op_output * {ast.unparse(rin.right)}"))
    out.append(_defn("laserOffsetArg", ["df", "t"], Tr({"df": "df", "t": "t"}, "LASER offset").phase(off.right),
                     f"phase of {ast.unparse(off.right)}"))
    if ast.unparse(wrap) != "optical_signal(op_output)":
        raise AnchorMissing("LASER: op_output = optical_signal(op_output)")
    # if np.abs(df) > gv.fs/2: raise ValueError ; if rin_noise.min() < -1: raise ValueError
    tests = {ast.unparse(st.test): st for st in _stmts(fn.body) if isinstance(st, ast.If)}
    ny = [t for t in tests.values() if isinstance(t.test, ast.Compare) and ast.unparse(t.test.left) == "np.abs(df)"]
    if len(ny) != 1 or not isinstance(ny[0].test.ops[0], ast.Gt) or len(ny[0].test.ops) != 1:
        raise AnchorMissing("LASER: if np.abs(df) > <limit>")
    lim = ny[0].test.comparators[0]
    out.append(_defn("laserNyquist", ["fs"], Tr({"gv.fs": "fs"}, "LASER Nyquist").real(lim), f"if np.abs(df) > {ast.unparse(lim)}: raise ValueError"))
    rj = [t for t in tests.values() if isinstance(t.test, ast.Compare) and ast.unparse(t.test.left) == "rin_noise.min()"]
    if len(rj) != 1 or not isinstance(rj[0].test.ops[0], ast.Lt) or len(rj[0].test.ops) != 1:
        raise AnchorMissing("LASER: if rin_noise.min() < <limit>")
    lim = rj[0].test.comparators[0]
    out.append(_defn("laserRinFloor", [], Tr({}, "LASER RIN floor").real(lim), f"if rin_noise.min() < {ast.unparse(lim)}: raise ValueError"))

    # ---- EDFA ------------------------------------------------------------------------------------------------------
    fn = find_def(dev, "EDFA")
    outs = [x for x in _assigns(fn, "output") if isinstance(x, ast.BinOp)]
    v = _one(outs, "EDFA output = optical_signal(...) * gain")
    l, r = _mul(v, "EDFA gain")
    if ast.unparse(l) != "optical_signal(signal=input.signal, noise=input.noise, n_pol=2)":
        raise AnchorMissing("EDFA: optical_signal(signal=input.signal, noise=input.noise, n_pol=2) * <gain>")
    out.append(_defn("edfaGainSignal", ["G"], Tr({"G": "G"}, "EDFA gain").real(r), f"output = optical_signal(..., n_pol=2) * {ast.unparse(r)}"))
    nz = _assigns(fn, "output.noise")
    prods = [x for x in nz if isinstance(x, ast.BinOp) and isinstance(x.op, ast.Mult)]
    v = _one(prods, "EDFA output.noise = output.noise * gain")
    if ast.unparse(v.left) != "output.noise":
        raise AnchorMissing("EDFA: output.noise = output.noise * <gain>")
    out.append(_defn("edfaGainNoise", ["G"], Tr({"G": "G"}, "EDFA noise gain").real(v.right), f"output.noise = output.noise * {ast.unparse(v.right)}"))
    v = _one(_assigns(fn, "P_ase"), "EDFA P_ase")
    out.append(_defn("edfaPase", ["NF", "G", "h", "f0", "fs"],
                     Tr({"NF": "NF", "G": "G", "h": "h", "gv.f0": "f0", "gv.fs": "fs"}, "EDFA P_ase").real(v), f"P_ase = {ast.unparse(v)}"))
    ases = _assigns(fn, "ase")
    if len(ases) != 2:
        raise AnchorMissing("EDFA: two assignments to ase")
    l, r = _mul(ases[0], "EDFA ase")
    if not (isinstance(r, ast.Call) and ast.unparse(r.func) == "np.random.randn" and len(r.args) == 2
            and isinstance(r.args[0], ast.Constant) and isinstance(r.args[0].value, int) and ast.unparse(r.args[1]) == "input.len()"):
        raise AnchorMissing("EDFA: ase = <scale> * np.random.randn(<k>, input.len())")
    rows = r.args[0].value
    out.append(_defn("edfaAseScale", ["P_ase"], Tr({"P_ase": "P_ase"}, "EDFA ase scale").real(l), f"ase = {ast.unparse(l)} * np.random.randn({rows}, input.len())"))
    pairing = ast.unparse(ases[1])
    # ase = ase[:2] + 1j*ase[2:]   -> which draw rows feed (x re, y re) and (x im, y im)
    known = {"ase[:2] + 1j * ase[2:]": ((0, 1), (2, 3))}
    if pairing not in known:
        raise AnchorMissing(f"EDFA: pairing of the draw rows `{pairing}`")
    (xr, yr), (xi, yi) = known[pairing]

    return (HEADER + "import OptiVerif.Model.Num\n\nset_option linter.unusedVariables false\n\n"
            "namespace OptiVerif.Gen.OptDev\nopen OptiVerif\n\nsection\n"
            "variable {R : Type} [Add R] [Sub R] [Mul R] [Div R] [Neg R] [NatCast R] [Transc R]\n\n"
            "/-- integer literal -/\n@[inline] def lit (n : Nat) : R := (n : R)\n\n"
            "/-- `10**x` -/\ndef pow10 (x : R) : R := Transc.exp (x * Transc.log (lit 10))\n\n"
            + "".join(out) + "end\n\n"
            f"/-- `np.random.randn({rows}, input.len())` -/\ndef edfaDrawRows : Nat := {rows}\n\n"
            f"/-- `ase = {pairing}`: indices of the draw rows used as (x re, y re, x im, y im) -/\n"
            f"def edfaPairing : Nat × Nat × Nat × Nat := ({xr}, {yr}, {xi}, {yi})\n\n"
            "end OptiVerif.Gen.OptDev\n")
