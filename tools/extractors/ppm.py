"""order test (`M < 1 or not M & (M-1) == 0`) of ppm.HDD / ppm.SDD and the loop of utils.dec2bin  ->  Gen/Ppm.lean   (C12)"""
import ast
from extract import AnchorMissing, parse, find_def, int_expr, HEADER

NAME = "Ppm"


def _pow2_test(fn):
    """(K, E) of the statement  `if M < K or not E == 0: raise ValueError(...)`
    (K an integer literal, E an integer expression in M)"""
    for node in ast.walk(fn):
        if not (isinstance(node, ast.If) and len(node.body) == 1 and isinstance(node.body[0], ast.Raise)
                and "ValueError" in ast.unparse(node.body[0])):
            continue
        t = node.test
        if not (isinstance(t, ast.BoolOp) and isinstance(t.op, ast.Or) and len(t.values) == 2):
            continue
        lo, nt = t.values
        if not (isinstance(lo, ast.Compare) and len(lo.ops) == 1 and isinstance(lo.ops[0], ast.Lt)
                and ast.unparse(lo.left) == "M" and isinstance(lo.comparators[0], ast.Constant)
                and isinstance(lo.comparators[0].value, int) and not isinstance(lo.comparators[0].value, bool)):
            continue
        if not (isinstance(nt, ast.UnaryOp) and isinstance(nt.op, ast.Not)):
            continue
        c = nt.operand
        if (isinstance(c, ast.Compare) and len(c.ops) == 1 and isinstance(c.ops[0], ast.Eq)
                and isinstance(c.comparators[0], ast.Constant) and c.comparators[0].value == 0):
            return lo.comparators[0].value, int_expr(c.left, {"M"})
    raise AnchorMissing(f"`if M < K or not E == 0: raise ValueError` in {fn.name}")


def generate(repo):
    tree, _ = parse(repo, "opticomlib/ppm.py")
    hmin, hdd = _pow2_test(find_def(tree, "HDD"))
    smin, sdd = _pow2_test(find_def(tree, "SDD"))
    utree, _ = parse(repo, "opticomlib/utils.py")
    fn = find_def(utree, "dec2bin")
    # if num > LIMIT: raise ValueError
    limit = None
    for node in fn.body:
        if (isinstance(node, ast.If) and isinstance(node.test, ast.Compare) and len(node.test.ops) == 1
                and isinstance(node.test.ops[0], ast.Gt) and ast.unparse(node.test.left) == "num"
                and len(node.body) == 1 and isinstance(node.body[0], ast.Raise) and "ValueError" in ast.unparse(node.body[0])):
            limit = int_expr(node.test.comparators[0], {"digits"})
    if limit is None:
        raise AnchorMissing("dec2bin: if num > LIMIT: raise ValueError")
    loops = [n for n in fn.body if isinstance(n, ast.While)]
    if len(loops) != 1 or ast.unparse(loops[0].test) != "num > 0 and i >= 0":
        raise AnchorMissing("dec2bin: while num > 0 and i >= 0")
    body = loops[0].body
    if len(body) != 3:
        raise AnchorMissing("dec2bin loop body shape")
    s0, s1, s2 = body
    if not (isinstance(s0, ast.Assign) and ast.unparse(s0.targets[0]) == "binary[i]"):
        raise AnchorMissing("binary[i] = ...")
    bit = int_expr(s0.value, {"num"})
    if not (isinstance(s1, ast.AugAssign) and ast.unparse(s1.target) == "num"):
        raise AnchorMissing("num //= ...")
    nxt = int_expr(ast.BinOp(left=ast.Name(id="num"), op=s1.op, right=s1.value), {"num"})
    if ast.unparse(s2) != "i -= 1":
        raise AnchorMissing("i -= 1")
    init = [n for n in fn.body if isinstance(n, ast.Assign) and ast.unparse(n.targets[0]) == "i"]
    if len(init) != 1 or ast.unparse(init[0].value) != "digits - 1":
        raise AnchorMissing("i = digits - 1")
    return HEADER + f"""namespace OptiVerif.Gen.Ppm

/-- `K` of `if M < K or not E == 0: raise ValueError` in `ppm.HDD` -/
def pow2MinHDD : Int := {hmin}

/-- `E` of that statement (evaluated only for `M ≥ K`; natural `M`) -/
def pow2ExprHDD (M : Nat) : Nat := {hdd}

/-- the same test in `ppm.SDD` -/
def pow2MinSDD : Int := {smin}

def pow2ExprSDD (M : Nat) : Nat := {sdd}

/-- `utils.dec2bin`: `if num > LIMIT: raise ValueError` -/
def d2bLimit (digits : Nat) : Nat := {limit}

/-- `binary[i] = …` -/
def d2bBit (num : Nat) : Nat := {bit}

/-- `num //= …` -/
def d2bNext (num : Nat) : Nat := {nxt}

end OptiVerif.Gen.Ppm
"""
