"""PPG3204 class constants and the limit names used by each clamp site of lab.py  ->  Gen/PpgLimits.lean

Translated (Python `ast`, working tree):
  * the numeric class constants (ints exactly, float literals via Fraction(Decimal(repr)), `2**21`, unary minus);
  * `PRBS_ORDERS` (literal list of ints);
  * for every clamp site  `if (x < self.A).any() or (x > self.B).any(): x = x.clip(self.C, self.D)`  (set_patt_len,
    set_skew, set_output_voltage, set_offset) and  `if x < self.A or x > self.B: x = np.clip(x, self.C, self.D)`
    (set_freq): the four constant names, emitted as `<site>Test := (A, B)` and `<site>Clip := (C, D)`;
  * `_check_channels`: the literals / names of the test `(c < lo).any() or (c > self.HI).any() or c.size > self.SZ`
    and of `c.clip(lo', self.HI')[:self.TK]`, and `np.arange(1, self.CHANNELS+1)`;
  * set_data / get_data: that the chunk constant is `self.MAX_CHUNK_LEN` and the memory constant `self.MAX_MEMORY_LEN`
    (names only; the values come from the class constants), that set_data tests `data.shape[-1]` and truncates with
    `data[..., :lim]`, and that it does so after the conversion to an array and before the tiling.
Anything of another shape raises AnchorMissing.
"""
import ast
from fractions import Fraction
from extract import AnchorMissing, parse, find_def, lit_number, lean_rat, HEADER

NAME = "PpgLimits"

RAT_CONSTS = ["PATT_LEN_MIN", "PATT_LEN_MAX", "AMPLITUDE_MIN", "AMPLITUDE_MAX", "OFFSET_MIN", "OFFSET_MAX",
              "FREQ_MIN", "FREQ_MAX", "MIN_SKEW", "MAX_SKEW"]
NAT_CONSTS = ["CHANNELS", "MAX_MEMORY_LEN", "MAX_CHUNK_LEN"]


def _self_attr(node):
    """name X of an expression `self.X`, else None"""
    if isinstance(node, ast.Attribute) and isinstance(node.value, ast.Name) and node.value.id == "self":
        return node.attr
    return None


def _strip_any(node):
    """`(expr).any()` -> expr ; otherwise the node itself"""
    if (isinstance(node, ast.Call) and isinstance(node.func, ast.Attribute) and node.func.attr == "any"
            and not node.args and not node.keywords):
        return node.func.value
    return node


def _cmp(node, op, var):
    """`var <op> rhs` -> rhs node"""
    node = _strip_any(node)
    if (isinstance(node, ast.Compare) and len(node.ops) == 1 and isinstance(node.ops[0], op)
            and isinstance(node.left, ast.Name) and node.left.id == var):
        return node.comparators[0]
    raise AnchorMissing(f"comparison {var} {op.__name__} …: {ast.unparse(node)[:60]}")


def _clamp_site(fn, var):
    """the unique `if <var> < A or <var> > B:` of fn, its test names and its clip names"""
    hits = []
    for node in ast.walk(fn):
        if isinstance(node, ast.If) and isinstance(node.test, ast.BoolOp) and isinstance(node.test.op, ast.Or) \
                and len(node.test.values) == 2:
            try:
                lo = _self_attr(_cmp(node.test.values[0], ast.Lt, var))
                hi = _self_attr(_cmp(node.test.values[1], ast.Gt, var))
            except AnchorMissing:
                continue
            if lo is None or hi is None:
                continue
            clip = None
            for st in node.body:
                if isinstance(st, ast.Assign) and len(st.targets) == 1 and isinstance(st.targets[0], ast.Name) \
                        and st.targets[0].id == var and isinstance(st.value, ast.Call):
                    c = st.value
                    f = c.func
                    if isinstance(f, ast.Attribute) and f.attr == "clip" and not c.keywords:
                        if isinstance(f.value, ast.Name) and f.value.id == var and len(c.args) == 2:
                            clip = (_self_attr(c.args[0]), _self_attr(c.args[1]))          # x.clip(A, B)
                        elif isinstance(f.value, ast.Name) and f.value.id == "np" and len(c.args) == 3 \
                                and isinstance(c.args[0], ast.Name) and c.args[0].id == var:
                            clip = (_self_attr(c.args[1]), _self_attr(c.args[2]))          # np.clip(x, A, B)
            if clip is None or None in clip:
                raise AnchorMissing(f"{fn.name}: clip(self.A, self.B) assignment to {var}")
            hits.append(((lo, hi), clip))
    if len(hits) != 1:
        raise AnchorMissing(f"{fn.name}: exactly one clamp of {var} expected, found {len(hits)}")
    return hits[0]


def _channels_site(fn):
    """_check_channels: test (lo literal, HI name, SIZE name), clip (lo literal, HI name), take name, arange"""
    site = None
    for node in ast.walk(fn):
        if isinstance(node, ast.If) and isinstance(node.test, ast.BoolOp) and isinstance(node.test.op, ast.Or) \
                and len(node.test.values) == 3:
            a, b, c = node.test.values
            lo = _cmp(a, ast.Lt, "channels")
            hi = _self_attr(_cmp(b, ast.Gt, "channels"))
            if not (isinstance(lo, ast.Constant) and isinstance(lo.value, int)) or hi is None:
                raise AnchorMissing("_check_channels test bounds")
            if not (isinstance(c, ast.Compare) and len(c.ops) == 1 and isinstance(c.ops[0], ast.Gt)
                    and ast.unparse(c.left) == "channels.size" and _self_attr(c.comparators[0])):
                raise AnchorMissing("_check_channels size test")
            sz = _self_attr(c.comparators[0])
            st = node.body[0]
            # channels = channels.clip(1, self.CHANNELS)[:self.CHANNELS]
            if not (isinstance(st, ast.Assign) and ast.unparse(st.targets[0]) == "channels"
                    and isinstance(st.value, ast.Subscript) and isinstance(st.value.slice, ast.Slice)
                    and st.value.slice.lower is None and st.value.slice.step is None
                    and _self_attr(st.value.slice.upper)):
                raise AnchorMissing("_check_channels clip/take statement")
            tk = _self_attr(st.value.slice.upper)
            call = st.value.value
            if not (isinstance(call, ast.Call) and isinstance(call.func, ast.Attribute) and call.func.attr == "clip"
                    and ast.unparse(call.func.value) == "channels" and len(call.args) == 2
                    and isinstance(call.args[0], ast.Constant) and isinstance(call.args[0].value, int)
                    and _self_attr(call.args[1])):
                raise AnchorMissing("_check_channels clip arguments")
            site = (lo.value, hi, sz, call.args[0].value, _self_attr(call.args[1]), tk)
    if site is None:
        raise AnchorMissing("_check_channels range test")
    src = ast.unparse(fn)
    if "channels = np.arange(1, self.CHANNELS + 1)" not in src:
        raise AnchorMissing("_check_channels default np.arange(1, self.CHANNELS+1)")
    return site


def generate(repo):
    tree, _ = parse(repo, "opticomlib/lab.py")
    cls = find_def(tree, "PPG3204")
    consts = {}
    for node in cls.body:
        if isinstance(node, ast.Assign) and len(node.targets) == 1 and isinstance(node.targets[0], ast.Name):
            consts[node.targets[0].id] = node.value
    out = [HEADER, "namespace OptiVerif.Gen.PpgLimits\n"]
    vals = {}
    for n in NAT_CONSTS:
        if n not in consts:
            raise AnchorMissing(f"class constant {n}")
        q = lit_number(consts[n])
        if q.denominator != 1 or q < 0:
            raise AnchorMissing(f"{n} is not a natural number")
        vals[n] = q
        out.append(f"/-- `PPG3204.{n} = {ast.unparse(consts[n])}` -/\ndef {n} : Nat := {q.numerator}\n")
    for n in RAT_CONSTS:
        if n not in consts:
            raise AnchorMissing(f"class constant {n}")
        q = lit_number(consts[n])
        vals[n] = q
        out.append(f"/-- `PPG3204.{n} = {ast.unparse(consts[n])}` -/\ndef {n} : Rat := {lean_rat(q)}\n")
    po = consts.get("PRBS_ORDERS")
    if not (isinstance(po, ast.List) and po.elts and all(isinstance(e, ast.Constant) and isinstance(e.value, int)
                                                         and not isinstance(e.value, bool) for e in po.elts)):
        raise AnchorMissing("PRBS_ORDERS literal list of ints")
    out.append(f"/-- `PPG3204.PRBS_ORDERS` -/\ndef PRBS_ORDERS : List Int := [{', '.join(str(e.value) for e in po.elts)}]\n")

    def meth(name):
        for node in cls.body:
            if isinstance(node, ast.FunctionDef) and node.name == name:
                return node
        raise AnchorMissing(f"method {name}")

    sites = [("pattLen", "set_patt_len", "patt_len"), ("skew", "set_skew", "skew"),
             ("volt", "set_output_voltage", "amplitude"), ("offs", "set_offset", "offset"),
             ("freq", "set_freq", "freq")]
    for lean_name, m, var in sites:
        (tlo, thi), (clo, chi) = _clamp_site(meth(m), var)
        for x in (tlo, thi, clo, chi):
            if x not in RAT_CONSTS:
                raise AnchorMissing(f"{m}: limit self.{x} is not a numeric class constant")
        out.append(f"/-- `{m}`: `if {var} < self.{tlo} or {var} > self.{thi}` -/\n"
                   f"def {lean_name}Test : Rat × Rat := ({tlo}, {thi})\n"
                   f"/-- `{m}`: `{var}.clip(self.{clo}, self.{chi})` -/\n"
                   f"def {lean_name}Clip : Rat × Rat := ({clo}, {chi})\n")
    lo, hi, sz, clo, chi, tk = _channels_site(meth("_check_channels"))
    for x in (hi, sz, chi, tk):
        if x not in NAT_CONSTS:
            raise AnchorMissing(f"_check_channels: self.{x} is not a natural class constant")
    out.append(f"/-- `_check_channels`: `(channels < {lo}).any() or (channels > self.{hi}).any() or channels.size > self.{sz}` -/\n"
               f"def chTestLo : Int := {lo}\ndef chTestHi : Int := {hi}\ndef chSizeMax : Nat := {sz}\n"
               f"/-- `channels.clip({clo}, self.{chi})[:self.{tk}]` -/\n"
               f"def chClipLo : Int := {clo}\ndef chClipHi : Int := {chi}\ndef chTake : Nat := {tk}\n")
    # set_data / get_data use the expected constants
    sd, gd = ast.unparse(meth("set_data")), ast.unparse(meth("get_data"))
    need_sd = ["data.shape[-1] > self.MAX_MEMORY_LEN - start_addrs + 1", "data[..., :self.MAX_MEMORY_LEN - start_addrs + 1]",
               "np.array(data, dtype=bool).astype(np.uint8)",
               "data_ch_i.size > self.MAX_CHUNK_LEN",
               "np.split(data_ch_i, np.arange(self.MAX_CHUNK_LEN, data_ch_i.size, self.MAX_CHUNK_LEN))"]
    need_gd = ["start_addrs < 1 or start_addrs > self.MAX_MEMORY_LEN", "np.clip(start_addrs, 1, self.MAX_MEMORY_LEN)",
               "size < 1 or size > self.MAX_MEMORY_LEN - start_addrs + 1",
               "np.clip(size, 1, self.MAX_MEMORY_LEN - start_addrs + 1)", "size > self.MAX_CHUNK_LEN",
               "[self.MAX_CHUNK_LEN] * (size // self.MAX_CHUNK_LEN) + ([size % self.MAX_CHUNK_LEN] if size % self.MAX_CHUNK_LEN else [])"]
    for s in need_sd:
        if s not in sd:
            raise AnchorMissing(f"set_data: `{s}`")
    # the conversion to an array precedes the memory-limit test (the test acts on the last axis of the array)
    if not sd.index("np.array(data, dtype=bool).astype(np.uint8)") < sd.index("data.shape[-1] >") < sd.index("np.tile(data"):
        raise AnchorMissing("set_data: order convert -> limit test -> tile")
    for s in need_gd:
        if s not in gd:
            raise AnchorMissing(f"get_data: `{s}`")
    out.append("end OptiVerif.Gen.PpgLimits\n")
    return "\n".join(out)
