"""Defaults of typing.global_variables (__init__, clean, __call__ signature)  ->  Gen/Gv.lean

Recognised shapes (anything else raises AnchorMissing):
  __init__ / clean:   self.sps = <int literal>; self.R = <number literal>; self.wavelength = <number literal>
                      self.fs = self.R*self.sps; self.dt = 1/self.fs; self.f0 = c/self.wavelength
                      self.N = self.t = self.dw = self.w = None
  __call__:           parameters (self, sps=None, R=None, fs=None, wavelength=<number literal>, N=None, **kargs)
  clean:              attrs = [attr for attr in vars(self) if not attr in <literal list>]; for attr in attrs: delattr(self, attr)
"""
import ast
from extract import AnchorMissing, find_def, parse, lit_number, lean_rat, HEADER

NAME = "Gv"

DERIVED = {"fs": "self.R * self.sps", "dt": "1 / self.fs", "f0": "c / self.wavelength"}
NONES = ["N", "t", "dw", "w"]


def _self_assigns(fn):
    """name -> value node for top-level `self.<name> = value` statements (first occurrence order kept)"""
    out = {}
    for s in fn.body:
        if isinstance(s, ast.Assign) and len(s.targets) == 1 and isinstance(s.targets[0], ast.Attribute) \
                and isinstance(s.targets[0].value, ast.Name) and s.targets[0].value.id == "self":
            name = s.targets[0].attr
            if name in out:
                raise AnchorMissing(f"{fn.name}: self.{name} assigned twice")
            out[name] = s.value
    return out


def _defaults(fn):
    a = _self_assigns(fn)
    for k in ("sps", "R", "wavelength"):
        if k not in a:
            raise AnchorMissing(f"{fn.name}: self.{k} = literal")
    if not (isinstance(a["sps"], ast.Constant) and isinstance(a["sps"].value, int) and not isinstance(a["sps"].value, bool)):
        raise AnchorMissing(f"{fn.name}: self.sps must be an int literal")
    for k, src in DERIVED.items():
        if k not in a or ast.unparse(a[k]) != src:
            raise AnchorMissing(f"{fn.name}: self.{k} = {src}")
    for k in NONES:
        if k not in a or not (isinstance(a[k], ast.Constant) and a[k].value is None):
            raise AnchorMissing(f"{fn.name}: self.{k} = None")
    # a derived field must be computed AFTER the fields it is derived from (dict `a` keeps the statement order)
    order = {k: i for i, k in enumerate(a)}
    for k, deps in (("fs", ("R", "sps")), ("dt", ("fs",)), ("f0", ("wavelength",))):
        for d in deps:
            if order[k] < order[d]:
                raise AnchorMissing(f"{fn.name}: self.{k} is computed before self.{d} is set")
    extra = set(a) - {"sps", "R", "wavelength"} - set(DERIVED) - set(NONES)
    if extra:
        raise AnchorMissing(f"{fn.name}: unexpected attributes {sorted(extra)}")
    return a["sps"].value, lit_number(a["R"]), lit_number(a["wavelength"])


def generate(repo):
    tree, _ = parse(repo, "opticomlib/typing.py")
    init = find_def(tree, "__init__", cls="global_variables")
    clean = find_def(tree, "clean", cls="global_variables")
    call = find_def(tree, "__call__", cls="global_variables")
    i_sps, i_R, i_wl = _defaults(init)
    c_sps, c_R, c_wl = _defaults(clean)
    # signature of __call__
    args = call.args
    names = [a.arg for a in args.args]
    if names != ["self", "sps", "R", "fs", "wavelength", "N"] or args.kwarg is None or args.vararg is not None \
            or args.kwonlyargs or len(args.defaults) != 5:
        raise AnchorMissing("__call__ signature")
    for nm, d in zip(names[1:], args.defaults):
        if nm == "wavelength":
            call_wl = lit_number(d)
        elif not (isinstance(d, ast.Constant) and d.value is None):
            raise AnchorMissing(f"__call__: default of {nm} must be None")
    # the names clean() keeps: the literal list inside the comprehension `... not (attr in [...])`
    keep = None
    for node in ast.walk(clean):
        if isinstance(node, ast.Compare) and len(node.ops) == 1 and isinstance(node.ops[0], ast.In) \
                and isinstance(node.comparators[0], ast.List) \
                and all(isinstance(e, ast.Constant) and isinstance(e.value, str) for e in node.comparators[0].elts):
            if keep is not None:
                raise AnchorMissing("clean: two name lists")
            keep = [e.value for e in node.comparators[0].elts]
    if keep is None:
        raise AnchorMissing("clean: list of kept attribute names")
    # the comprehension of clean():  [attr for attr in vars(self) if not attr in [...]]  followed by  for attr in attrs: delattr(self, attr)
    comp = [n for n in ast.walk(clean) if isinstance(n, ast.ListComp)]
    if len(comp) != 1 or len(comp[0].generators) != 1 or len(comp[0].generators[0].ifs) != 1:
        raise AnchorMissing("clean: attribute comprehension")
    gen = comp[0].generators[0]
    if ast.unparse(comp[0].elt) != "attr" or ast.unparse(gen.target) != "attr" or ast.unparse(gen.iter) != "vars(self)":
        raise AnchorMissing(f"clean: comprehension is over {ast.unparse(gen.iter)!r}, expected vars(self)")
    cond = ast.unparse(gen.ifs[0])
    want = "not attr in " + ast.unparse(ast.List(elts=[ast.Constant(k) for k in keep], ctx=ast.Load()))
    if cond != want:
        raise AnchorMissing(f"clean: filter is {cond!r}")
    assigned = [s.targets[0].id for s in clean.body if isinstance(s, ast.Assign) and isinstance(s.targets[0], ast.Name)
                and s.value is comp[0]]
    loops = [n for n in clean.body if isinstance(n, ast.For)]
    if len(assigned) != 1 or len(loops) != 1 or ast.unparse(loops[0].iter) != assigned[0] \
            or [ast.unparse(x) for x in loops[0].body] != [f"delattr(self, {ast.unparse(loops[0].target)})"] or loops[0].orelse:
        raise AnchorMissing("clean: `for attr in attrs: delattr(self, attr)`")
    keep_s = "[" + ", ".join('"' + k + '"' for k in keep) + "]"
    return HEADER + f"""namespace OptiVerif.Gen.Gv

/-- `global_variables.__init__`: `self.sps`, `self.R`, `self.wavelength` literals
    (`fs = R*sps`, `dt = 1/fs`, `f0 = c/wavelength`, `N = t = dw = w = None` checked by the translator) -/
def initSps : Int := {i_sps}
def initR : Rat := {lean_rat(i_R)}
def initWavelength : Rat := {lean_rat(i_wl)}

/-- `global_variables.clean` (same shape) -/
def cleanSps : Int := {c_sps}
def cleanR : Rat := {lean_rat(c_R)}
def cleanWavelength : Rat := {lean_rat(c_wl)}

/-- default of the `wavelength` parameter of `__call__` (every other parameter defaults to `None`) -/
def callWavelength : Rat := {lean_rat(call_wl)}

/-- names `clean()` never deletes; it deletes every other attribute found in `vars(self)` -/
def cleanKeeps : List String := {keep_s}

end OptiVerif.Gen.Gv
"""
