"""Receiver-model formulas of utils.py (p_ase, average_voltages, noise_variances, optimum_threshold, the inner function of
theory_BER), the grid sizes of the threshold searches in utils.py / ook.py / ppm.py and EDFA's P_ase  ->  Gen/BerFormulas.lean
(property C13).

Every formula is re-emitted as a generic Lean definition (`tools/extractors/_fexpr.py`); array-valued operands
(`np.array([p_OFF, p_ON])`, the array `mu`, `np.array([(mu - mu_ASE) for mu in [mu_OFF, mu_ON]])`) are read element-wise
(element variable `x`) and the order of the two elements (OFF, ON) is checked.  Anything not recognised raises AnchorMissing.
"""
import ast
import os
import sys

sys.path.insert(0, os.path.dirname(os.path.abspath(__file__)))
from extract import AnchorMissing, parse, find_def, lit_number, lean_rat, HEADER  # noqa: E402
import _fexpr  # noqa: E402

NAME = "BerFormulas"


def _assigns(body, name):
    """values assigned to Name `name` by the statements of `body` (top level only)"""
    return [n.value for n in body if isinstance(n, ast.Assign) and len(n.targets) == 1 and isinstance(n.targets[0], ast.Name)
            and n.targets[0].id == name]


def _one(body, name):
    hits = _assigns(body, name)
    if len(hits) != 1:
        raise AnchorMissing(f"exactly one assignment to {name} expected, found {len(hits)}")
    return hits[0]


def _is_array_of(node, names):
    """np.array([a, b]) with the given element names"""
    return (isinstance(node, ast.Call) and ast.unparse(node.func) == "np.array" and len(node.args) == 1
            and isinstance(node.args[0], ast.List) and [ast.unparse(e) for e in node.args[0].elts] == names)


def _listcomp_elt(node, names, var):
    """np.array([E(var) for var in [a, b]]) -> E"""
    if not (isinstance(node, ast.Call) and ast.unparse(node.func) == "np.array" and len(node.args) == 1
            and isinstance(node.args[0], ast.ListComp)):
        return None
    lc = node.args[0]
    if not (len(lc.generators) == 1 and isinstance(lc.generators[0].target, ast.Name) and lc.generators[0].target.id == var
            and isinstance(lc.generators[0].iter, ast.List) and [ast.unparse(e) for e in lc.generators[0].iter.elts] == names
            and not lc.generators[0].ifs):
        raise AnchorMissing("list comprehension over [mu_OFF, mu_ON] expected")
    return lc.elt


def _grid_sizes(fn, what):
    out = []
    for n in ast.walk(fn):
        if isinstance(n, ast.Call) and ast.unparse(n.func) == "np.linspace" and len(n.args) == 3:
            q = lit_number(n.args[2])
            if q.denominator != 1:
                raise AnchorMissing("linspace size")
            out.append((ast.unparse(n.args[0]), ast.unparse(n.args[1]), int(q)))
    if not out:
        raise AnchorMissing(f"np.linspace in {what}")
    return out


def generate(repo):
    ut, _ = parse(repo, "opticomlib/utils.py")
    D = _fexpr.lean_def
    txt = HEADER + "import OptiVerif.Model.Num\nnamespace OptiVerif.Gen.BerFormulas\nopen OptiVerif\n\n"
    body = _fexpr.SECTION_OPEN_TRANSC

    # ---------------- utils.p_ase
    fn = find_def(ut, "p_ase")
    top = [n for n in fn.body if isinstance(n, ast.If)]
    if not (len(top) == 1 and ast.unparse(top[0].test) == "amplify" and len(top[0].orelse) == 1):
        raise AnchorMissing("p_ase: if amplify / else")
    amp = top[0].body
    if ast.unparse(_one(amp, "nf")) != "idb(NF)" or ast.unparse(_one(amp, "g")) != "idb(G)":
        raise AnchorMissing("p_ase: nf = idb(NF); g = idb(G)")
    body += "/-! utils.p_ase -/\n"
    body += D("paF0", _one(amp, "f0"), "f0 = " + ast.unparse(_one(amp, "f0")), order=["c", "wavelength"]) + "\n"
    body += D("paAmp", _one(amp, "p_ase"), "p_ase = " + ast.unparse(_one(amp, "p_ase")), order=["nf", "h", "f0", "g", "BW_opt"]) + "\n"
    pa0 = lit_number(_one(top[0].orelse, "p_ase"))
    # ---------------- utils.average_voltages
    fn = find_def(ut, "average_voltages")
    b = fn.body
    if ast.unparse(_one(b, "M")) != "2 if modulation.lower() == 'ook' else M":
        raise AnchorMissing("average_voltages: M")
    if ast.unparse(_one(b, "er")) != "idb(ER)" or ast.unparse(_one(b, "p_avg")) != "idbm(P_avg)":
        raise AnchorMissing("average_voltages: er, p_avg")
    g = _one(b, "g")
    if not (isinstance(g, ast.IfExp) and ast.unparse(g.test) == "amplify" and ast.unparse(g.body) == "idb(G)"):
        raise AnchorMissing("average_voltages: g = idb(G) if amplify else <literal>")
    body += "/-! utils.average_voltages -/\n"
    body += D("avG", g, "g = " + ast.unparse(g), order=["amplify", "idb_G"]) + "\n"
    body += D("avPon", _one(b, "p_ON"), "p_ON = " + ast.unparse(_one(b, "p_ON")), order=["p_avg", "M", "er"]) + "\n"
    body += D("avPoff", _one(b, "p_OFF"), "p_OFF = " + ast.unparse(_one(b, "p_OFF")), order=["p_ON", "er"]) + "\n"
    mu_ase = _one(b, "mu_ASE")
    calls = [n for n in ast.walk(mu_ase) if isinstance(n, ast.Call)]
    if not (len(calls) == 1 and ast.unparse(calls[0]) == "p_ase(amplify, wavelength, G, NF, BW_opt)"):
        raise AnchorMissing("average_voltages: mu_ASE must call p_ase(amplify, wavelength, G, NF, BW_opt)")
    body += D("avMuAse", mu_ase, "mu_ASE = " + ast.unparse(mu_ase), rename={ast.unparse(calls[0]): "p_ase"},
              order=["r", "p_ase", "R_L"]) + "\n"
    mu = _one(b, "mu")
    body += D("avMu", mu, "mu = " + ast.unparse(mu) + "   (x = element of [p_OFF, p_ON])",
              element=lambda n: True if _is_array_of(n, ["p_OFF", "p_ON"]) else None, order=["r", "g", "x", "R_L", "mu_ASE"]) + "\n"
    if not any(_is_array_of(n, ["p_OFF", "p_ON"]) for n in ast.walk(mu)):
        raise AnchorMissing("average_voltages: np.array([p_OFF, p_ON])")
    ret = [n for n in b if isinstance(n, ast.Return)]
    if not (len(ret) == 1 and ast.unparse(ret[0].value) == "(mu, mu_ASE)"):
        raise AnchorMissing("average_voltages: return mu, mu_ASE")
    # ---------------- utils.noise_variances
    fn = find_def(ut, "noise_variances")
    b = fn.body
    call = [n for n in b if isinstance(n, ast.Assign) and ast.unparse(n.targets[0]) == "(mu, mu_ASE)"]
    if not (len(call) == 1 and ast.unparse(call[0].value) ==
            "average_voltages(P_avg, modulation, M, ER, amplify, wavelength, G, NF, BW_opt, r, R_L)"):
        raise AnchorMissing("noise_variances: mu, mu_ASE = average_voltages(...)")
    if ast.unparse(_one(b, "nf_el")) != "idb(NF_el)":
        raise AnchorMissing("noise_variances: nf_el")
    is_mu = lambda n: True if isinstance(n, ast.Name) and n.id == "mu" else None  # noqa: E731
    body += "/-! utils.noise_variances  (x = element of the array `mu`) -/\n"
    body += D("nvL", _one(b, "l"), "l = " + ast.unparse(_one(b, "l")), order=["amplify", "BW_el", "BW_opt"]) + "\n"
    body += D("nvSigAse", _one(b, "S_sig_ase_i"), "S_sig_ase_i = " + ast.unparse(_one(b, "S_sig_ase_i")), element=is_mu,
              order=["mu_ASE", "x", "l"]) + "\n"
    body += D("nvAseAse", _one(b, "S_ase_ase"), "S_ase_ase = " + ast.unparse(_one(b, "S_ase_ase")), order=["mu_ASE", "l"]) + "\n"
    body += D("nvTh", _one(b, "S_th"), "S_th = " + ast.unparse(_one(b, "S_th")), order=["kB", "T", "BW_el", "R_L", "nf_el"]) + "\n"
    body += D("nvSh", _one(b, "S_sh_i"), "S_sh_i = " + ast.unparse(_one(b, "S_sh_i")), element=is_mu,
              order=["e", "x", "BW_el", "R_L"]) + "\n"
    body += D("nvS", _one(b, "S"), "S = " + ast.unparse(_one(b, "S")), order=["S_th", "S_sig_ase_i", "S_ase_ase", "S_sh_i"]) + "\n"
    # ---------------- utils.optimum_threshold
    fn = find_def(ut, "optimum_threshold")
    b = fn.body
    if ast.unparse(_one(b, "M")) != "2 if modulation.lower() == 'ook' else M":
        raise AnchorMissing("optimum_threshold: M")
    if ast.unparse(_one(b, "s1")) != "S1 ** 0.5" or ast.unparse(_one(b, "s0")) != "S0 ** 0.5":
        raise AnchorMissing("optimum_threshold: s1 = S1**0.5; s0 = S0**0.5")
    if ast.unparse(_one(b, "equal")) != "np.equal(S1, S0)" or ast.unparse(_one(b, "dS")) != "np.where(equal, 1, S1 - S0)":
        raise AnchorMissing("optimum_threshold: equal / dS")
    th = _assigns(b, "threshold")
    if len(th) != 2:
        raise AnchorMissing("optimum_threshold: two assignments to threshold")
    w = th[1]
    if not (isinstance(w, ast.Call) and ast.unparse(w.func) == "np.where" and len(w.args) == 3 and ast.unparse(w.args[0]) == "equal"
            and ast.unparse(w.args[2]) == "threshold"):
        raise AnchorMissing("optimum_threshold: threshold = np.where(equal, <mid>, threshold)")
    body += "/-! utils.optimum_threshold  (dS = S1 - S0 on the general branch) -/\n"
    body += D("otGeneral", th[0], "threshold = " + ast.unparse(th[0]), transc=True,
              order=["dS", "mu0", "S1", "mu1", "S0", "s1", "s0", "M"]) + "\n"
    body += D("otEqual", w.args[1], "threshold (S1 == S0) = " + ast.unparse(w.args[1]), transc=True,
              order=["mu0", "mu1", "S0", "M"]) + "\n"
    # ---------------- utils.theory_BER, inner function
    outer = find_def(ut, "theory_BER")
    inner = [n for n in outer.body if isinstance(n, ast.FunctionDef)]
    if len(inner) != 1:
        raise AnchorMissing("theory_BER: inner function")
    b = inner[0].body
    top = [n for n in b if isinstance(n, ast.If) and ast.unparse(n.test) == "amplify"]
    if len(top) != 1:
        raise AnchorMissing("theory_BER: if amplify")
    amp, noamp = top[0].body, top[0].orelse
    if ast.unparse(_one(amp, "g")) != "idb(G)" or ast.unparse(_one(amp, "nf")) != "idb(NF)":
        raise AnchorMissing("theory_BER: g = idb(G); nf = idb(NF)")
    body += "/-! utils.theory_BER (inner function): the receiver model -/\n"
    body += D("tbL", _one(amp, "l"), "l = " + ast.unparse(_one(amp, "l")), order=["BW_el", "BW_opt"]) + "\n"
    body += D("tbPase", _one(amp, "p_ase"), "p_ase = " + ast.unparse(_one(amp, "p_ase")), order=["nf", "h", "f0", "g", "BW_opt"]) + "\n"
    body += D("tbMuAse", _one(amp, "mu_ASE"), "mu_ASE = " + ast.unparse(_one(amp, "mu_ASE")), order=["r", "p_ase", "R_L"]) + "\n"
    na = {k: lit_number(_one(noamp, k)) for k in ("g", "l", "mu_ASE")}
    if ast.unparse(_one(b, "M")) != "2 if modulation.lower() == 'ook' else M":
        raise AnchorMissing("theory_BER: M")
    if ast.unparse(_one(b, "er")) != "idb(ER)" or ast.unparse(_one(b, "nf_el")) != "idb(NF_el)" or ast.unparse(_one(b, "p_avg")) != "idbm(P_avg)":
        raise AnchorMissing("theory_BER: er, nf_el, p_avg")
    body += D("tbPon", _one(b, "p_ON"), "p_ON = " + ast.unparse(_one(b, "p_ON")), order=["p_avg", "M", "er"]) + "\n"
    body += D("tbPoff", _one(b, "p_OFF"), "p_OFF = " + ast.unparse(_one(b, "p_OFF")), order=["p_ON", "er"]) + "\n"
    body += D("tbMuOn", _one(b, "mu_ON"), "mu_ON = " + ast.unparse(_one(b, "mu_ON")), order=["r", "g", "p_ON", "R_L", "mu_ASE"]) + "\n"
    body += D("tbMuOff", _one(b, "mu_OFF"), "mu_OFF = " + ast.unparse(_one(b, "mu_OFF")), order=["r", "g", "p_OFF", "R_L", "mu_ASE"]) + "\n"
    ssa = _one(b, "S_sig_ase_i")
    found = []

    def el_ssa(n):
        e = _listcomp_elt(n, ["mu_OFF", "mu_ON"], "mu")
        if e is not None:
            found.append(1)
            return e
        return None
    body += D("tbSigAse", ssa, "S_sig_ase_i = " + ast.unparse(ssa) + "   (x = mu, element of [mu_OFF, mu_ON])", element=el_ssa,
              rename={"mu": "x"}, order=["mu_ASE", "x", "l"]) + "\n"
    if not found:
        raise AnchorMissing("theory_BER: np.array([... for mu in [mu_OFF, mu_ON]])")
    body += D("tbAseAse", _one(b, "S_ase_ase"), "S_ase_ase = " + ast.unparse(_one(b, "S_ase_ase")), order=["mu_ASE", "l"]) + "\n"
    body += D("tbTh", _one(b, "S_th"), "S_th = " + ast.unparse(_one(b, "S_th")), order=["kB", "T", "BW_el", "R_L", "nf_el"]) + "\n"
    ssh = _one(b, "S_sh_i")
    if not any(_is_array_of(n, ["mu_OFF", "mu_ON"]) for n in ast.walk(ssh)):
        raise AnchorMissing("theory_BER: S_sh_i over np.array([mu_OFF, mu_ON])")
    body += D("tbSh", ssh, "S_sh_i = " + ast.unparse(ssh) + "   (x = element of [mu_OFF, mu_ON])",
              element=lambda n: True if _is_array_of(n, ["mu_OFF", "mu_ON"]) else None, order=["e", "x", "BW_el", "R_L"]) + "\n"
    s = _one(b, "s")
    if not (isinstance(s, ast.BinOp) and isinstance(s.op, ast.Pow) and isinstance(s.right, ast.Constant) and s.right.value == 0.5):
        raise AnchorMissing("theory_BER: s = (...)**0.5")
    body += D("tbS", s.left, "s**2 = " + ast.unparse(s.left), order=["S_th", "S_sig_ase_i", "S_ase_ase", "S_sh_i"]) + "\n"
    # threshold mixing and grid
    mixes = {ast.unparse(n.args[0]) for n in ast.walk(inner[0]) if isinstance(n, ast.Call) and ast.unparse(n.func) in ("SER", "BER")
             and len(n.args) == 1 and "threshold" in ast.unparse(n.args[0])}
    if len(mixes) != 1:
        raise AnchorMissing("theory_BER: threshold * mu_ON + (1 - threshold) * mu_OFF")
    mix = ast.parse(mixes.pop(), mode="eval").body
    body += D("tbThr", mix, "decision level for a relative threshold: " + ast.unparse(mix), order=["threshold", "mu_ON", "mu_OFF"]) + "\n"
    tb_grids = _grid_sizes(inner[0], "theory_BER")
    if {(a, c) for a, c, _ in tb_grids} != {("mu_OFF", "mu_ON")} or len({k for _, _, k in tb_grids}) != 1:
        raise AnchorMissing("theory_BER: np.linspace(mu_OFF, mu_ON, <n>)")
    # ---------------- EDFA
    dv, _ = parse(repo, "opticomlib/devices.py")
    ed = find_def(dv, "EDFA")
    body += "/-! devices.EDFA -/\n"
    body += D("edfaPase", _one(ed.body, "P_ase"), "P_ase = " + ast.unparse(_one(ed.body, "P_ase")),
              order=["idb_NF", "h", "gv_f0", "idb_G", "gv_fs"]) + "\n"
    body += _fexpr.SECTION_CLOSE

    # ---------------- grids of ook.py / ppm.py
    ok, _ = parse(repo, "opticomlib/ook.py")
    pp, _ = parse(repo, "opticomlib/ppm.py")
    grids = {
        "ookThreshold": _grid_sizes(find_def(ok, "THRESHOLD_EST"), "ook.THRESHOLD_EST"),
        "ookTheory": _grid_sizes(find_def(ok, "theory_BER"), "ook.theory_BER"),
        "ppmThreshold": _grid_sizes(find_def(pp, "THRESHOLD_EST"), "ppm.THRESHOLD_EST"),
        "ppmTheory": _grid_sizes(find_def(pp, "theory_BER"), "ppm.theory_BER"),
    }
    want = {"ookThreshold": ("mu0", "mu1"), "ookTheory": ("0", "mu1_"), "ppmThreshold": ("mu0", "mu1"), "ppmTheory": ("0", "mu1_")}
    txt += "/-- number of points of the threshold grids `np.linspace(lo, hi, n)` -/\n"
    for k, g in grids.items():
        if len(g) != 1 or (g[0][0], g[0][1]) != want[k]:
            raise AnchorMissing(f"{k}: np.linspace{want[k]} expected, found {g}")
        txt += f"def {k}Grid : Nat := {g[0][2]}\n"
    txt += f"def utilsGrid : Nat := {tb_grids[0][2]}\n\n"
    txt += "/-- literals of the branches without amplifier: `p_ase` of utils.p_ase; `g`, `l`, `mu_ASE` of utils.theory_BER -/\n"
    txt += f"def paNoAmp : Rat := {lean_rat(pa0)}\n"
    txt += f"def tbGNoAmp : Rat := {lean_rat(na['g'])}\ndef tbLNoAmp : Rat := {lean_rat(na['l'])}\ndef tbMuAseNoAmp : Rat := {lean_rat(na['mu_ASE'])}\n\n"
    txt += body
    txt += "\nend OptiVerif.Gen.BerFormulas\n"
    return txt
