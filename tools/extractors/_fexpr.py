"""Shared by the C09 / C13 extractors (pdtable.py, berformulas.py): straight-line *real-valued* Python expressions -> generic
Lean terms over a carrier `R` with `[Add R] [Sub R] [Mul R] [Div R] [Neg R] [NatCast R]`.

Recognised:  integer literals (-> `((n : Nat) : R)`), names, `a.b` attributes, calls / method calls / subscripts (each becomes
ONE opaque parameter named after its source text: `idb(Fn)` -> `idb_Fn`, `i_sig.mean()` -> `i_sig_mean`, `gv.fs` -> `gv_fs`),
`+ - * /` (Python's left-to-right association is kept by full parenthesisation), unary minus, `x ** 2` (-> `x * x`),
`A if <name> else B` (-> `if <name> then A else B`, the name becomes a `Bool` parameter), and — when `elementwise` names an
array-valued sub-expression — that sub-expression is replaced by the element variable `x`.
Anything else (float literals, other powers, comparisons, …) raises AnchorMissing.
"""
import ast
import re

from extract import AnchorMissing


def ident(node_or_text):
    s = node_or_text if isinstance(node_or_text, str) else ast.unparse(node_or_text)
    s = re.sub(r"[^0-9A-Za-z]+", "_", s).strip("_")
    if not s or s[0].isdigit():
        s = "v_" + s
    return s


class Expr:
    """translation result: Lean term + ordered real parameters + ordered Bool parameters"""

    def __init__(self):
        self.params = []
        self.bools = []

    def p(self, name):
        if name not in self.params:
            self.params.append(name)
        return name

    def b(self, name):
        if name not in self.bools:
            self.bools.append(name)
        return name


TRANSC = {"np.sqrt": "Transc.sqrt", "np.log": "Transc.log", "np.exp": "Transc.exp"}


def translate(node, ex: Expr, element=None, rename=None, transc=False):
    """element: function(node) -> None, or the Lean term / AST node that replaces an array-valued operand read element-wise
    (True: the element variable `x`).  transc: allow np.sqrt / np.log / np.exp and `** 0.5` (needs `[Transc R]`)."""
    rename = rename or {}

    def go(n):
        if element is not None:
            e = element(n)
            if e is True:
                return ex.p("x")
            if isinstance(e, ast.AST):
                return go(e)
        if isinstance(n, ast.Constant):
            if isinstance(n.value, bool) or not isinstance(n.value, int):
                raise AnchorMissing(f"non-integer literal {n.value!r} in {ast.unparse(node)[:60]}")
            if n.value < 0:
                raise AnchorMissing("negative literal")
            return f"(({n.value} : Nat) : R)"
        if isinstance(n, ast.Name):
            return ex.p(rename.get(n.id, n.id))
        if transc and isinstance(n, ast.Call) and ast.unparse(n.func) in TRANSC and len(n.args) == 1 and not n.keywords:
            return f"({TRANSC[ast.unparse(n.func)]} {go(n.args[0])})"
        if isinstance(n, (ast.Attribute, ast.Call, ast.Subscript)):
            return ex.p(rename.get(ast.unparse(n), ident(n)))
        if isinstance(n, ast.UnaryOp) and isinstance(n.op, ast.USub):
            return f"(-{go(n.operand)})"
        if isinstance(n, ast.BinOp):
            if isinstance(n.op, ast.Pow):
                if isinstance(n.right, ast.Constant) and n.right.value == 2 and not isinstance(n.right.value, bool):
                    a = go(n.left)
                    return f"({a} * {a})"
                if transc and isinstance(n.right, ast.Constant) and n.right.value == 0.5:
                    return f"(Transc.sqrt {go(n.left)})"
                raise AnchorMissing(f"unsupported power in {ast.unparse(n)[:60]}")
            ops = {ast.Add: "+", ast.Sub: "-", ast.Mult: "*", ast.Div: "/"}
            if type(n.op) not in ops:
                raise AnchorMissing(f"unsupported operator in {ast.unparse(n)[:60]}")
            return f"({go(n.left)} {ops[type(n.op)]} {go(n.right)})"
        if isinstance(n, ast.IfExp) and isinstance(n.test, ast.Name):
            return f"(if {ex.b(n.test.id)} then {go(n.body)} else {go(n.orelse)})"
        raise AnchorMissing(f"unsupported expression {ast.unparse(n)[:60]}")

    return go(node)


def lean_def(name, node, doc, element=None, rename=None, order=None, transc=False):
    """`def name (bools : Bool) (params : R) : R := term`; `order` = expected parameter names (AnchorMissing when the
    expression uses other names: the hand-written model calls the definition positionally)"""
    ex = Expr()
    term = translate(node, ex, element, rename, transc)
    params, bools = ex.params, ex.bools
    if order is not None:
        if sorted(order) != sorted(bools + params):
            raise AnchorMissing(f"{name}: names {sorted(bools + params)} where {sorted(order)} expected in `{ast.unparse(node)[:80]}`")
        bools = [n for n in order if n in bools]
        params = [n for n in order if n in params]
    sig = ""
    if bools:
        sig += " (" + " ".join(bools) + " : Bool)"
    if params:
        sig += " (" + " ".join(params) + " : R)"
    return f"/-- `{doc}` -/\ndef {name}{sig} : R :=\n  {term}\n"


SECTION_OPEN = "section\nvariable {R : Type} [Add R] [Sub R] [Mul R] [Div R] [Neg R] [NatCast R]\n\n"
SECTION_OPEN_TRANSC = "section\nvariable {R : Type} [Add R] [Sub R] [Mul R] [Div R] [Neg R] [NatCast R] [Transc R]\n\n"
SECTION_CLOSE = "end\n"
