#!/usr/bin/env python3
"""Run a property's quick check against a behaviour-PRESERVING refactoring of /repo.

    try_harmless.py <Cxx> <dir with patch.diff, equiv.py, meta.json> <name>

Expected outcomes: exit 0 (no alarm), or `VIOLATION … no-failing-input-found` (the translator / a proof / the
correspondence no longer checks although the property still holds — allowed by construction of the technique).
A VIOLATION with a concrete failing input on a harmless change is a FALSE ALARM of the oracle and must be fixed.
Keeps patch + meta under /verif/harmless/<Cxx>-<name>/."""
import json, os, re, shutil, subprocess, sys, time
VERIF = os.path.abspath(os.path.join(os.path.dirname(__file__), ".."))
PY = "/venv/bin/python"


def sh(cmd, cwd=None, env=None, timeout=3000):
    e = dict(os.environ); e.update(env or {})
    p = subprocess.run(cmd, shell=True, cwd=cwd, env=e, stdout=subprocess.PIPE, stderr=subprocess.STDOUT, text=True, timeout=timeout)
    return p.returncode, p.stdout


def main():
    pid, src, name = sys.argv[1], os.path.abspath(sys.argv[2]), sys.argv[3]
    wt = f"/tmp/wt/harmless_{pid}_{name}"
    sh(f"git -C /repo worktree remove --force {wt}")
    rc, out = sh(f"git -C /repo worktree add -q {wt} HEAD"); assert rc == 0, out
    rec = {"property": pid, "name": name}
    try:
        rc, out = sh(f"git -C {wt} apply {src}/patch.diff")
        if rc != 0:
            print("patch does not apply:", out); return 2
        rc, out = sh(f"{PY} -m pytest -q -p no:cacheprovider tests 2>&1 | tail -2", cwd=wt, env={"PYTHONPATH": wt})
        rec["tests_with_patch"] = out.strip().split("\n")[-1]
        t0 = time.time()
        rcc, outc = sh(f"{PY} harness/check.py {pid} quick", cwd=VERIF, env={"VERIF_REPO": wt}, timeout=7200)
        rec["check_exit"] = rcc; rec["seconds"] = round(time.time() - t0, 1)
        vio = [l for l in outc.split("\n") if l.startswith("VIOLATION")]
        rec["violation_line"] = vio[0] if vio else None
        rec["summary"] = [l for l in outc.split("\n") if l.startswith("[") or l.startswith("  ")][:5]
        if rcc == 0:
            rec["outcome"] = "no-alarm"
        elif vio and vio[0].rstrip().endswith("no-failing-input-found"):
            rec["outcome"] = "tie-broken (no-failing-input-found)"
        elif vio:
            rec["outcome"] = "FALSE-ALARM (failing input reported on a harmless change)"
            m = re.search(r"replay=(\S+)", vio[0])
            if m and os.path.exists(m.group(1)):
                r = json.load(open(m.group(1))); rec["reported"] = {"sig": r.get("sig"), "what": (r.get("what") or "")[:300]}
        else:
            rec["outcome"] = f"infrastructure (exit {rcc})"; rec["tail"] = outc[-600:]
        print(json.dumps(rec, indent=1))
        dst = os.path.join(VERIF, "harmless", f"{pid}-{name}")
        os.makedirs(dst, exist_ok=True)
        if os.path.realpath(src) != os.path.realpath(dst):
            shutil.copy(os.path.join(src, "patch.diff"), dst)
        if os.path.exists(os.path.join(src, "equiv.py")) and os.path.realpath(src) != os.path.realpath(dst):
            shutil.copy(os.path.join(src, "equiv.py"), dst)
        meta = {}
        if os.path.exists(os.path.join(src, "meta.json")):
            try: meta = json.load(open(os.path.join(src, "meta.json")))
            except Exception: meta = {}
        meta["property"] = pid; meta["our_check"] = rec
        json.dump(meta, open(os.path.join(dst, "meta.json"), "w"), indent=1)
        return 0
    finally:
        sh(f"git -C /repo worktree remove --force {wt}")
        sh("flock lean/.lake/verif.lock python3 tools/extract.py", cwd=VERIF)


if __name__ == "__main__":
    sys.exit(main())
