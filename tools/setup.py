#!/usr/bin/env python3
"""MANIFEST.setup_cmd: offline build of everything the registered checks need, from files on disk only.
Translates the tables from /repo, regenerates the module/handler index, builds the Props target of every claimed
property and the driver (leaving out models that do not compile, which only affects their own property)."""
import json, os, subprocess, sys, time
VERIF = os.path.abspath(os.path.join(os.path.dirname(__file__), ".."))
sys.path.insert(0, VERIF)
sys.path.insert(0, os.path.join(VERIF, "tools"))
from harness.common import lean  # noqa: E402


def main():
    t0 = time.time()
    print("translate:", json.dumps(lean.translate(None)))
    man = json.load(open(os.path.join(VERIF, "MANIFEST.json")))
    ids = [c["property_id"] for c in man["checks"]]
    targets = [f"OptiVerif.Props.{i}" for i in ids]
    ok, out, secs = lean.build(targets, timeout=7000)
    print(out[-3000:])
    bad = []
    if not ok:
        for t in targets:
            ok1, out1, _ = lean.build([t], timeout=7000)
            if not ok1:
                bad.append(t)
                print(f"FAILED {t}\n{out1[-2000:]}")
    dok, excluded, dout = lean.build_driver_isolating()
    print("driver:", dok, "excluded:", excluded)
    if not dok:
        print(dout[-3000:])
    print(f"setup done in {time.time()-t0:.0f}s; props failed: {bad}")
    return 0 if (not bad and dok) else 1


if __name__ == "__main__":
    sys.exit(main())
