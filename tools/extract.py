#!/usr/bin/env python3
"""
Translator  /repo/opticomlib/*.py  ->  /verif/lean/OptiVerif/Gen/*.lean      (DESIGN.md §2.3 step 1)

Reads the *working tree* with Python's `ast` and re-emits, as Lean definitions, the parts of the code
that are literal tables, constants or straight-line integer/bitwise expressions.  The Lean theorems in
Props/ are stated about these generated definitions, so they are re-checked against what the code says
now on every run.

Deliberately small: anything it does not recognise raises AnchorMissing; the previous generated file is
then kept (so that the Lean project still builds), the event is reported to the caller, and the
correspondence run alone carries the tie for that table.

usage: extract.py [--repo /repo] [--out /verif/lean/OptiVerif/Gen] [--json]
"""
import ast
import json
import sys as _sys
_sys.modules.setdefault("extract", _sys.modules[__name__])
import os
import sys
from fractions import Fraction
from decimal import Decimal


class AnchorMissing(Exception):
    pass


# ------------------------------------------------------------------------------------------------
# helpers
# ------------------------------------------------------------------------------------------------

def _const_expr(n):
    """literal constant expression: numbers/strings/None/bools, + - * / ** % // of those, tuples/lists/dicts/sets of those"""
    if isinstance(n, ast.Constant):
        return True
    if isinstance(n, ast.UnaryOp) and isinstance(n.op, (ast.USub, ast.UAdd)):
        return _const_expr(n.operand)
    if isinstance(n, ast.BinOp) and isinstance(n.op, (ast.Add, ast.Sub, ast.Mult, ast.Div, ast.Pow, ast.Mod, ast.FloorDiv)):
        return _const_expr(n.left) and _const_expr(n.right)
    if isinstance(n, (ast.Tuple, ast.List, ast.Set)):
        return all(_const_expr(e) for e in n.elts)
    if isinstance(n, ast.Dict):
        return all(k is not None and _const_expr(k) for k in n.keys) and all(_const_expr(v) for v in n.values)
    return False


def _bound_names(node):
    """every name that `node` (a function, class or module body part) may bind, at any depth"""
    out = set()
    for n in ast.walk(node):
        if isinstance(n, ast.Name) and isinstance(n.ctx, (ast.Store, ast.Del)):
            out.add(n.id)
        elif isinstance(n, ast.arg):
            out.add(n.arg)
        elif isinstance(n, (ast.FunctionDef, ast.AsyncFunctionDef, ast.ClassDef)):
            out.add(n.name)
        elif isinstance(n, (ast.Global, ast.Nonlocal)):
            out.update(n.names)
        elif isinstance(n, (ast.Import, ast.ImportFrom)):
            for a in n.names:
                out.add((a.asname or a.name).split(".")[0])
        elif isinstance(n, ast.ExceptHandler) and n.name:
            out.add(n.name)
    return out


def inline_private_constants(tree):
    """Semantics-preserving normalisation applied before any anchor is matched: a module-level `_NAME = <literal
    constant expression>` that is bound exactly once in the whole module (no other store, parameter, global
    declaration, import or def of that name at any depth) is substituted for every load of `_NAME`.  A refactoring
    that only gives a literal a private name therefore translates to the same Lean text as the literal itself.
    Public names are left alone (the star-import of the package could let another module rebind them)."""
    binders = {}        # name -> number of top-level statements that bind it somewhere (at any depth)
    consts = {}
    for stmt in tree.body:
        for nm in _bound_names(stmt):
            binders[nm] = binders.get(nm, 0) + 1
        if isinstance(stmt, ast.Assign) and len(stmt.targets) == 1 and isinstance(stmt.targets[0], ast.Name):
            nm = stmt.targets[0].id
            if nm.startswith("_") and not nm.startswith("__") and _const_expr(stmt.value):
                consts[nm] = stmt.value
    # exactly one binder in the whole module: the constant assignment itself (so no local shadows it, nothing rebinds it)
    ok = {nm: v for nm, v in consts.items() if binders.get(nm) == 1}
    if not ok:
        return tree, []

    class Sub(ast.NodeTransformer):
        def visit_Name(self, n):
            if isinstance(n.ctx, ast.Load) and n.id in ok:
                import copy
                return ast.copy_location(copy.deepcopy(ok[n.id]), n)
            return n
    tree = ast.fix_missing_locations(Sub().visit(tree))
    return tree, sorted(ok)


def _simple_arg(n):
    """an argument expression whose evaluation has no effect and can be repeated: a name, a literal, an attribute chain of a name"""
    if isinstance(n, (ast.Name, ast.Constant)):
        return True
    if isinstance(n, ast.Attribute):
        return _simple_arg(n.value)
    if isinstance(n, ast.UnaryOp) and isinstance(n.op, (ast.USub, ast.UAdd)):
        return _simple_arg(n.operand)
    return False


def inline_private_helpers(tree, max_rounds=3):
    """Second semantics-preserving normalisation: a call of a private module-level helper
        def _h(p1, …, pk):            # no decorator, *args, **kwargs, nested def, global, yield, loop, try, with
            [docstring]
            <assignments / expression statements>
            return <expr>
    is expanded in place when it occurs as a whole statement `t = _h(a1, …)`, `t1, t2 = _h(…)`, `return _h(…)` or `_h(…)`,
    and — for helpers that are a single `return <expr>` — anywhere inside an expression.  Conditions (else the call is left
    alone, never guessed): `_h` is bound exactly once in the module and never recursive; every parameter gets a *simple*
    argument (name / literal / attribute chain) or its declared constant default; no parameter is re-assigned in the body;
    no local of the body occurs in the calling function except as the assignment target itself.  Under these conditions
    the expanded text computes the same values in the same order, so a refactoring that only moves statements verbatim
    into such a helper translates to the same Lean text as before."""
    import copy

    binders = {}
    for stmt in tree.body:
        for nm in _bound_names(stmt):
            binders[nm] = binders.get(nm, 0) + 1

    def helper_info(fn):
        if fn.decorator_list or fn.args.vararg or fn.args.kwarg or fn.args.posonlyargs or fn.args.kwonlyargs:
            return None
        body = list(fn.body)
        if body and isinstance(body[0], ast.Expr) and isinstance(body[0].value, ast.Constant) and isinstance(body[0].value.value, str):
            body = body[1:]
        if not body or not isinstance(body[-1], ast.Return) or body[-1].value is None:
            return None
        for st in body[:-1]:
            if not isinstance(st, (ast.Assign, ast.AugAssign, ast.AnnAssign, ast.Expr)):
                return None
        for n in ast.walk(fn):
            if isinstance(n, (ast.Yield, ast.YieldFrom, ast.Await, ast.Lambda, ast.Global, ast.Nonlocal, ast.NamedExpr)) \
                    or (isinstance(n, (ast.FunctionDef, ast.ClassDef)) and n is not fn) \
                    or (isinstance(n, ast.Name) and n.id == fn.name):
                return None
        params = [a.arg for a in fn.args.args]
        defaults = dict(zip(params[len(params) - len(fn.args.defaults):], fn.args.defaults))
        if any(not _const_expr(d) for d in defaults.values()):
            return None
        stores = {n.id for st in body for n in ast.walk(st) if isinstance(n, ast.Name) and isinstance(n.ctx, ast.Store)}
        if stores & set(params):
            return None
        # comprehension variables would need renaming: refuse
        if any(isinstance(n, (ast.ListComp, ast.SetComp, ast.DictComp, ast.GeneratorExp)) for n in ast.walk(fn)):
            return None
        return {"params": params, "defaults": defaults, "body": body, "locals": stores}

    helpers = {}
    for stmt in tree.body:
        if isinstance(stmt, ast.FunctionDef) and stmt.name.startswith("_") and not stmt.name.startswith("__") \
                and binders.get(stmt.name) == 1:
            info = helper_info(stmt)
            if info:
                helpers[stmt.name] = info
    if not helpers:
        return tree, []
    used = set()

    def bind(info, call):
        """param -> argument expression, or None when the call cannot be expanded"""
        if any(isinstance(a, ast.Starred) for a in call.args) or any(k.arg is None for k in call.keywords):
            return None
        if len(call.args) > len(info["params"]):
            return None
        m = dict(zip(info["params"], call.args))
        for k in call.keywords:
            if k.arg not in info["params"] or k.arg in m:
                return None
            m[k.arg] = k.value
        for p_ in info["params"]:
            if p_ not in m:
                if p_ not in info["defaults"]:
                    return None
                m[p_] = info["defaults"][p_]
        if not all(_simple_arg(v) or _const_expr(v) for v in m.values()):
            return None
        return m

    class Subst(ast.NodeTransformer):
        def __init__(self, m):
            self.m = m

        def visit_Name(self, n):
            if isinstance(n.ctx, ast.Load) and n.id in self.m:
                return ast.copy_location(copy.deepcopy(self.m[n.id]), n)
            return n

    def names_in(fn_node, skip_stmt):
        out = set()
        for n in ast.walk(fn_node):
            if isinstance(n, ast.Name):
                out.add(n.id)
            elif isinstance(n, ast.arg):
                out.add(n.arg)
        return out

    def expand_stmt(st, owner):
        """list of statements replacing `st`, or None"""
        call, kind = None, None
        if isinstance(st, ast.Assign) and len(st.targets) == 1 and isinstance(st.value, ast.Call):
            call, kind = st.value, "assign"
        elif isinstance(st, ast.Return) and isinstance(st.value, ast.Call):
            call, kind = st.value, "return"
        elif isinstance(st, ast.Expr) and isinstance(st.value, ast.Call):
            call, kind = st.value, "expr"
        if call is None or not isinstance(call.func, ast.Name) or call.func.id not in helpers:
            return None
        info = helpers[call.func.id]
        m = bind(info, call)
        if m is None:
            return None
        tgt_names = {n.id for n in ast.walk(st.targets[0]) if isinstance(n, ast.Name)} if kind == "assign" else set()
        # names of the calling function, not counting this statement's own targets
        others = set()
        for n in ast.walk(owner):
            if n is st:
                continue
            if isinstance(n, ast.Name):
                others.add(n.id)
            elif isinstance(n, ast.arg):
                others.add(n.arg)
        # the statement itself is part of owner: its target names were added through the walk; allow a local to coincide
        # with the target only
        clash = (info["locals"] & others) - tgt_names
        real_clash = set()
        for nm in clash:
            # is nm used anywhere in owner outside st?
            cnt = 0
            for n in ast.walk(owner):
                if isinstance(n, ast.Name) and n.id == nm:
                    cnt += 1
            inside = sum(1 for n in ast.walk(st) if isinstance(n, ast.Name) and n.id == nm)
            if cnt > inside:
                real_clash.add(nm)
        if real_clash:
            return None
        sub = Subst(m)
        out = [sub.visit(copy.deepcopy(b)) for b in info["body"][:-1]]
        ret = sub.visit(copy.deepcopy(info["body"][-1].value))
        if kind == "assign":
            out.append(ast.Assign(targets=[copy.deepcopy(st.targets[0])], value=ret))
        elif kind == "return":
            out.append(ast.Return(value=ret))
        else:
            out.append(ast.Expr(value=ret))
        used.add(call.func.id)
        return [ast.copy_location(o, st) for o in out]

    class ExprInline(ast.NodeTransformer):
        def visit_Call(self, n):
            self.generic_visit(n)
            if isinstance(n.func, ast.Name) and n.func.id in helpers and len(helpers[n.func.id]["body"]) == 1:
                info = helpers[n.func.id]
                m = bind(info, n)
                if m is not None:
                    used.add(n.func.id)
                    return ast.copy_location(Subst(m).visit(copy.deepcopy(info["body"][-1].value)), n)
            return n

    def rewrite_body(body, owner):
        changed = False
        out = []
        for st in body:
            rep = expand_stmt(st, owner)
            if rep is not None:
                out.extend(rep)
                changed = True
                continue
            for fld in ("body", "orelse", "finalbody"):
                sub = getattr(st, fld, None)
                if isinstance(sub, list) and sub and isinstance(sub[0], ast.stmt) and not isinstance(st, (ast.FunctionDef, ast.ClassDef)):
                    nb, ch = rewrite_body(sub, owner)
                    if ch:
                        setattr(st, fld, nb)
                        changed = True
            out.append(st)
        return out, changed

    def functions(node):
        for n in node.body:
            if isinstance(n, ast.FunctionDef):
                yield n
            elif isinstance(n, ast.ClassDef):
                for k in n.body:
                    if isinstance(k, ast.FunctionDef):
                        yield k

    for _ in range(max_rounds):
        any_change = False
        for fn in functions(tree):
            if fn.name in helpers:
                continue
            nb, ch = rewrite_body(fn.body, fn)
            if ch:
                fn.body = nb
                any_change = True
            before = ast.dump(fn)
            ExprInline().visit(fn)
            if ast.dump(fn) != before:
                any_change = True
        if not any_change:
            break
    return ast.fix_missing_locations(tree), sorted(used)


def parse(repo, rel):
    path = os.path.join(repo, rel)
    with open(path, "r", encoding="utf-8") as f:
        src = f.read()
    tree, _inlined = inline_private_constants(ast.parse(src, filename=path))
    tree, _helpers = inline_private_helpers(tree)
    return tree, src


def find_def(tree, name, cls=None):
    body = tree.body
    if cls is not None:
        for node in body:
            if isinstance(node, ast.ClassDef) and node.name == cls:
                body = node.body
                break
        else:
            raise AnchorMissing(f"class {cls}")
    for node in body:
        if isinstance(node, (ast.FunctionDef, ast.ClassDef)) and node.name == name:
            return node
    raise AnchorMissing(f"def {name}")


def assigns_to(fn, name):
    """all ast.Assign nodes (any depth) in fn whose single target is Name `name`"""
    out = []
    for node in ast.walk(fn):
        if isinstance(node, ast.Assign) and len(node.targets) == 1:
            t = node.targets[0]
            if isinstance(t, ast.Name) and t.id == name:
                out.append(node)
    return out


_BIN = {
    ast.RShift: ">>>", ast.LShift: "<<<", ast.BitAnd: "&&&", ast.BitOr: "|||", ast.BitXor: "^^^",
    ast.Add: "+", ast.Sub: "-", ast.Mult: "*", ast.Mod: "%", ast.FloorDiv: "/", ast.Pow: "^",
}


def int_expr(node, allowed, rename=None):
    """Translate a Python integer expression into a fully parenthesised Lean term.
    Only names in `allowed` may occur."""
    rename = rename or {}
    if isinstance(node, ast.Constant) and isinstance(node.value, int) and not isinstance(node.value, bool):
        return str(node.value)
    if isinstance(node, ast.Name):
        if node.id not in allowed:
            raise AnchorMissing(f"unexpected name {node.id}")
        return rename.get(node.id, node.id)
    if isinstance(node, ast.BinOp) and type(node.op) in _BIN:
        return f"({int_expr(node.left, allowed, rename)} {_BIN[type(node.op)]} {int_expr(node.right, allowed, rename)})"
    raise AnchorMissing(f"unsupported expression {ast.dump(node)[:80]}")


def lit_number(node):
    """exact value of a numeric literal expression (ints, floats, unary minus, a op b on literals)"""
    if isinstance(node, ast.Constant) and isinstance(node.value, (int, float)) and not isinstance(node.value, bool):
        if isinstance(node.value, int):
            return Fraction(node.value)
        return Fraction(Decimal(repr(node.value)))
    if isinstance(node, ast.UnaryOp) and isinstance(node.op, ast.USub):
        return -lit_number(node.operand)
    if isinstance(node, ast.BinOp):
        a, b = lit_number(node.left), lit_number(node.right)
        if isinstance(node.op, ast.Mult):
            return a * b
        if isinstance(node.op, ast.Div):
            return a / b
        if isinstance(node.op, ast.Add):
            return a + b
        if isinstance(node.op, ast.Sub):
            return a - b
        if isinstance(node.op, ast.Pow) and b.denominator == 1:
            return a ** int(b)
    raise AnchorMissing(f"not a numeric literal: {ast.dump(node)[:80]}")


def lean_rat(q: Fraction):
    if q.denominator == 1:
        return f"({q.numerator} : Rat)"
    return f"(({q.numerator} : Rat) / {q.denominator})"


HEADER = "-- GENERATED by /verif/tools/extract.py from /repo/opticomlib — do not edit\n"

# ------------------------------------------------------------------------------------------------
# extractors: each returns Lean source text
# ------------------------------------------------------------------------------------------------

def load_extractors():
    """every module tools/extractors/*.py with NAME and generate(repo) -> Lean text"""
    import importlib.util
    d = os.path.join(os.path.dirname(os.path.abspath(__file__)), "extractors")
    out = {}
    for fn in sorted(os.listdir(d)):
        if fn.endswith(".py") and not fn.startswith("_"):
            spec = importlib.util.spec_from_file_location("extractors_" + fn[:-3], os.path.join(d, fn))
            mod = importlib.util.module_from_spec(spec)
            spec.loader.exec_module(mod)
            out[mod.NAME] = mod.generate
    return out




def run(repo="/repo", out=None, only=None):
    out = out or os.path.join(os.path.dirname(os.path.abspath(__file__)), "..", "lean", "OptiVerif", "Gen")
    os.makedirs(out, exist_ok=True)
    status = {}
    for name, fn in load_extractors().items():
        if only and name not in only:
            continue
        path = os.path.join(out, name + ".lean")
        try:
            text = fn(repo)
        except AnchorMissing as e:
            status[name] = {"status": "anchor-missing", "detail": str(e), "kept_previous": os.path.exists(path)}
            continue
        except (SyntaxError, OSError) as e:
            status[name] = {"status": "source-unreadable", "detail": str(e), "kept_previous": os.path.exists(path)}
            continue
        old = None
        if os.path.exists(path):
            with open(path, "r", encoding="utf-8") as f:
                old = f.read()
        if old != text:
            with open(path, "w", encoding="utf-8") as f:
                f.write(text)
            status[name] = {"status": "regenerated-changed" if old is not None else "generated"}
        else:
            status[name] = {"status": "regenerated-identical"}
    return status


if __name__ == "__main__":
    args = sys.argv[1:]
    repo = "/repo"
    out = None
    if "--repo" in args:
        repo = args[args.index("--repo") + 1]
    if "--out" in args:
        out = args[args.index("--out") + 1]
    st = run(repo, out)
    print(json.dumps(st, indent=1))
