#!/usr/bin/env python3
"""
Translator  /repo/opticomlib/*.py  ->  /verif/lean/OptiVerif/Gen/*.lean      (DESIGN.md §2.3 step 1)

Reads the *working tree* with Python's `ast` and re-emits, as Lean definitions, the parts of the code
that are literal tables, constants or straight-line integer/bitwise expressions.  The Lean theorems in
Props/ are stated about these generated definitions, so they are re-checked against what the code says
now on every run.

Deliberately small: anything it does not recognise raises AnchorMissing; the previous generated file is
then kept (so that the Lean project still builds), the event is reported to the caller, and the
correspondence run alone carries the tie for that table.

usage: extract.py [--repo /repo] [--out /verif/lean/OptiVerif/Gen] [--json]
"""
import ast
import json
import sys as _sys
_sys.modules.setdefault("extract", _sys.modules[__name__])
import os
import sys
from fractions import Fraction
from decimal import Decimal


class AnchorMissing(Exception):
    pass


# ------------------------------------------------------------------------------------------------
# helpers
# ------------------------------------------------------------------------------------------------

def _const_expr(n):
    """literal constant expression: numbers/strings/None/bools, + - * / ** % // of those, tuples/lists/dicts/sets of those"""
    if isinstance(n, ast.Constant):
        return True
    if isinstance(n, ast.UnaryOp) and isinstance(n.op, (ast.USub, ast.UAdd)):
        return _const_expr(n.operand)
    if isinstance(n, ast.BinOp) and isinstance(n.op, (ast.Add, ast.Sub, ast.Mult, ast.Div, ast.Pow, ast.Mod, ast.FloorDiv)):
        return _const_expr(n.left) and _const_expr(n.right)
    if isinstance(n, (ast.Tuple, ast.List, ast.Set)):
        return all(_const_expr(e) for e in n.elts)
    if isinstance(n, ast.Dict):
        return all(k is not None and _const_expr(k) for k in n.keys) and all(_const_expr(v) for v in n.values)
    return False


def _bound_names(node):
    """every name that `node` (a function, class or module body part) may bind, at any depth"""
    out = set()
    for n in ast.walk(node):
        if isinstance(n, ast.Name) and isinstance(n.ctx, (ast.Store, ast.Del)):
            out.add(n.id)
        elif isinstance(n, ast.arg):
            out.add(n.arg)
        elif isinstance(n, (ast.FunctionDef, ast.AsyncFunctionDef, ast.ClassDef)):
            out.add(n.name)
        elif isinstance(n, (ast.Global, ast.Nonlocal)):
            out.update(n.names)
        elif isinstance(n, (ast.Import, ast.ImportFrom)):
            for a in n.names:
                out.add((a.asname or a.name).split(".")[0])
        elif isinstance(n, ast.ExceptHandler) and n.name:
            out.add(n.name)
    return out


def inline_private_constants(tree):
    """Semantics-preserving normalisation applied before any anchor is matched: a module-level `_NAME = <literal
    constant expression>` that is bound exactly once in the whole module (no other store, parameter, global
    declaration, import or def of that name at any depth) is substituted for every load of `_NAME`.  A refactoring
    that only gives a literal a private name therefore translates to the same Lean text as the literal itself.
    Public names are left alone (the star-import of the package could let another module rebind them)."""
    binders = {}        # name -> number of top-level statements that bind it somewhere (at any depth)
    consts = {}
    for stmt in tree.body:
        for nm in _bound_names(stmt):
            binders[nm] = binders.get(nm, 0) + 1
        if isinstance(stmt, ast.Assign) and len(stmt.targets) == 1 and isinstance(stmt.targets[0], ast.Name):
            nm = stmt.targets[0].id
            if nm.startswith("_") and not nm.startswith("__") and _const_expr(stmt.value):
                consts[nm] = stmt.value
    # exactly one binder in the whole module: the constant assignment itself (so no local shadows it, nothing rebinds it)
    ok = {nm: v for nm, v in consts.items() if binders.get(nm) == 1}
    if not ok:
        return tree, []

    class Sub(ast.NodeTransformer):
        def visit_Name(self, n):
            if isinstance(n.ctx, ast.Load) and n.id in ok:
                import copy
                return ast.copy_location(copy.deepcopy(ok[n.id]), n)
            return n
    tree = ast.fix_missing_locations(Sub().visit(tree))
    return tree, sorted(ok)


def parse(repo, rel):
    path = os.path.join(repo, rel)
    with open(path, "r", encoding="utf-8") as f:
        src = f.read()
    tree, _inlined = inline_private_constants(ast.parse(src, filename=path))
    return tree, src


def find_def(tree, name, cls=None):
    body = tree.body
    if cls is not None:
        for node in body:
            if isinstance(node, ast.ClassDef) and node.name == cls:
                body = node.body
                break
        else:
            raise AnchorMissing(f"class {cls}")
    for node in body:
        if isinstance(node, (ast.FunctionDef, ast.ClassDef)) and node.name == name:
            return node
    raise AnchorMissing(f"def {name}")


def assigns_to(fn, name):
    """all ast.Assign nodes (any depth) in fn whose single target is Name `name`"""
    out = []
    for node in ast.walk(fn):
        if isinstance(node, ast.Assign) and len(node.targets) == 1:
            t = node.targets[0]
            if isinstance(t, ast.Name) and t.id == name:
                out.append(node)
    return out


_BIN = {
    ast.RShift: ">>>", ast.LShift: "<<<", ast.BitAnd: "&&&", ast.BitOr: "|||", ast.BitXor: "^^^",
    ast.Add: "+", ast.Sub: "-", ast.Mult: "*", ast.Mod: "%", ast.FloorDiv: "/", ast.Pow: "^",
}


def int_expr(node, allowed, rename=None):
    """Translate a Python integer expression into a fully parenthesised Lean term.
    Only names in `allowed` may occur."""
    rename = rename or {}
    if isinstance(node, ast.Constant) and isinstance(node.value, int) and not isinstance(node.value, bool):
        return str(node.value)
    if isinstance(node, ast.Name):
        if node.id not in allowed:
            raise AnchorMissing(f"unexpected name {node.id}")
        return rename.get(node.id, node.id)
    if isinstance(node, ast.BinOp) and type(node.op) in _BIN:
        return f"({int_expr(node.left, allowed, rename)} {_BIN[type(node.op)]} {int_expr(node.right, allowed, rename)})"
    raise AnchorMissing(f"unsupported expression {ast.dump(node)[:80]}")


def lit_number(node):
    """exact value of a numeric literal expression (ints, floats, unary minus, a op b on literals)"""
    if isinstance(node, ast.Constant) and isinstance(node.value, (int, float)) and not isinstance(node.value, bool):
        if isinstance(node.value, int):
            return Fraction(node.value)
        return Fraction(Decimal(repr(node.value)))
    if isinstance(node, ast.UnaryOp) and isinstance(node.op, ast.USub):
        return -lit_number(node.operand)
    if isinstance(node, ast.BinOp):
        a, b = lit_number(node.left), lit_number(node.right)
        if isinstance(node.op, ast.Mult):
            return a * b
        if isinstance(node.op, ast.Div):
            return a / b
        if isinstance(node.op, ast.Add):
            return a + b
        if isinstance(node.op, ast.Sub):
            return a - b
        if isinstance(node.op, ast.Pow) and b.denominator == 1:
            return a ** int(b)
    raise AnchorMissing(f"not a numeric literal: {ast.dump(node)[:80]}")


def lean_rat(q: Fraction):
    if q.denominator == 1:
        return f"({q.numerator} : Rat)"
    return f"(({q.numerator} : Rat) / {q.denominator})"


HEADER = "-- GENERATED by /verif/tools/extract.py from /repo/opticomlib — do not edit\n"

# ------------------------------------------------------------------------------------------------
# extractors: each returns Lean source text
# ------------------------------------------------------------------------------------------------

def load_extractors():
    """every module tools/extractors/*.py with NAME and generate(repo) -> Lean text"""
    import importlib.util
    d = os.path.join(os.path.dirname(os.path.abspath(__file__)), "extractors")
    out = {}
    for fn in sorted(os.listdir(d)):
        if fn.endswith(".py") and not fn.startswith("_"):
            spec = importlib.util.spec_from_file_location("extractors_" + fn[:-3], os.path.join(d, fn))
            mod = importlib.util.module_from_spec(spec)
            spec.loader.exec_module(mod)
            out[mod.NAME] = mod.generate
    return out




def run(repo="/repo", out=None, only=None):
    out = out or os.path.join(os.path.dirname(os.path.abspath(__file__)), "..", "lean", "OptiVerif", "Gen")
    os.makedirs(out, exist_ok=True)
    status = {}
    for name, fn in load_extractors().items():
        if only and name not in only:
            continue
        path = os.path.join(out, name + ".lean")
        try:
            text = fn(repo)
        except AnchorMissing as e:
            status[name] = {"status": "anchor-missing", "detail": str(e), "kept_previous": os.path.exists(path)}
            continue
        except (SyntaxError, OSError) as e:
            status[name] = {"status": "source-unreadable", "detail": str(e), "kept_previous": os.path.exists(path)}
            continue
        old = None
        if os.path.exists(path):
            with open(path, "r", encoding="utf-8") as f:
                old = f.read()
        if old != text:
            with open(path, "w", encoding="utf-8") as f:
                f.write(text)
            status[name] = {"status": "regenerated-changed" if old is not None else "generated"}
        else:
            status[name] = {"status": "regenerated-identical"}
    return status


if __name__ == "__main__":
    args = sys.argv[1:]
    repo = "/repo"
    out = None
    if "--repo" in args:
        repo = args[args.index("--repo") + 1]
    if "--out" in args:
        out = args[args.index("--out") + 1]
    st = run(repo, out)
    print(json.dumps(st, indent=1))
